"""C19 — Project search finds every definition and honours ignore rules.

Streams
  gitignore  references.gitignored_paths on generated .gitignore texts vs model parse_gitignore
  expand     references.expand_relative_ignore_paths on generated (folder, name) sets vs model expand
  walk       generated project trees on disk: recurse_find_python_folders_and_files (ordered output)
             vs model `walk` evaluated in Coq on the same tree with the same listing order; and vs an
             independent component-wise oracle of the ignore rules (set of visible files / folders)
  search     Project.search / complete_search for every identifier defined in the generated tree
             (all_scopes on/off, type prefixes, modules / packages / namespace folders, dotted)
             vs the known content of the tree: everything visible is found, nothing hidden is reported
  script     Script.search / complete_search on a buffer vs filtering Script.get_names (oracle) and vs
             model script_search
  split      helpers.split_search_string vs model
  dedupe     project._try_to_skip_duplicates driven with stub definitions vs model dedupe
  limits     references.search_in_file_ios with a stubbed _check_fs vs model scan (30 parsed / 2000 opened)
"""
import json
import os
import re
import shutil
import time

import common
from common import g_str, g_bool, g_list, g_opt, g_N

IMPORTS = 'From JV Require Import Base.Str Model.C19_Walk.\n'

FP = [('jedi/inference/references.py', 'gitignored_paths'),
      ('jedi/inference/references.py', 'expand_relative_ignore_paths'),
      ('jedi/inference/references.py', 'recurse_find_python_folders_and_files'),
      ('jedi/inference/references.py', 'search_in_file_ios'),
      ('jedi/inference/references.py', '_check_fs'),
      ('jedi/file_io.py', 'FolderIO.walk'),
      ('jedi/api/project.py', '_try_to_skip_duplicates'),
      ('jedi/api/project.py', 'Project._search_func'),
      ('jedi/api/completion.py', 'search_in_module'),
      ('jedi/api/helpers.py', 'split_search_string'),
      ('jedi/api/helpers.py', 'get_module_names'),
      ('jedi/api/__init__.py', 'Script._search_func')]

IGN = ('.tox', '.venv', '.mypy_cache', 'venv', '__pycache__')
FAKE_ROOT = '/R'

DEFS = '''
Definition entry_eqb (a b : entry) : bool :=
  match a, b with
  | EAbs x, EAbs y => str_eqb x y
  | ERel x, ERel y => str_eqb x y
  | _, _ => false
  end.
Fixpoint entries_eqb (a b : list entry) : bool :=
  match a, b with
  | [], [] => true
  | x :: a', y :: b' => entry_eqb x y && entries_eqb a' b'
  | _, _ => false
  end.
Fixpoint strs_eqb (a b : list str) : bool :=
  match a, b with
  | [], [] => true
  | x :: a', y :: b' => str_eqb x y && strs_eqb a' b'
  | _, _ => false
  end.
Definition subset (a b : list str) : bool := forallb (fun x => str_in x b) a.
Definition seteq (a b : list str) : bool := subset a b && subset b a.
Definition entry_in (e : entry) (l : list entry) : bool := existsb (entry_eqb e) l.
Definition entries_seteq (a b : list entry) : bool :=
  forallb (fun x => entry_in x b) a && forallb (fun x => entry_in x a) b.
Definition ns_eqb (a b : list N) : bool := strs_eqb (map (fun x => [x]) a) (map (fun x => [x]) b).
'''


# ----------------------------------------------------------------------------
# generated project trees

DIR_NAMES = ['a', 'ab', 'abc', 'a.b', 'b', 'foo', 'foo.py', 'pkg', 'sub', 'zq_pk', 'zq_ns', 'lib',
             'venv', '.venv', '__pycache__', '.tox', '.mypy_cache', 'venv2', 'Venv', 'build', 'gen', 'é']
FILE_NAMES = ['m.py', 'n.py', 's.pyi', 'x.txt', '.py', 'a.pyc', 'foo.py', 'gen.py', '__init__.py', 'venv.py',
              'b.py.bak', '..py', 'é.py', 'py', 'm.pyi', 'build.py', 'a.py', 'ab.py', 'README', 'x.pyx', 'venv']


class Node:
    """A directory of the generated tree."""

    def __init__(self, comps):
        self.comps = comps
        self.files = {}      # name -> content (str)
        self.subs = {}       # name -> Node
        self.order_files = None
        self.order_subs = None

    def all_dirs(self):
        yield self
        for s in self.subs.values():
            yield from s.all_dirs()


def gen_gitignore(rng, node, all_rel_paths):
    """Lines of a .gitignore for `node`; many of them name things that exist."""
    lines = []
    below = [p[len(node.comps):] for p in all_rel_paths
             if len(p) > len(node.comps) and p[:len(node.comps)] == node.comps]
    for _ in range(rng.randint(1, 5)):
        k = rng.random()
        if below and k < 0.55:
            p = rng.choice(below)
            form = rng.random()
            if form < 0.35:
                ent = p[-1]                                   # bare name: applies at and below
            elif form < 0.6:
                ent = '/' + '/'.join(p)                       # anchored with leading slash
            elif form < 0.8:
                ent = '/'.join(p) if len(p) > 1 else '/' + p[0]   # anchored because of an inner slash
            elif form < 0.9:
                ent = p[-1][:-1] if len(p[-1]) > 1 else p[-1]     # a string prefix of an existing name
            else:
                ent = p[-1] + rng.choice(['x', '2', '.py'])
        elif k < 0.8:
            n = rng.choice(DIR_NAMES + FILE_NAMES)
            ent = rng.choice([n, '/' + n, 'sub/' + n, n + '/m.py', '/m.py', 'a/' + n, n + '/' + n])
        else:
            n = rng.choice(DIR_NAMES + FILE_NAMES)
            ent = rng.choice(['', ' ', '#' + n, '!' + n, '*.pyc', n + '*', '*', n + ' ', ' ' + n, '//' + n,
                              './' + n, '../' + n, '/', '///', 'a/../' + n, n + '\x0b', n + '\x0c' + n,
                              n + '\x1c', n + '\x85', '\\' + n, n + '/.', '#', '!', '?' + n, '[' + n[0] + ']' + n[1:]])
        deco = rng.random()
        if deco < 0.25:
            ent = ent + '/'
        elif deco < 0.3:
            ent = ent + '//'
        lines.append(ent)
    text = ''
    for i, l in enumerate(lines):
        eol = rng.choice(['\n', '\n', '\n', '\r\n', '\r', '\n\n'])
        if i == len(lines) - 1 and rng.random() < 0.3:
            eol = ''
        text += l + eol
    return text


def gen_tree(rng, max_files=30, py_content=None):
    """Returns the root Node.  py_content(rng, comps, name) gives the text of python files."""
    root = Node([])
    dirs = [root]
    for _ in range(rng.randint(2, 10)):
        parent = rng.choice(dirs)
        if len(parent.comps) >= 4:
            continue
        n = rng.choice(DIR_NAMES)
        if n in parent.subs or n in parent.files:
            continue
        if rng.random() < 0.35 and parent.subs:   # a sibling whose name is a string prefix/extension of another
            base = rng.choice(sorted(parent.subs))
            n = rng.choice([base + 'b', base[:-1] or base, base + '_', base + '.x'])
            if n in parent.subs or n in parent.files:
                continue
        node = Node(parent.comps + [n])
        parent.subs[n] = node
        dirs.append(node)
    nfiles = 0
    for d in dirs:
        for f in rng.sample(FILE_NAMES, rng.randint(0, 4)):
            if nfiles >= max_files or f in d.subs:
                continue
            if py_content is not None and f.endswith(('.py', '.pyi')):
                d.files[f] = py_content(rng, d.comps, f)
            else:
                d.files[f] = 'zq_txt_%d = 1\n' % nfiles
            nfiles += 1
    all_paths = []
    for d in dirs:
        if d.comps:
            all_paths.append(d.comps)
        for f in d.files:
            all_paths.append(d.comps + [f])
    for d in dirs:
        if rng.random() < (0.6 if d is root else 0.35):
            d.files['.gitignore'] = gen_gitignore(rng, d, all_paths)
    # sibling folders one of whose names is a string prefix of the other: a bare entry in the shorter one
    # naming something that exists in the longer one must not leak over
    for d in dirs:
        for x in list(d.subs):
            for y in list(d.subs):
                if x != y and y.startswith(x) and rng.random() < 0.6:
                    inside = [n for n in list(d.subs[y].files) + list(d.subs[y].subs) if n != '.gitignore']
                    if inside:
                        old = d.subs[x].files.get('.gitignore', '')
                        if old and not old.endswith(('\n', '\r')):
                            old += '\n'
                        d.subs[x].files['.gitignore'] = old + rng.choice(inside) + rng.choice(['\n', '/\n', ''])
    if rng.random() < 0.1 and dirs[-1] is not root:      # .gitignore that is a directory
        if '.gitignore' not in dirs[-1].files:
            dirs[-1].subs['.gitignore'] = Node(dirs[-1].comps + ['.gitignore'])
            dirs[-1].subs['.gitignore'].files['m.py'] = 'zq_in_gi = 1\n'
    return root


def write_tree(node, path):
    os.makedirs(path, exist_ok=True)
    for n, c in node.files.items():
        with open(os.path.join(path, n), 'w', encoding='utf8', newline='') as f:
            f.write(c)
    for n, s in node.subs.items():
        write_tree(s, os.path.join(path, n))


def read_order(node, path):
    """The listing order os.walk will see (os.scandir)."""
    ds, fs = [], []
    with os.scandir(path) as it:
        for e in it:
            (ds if e.is_dir() else fs).append(e.name)
    assert sorted(ds) == sorted(node.subs) and sorted(fs) == sorted(node.files), (path, ds, fs)
    node.order_subs, node.order_files = ds, fs
    for n in ds:
        read_order(node.subs[n], os.path.join(path, n))


def g_tree(node):
    fs = g_list(node.order_files,
                lambda n: '(%s, %s)' % (g_str(n), g_str(node.files[n]) if n == '.gitignore' else '(@nil N)'),
                'str * str')
    ss = g_list(node.order_subs, lambda n: '(%s, %s)' % (g_str(n), g_tree(node.subs[n])), 'str * tree')
    return '(Dir %s %s)' % (fs, ss)


def g_items(items):
    return g_list(items, lambda t: '(%s, %s)' % (g_bool(t[0]), g_str(t[1])), 'bool * str')


# independent oracle of the ignore rules: lexically scoped, component-wise ----------------
def oracle_entries(text):
    """(anchored component lists, bare names) of a .gitignore, read the documented way:
    blank lines, comments, negations and wildcard lines are skipped; a trailing slash is
    dropped; an entry with a slash is anchored at the folder of the .gitignore."""
    anchored, bare = [], []
    for raw in re.split(r'\r\n|\r|\n', text):
        if raw == '' or raw[0] in '#!' or '*' in raw:
            continue
        e = raw
        while e.endswith('/'):
            e = e[:-1]
        if '/' in e:
            while e.startswith('/'):
                e = e[1:]
            anchored.append(e.split('/'))
        else:
            bare.append(e)
    return anchored, bare


def oracle_visible(root):
    """-> (visible python files, visible folders, hidden python files, hidden folders) as component tuples."""
    vis_f, vis_d, hid_f, hid_d = set(), set(), set(), set()

    def is_py(n):
        stem, dot, ext = n.rpartition('.')
        return dot == '.' and stem != '' and ext in ('py', 'pyi')

    def go(node, rules, hidden):
        if '.gitignore' in node.files:
            a, b = oracle_entries(node.files['.gitignore'])
            rules = rules + [(node.comps, a, b)]

        def ignored(name, isdir):
            full = node.comps + [name]
            for (anc, anchored, bare) in rules:
                if name in bare:
                    return True
                for e in anchored:
                    if anc + e == full:
                        return True
            return isdir and name in IGN

        for n in node.files:
            if is_py(n):
                (hid_f if hidden or ignored(n, False) else vis_f).add(tuple(node.comps + [n]))
        for n, s in node.subs.items():
            h = hidden or ignored(n, True)
            (hid_d if h else vis_d).add(tuple(s.comps))
            go(s, rules, h)

    go(root, [], False)
    return vis_f, vis_d, hid_f, hid_d


def real_walk(path):
    from jedi.file_io import FolderIO
    from jedi.inference.references import recurse_find_python_folders_and_files
    out = []
    for folder_io, file_io in recurse_find_python_folders_and_files(FolderIO(path)):
        if file_io is None:
            out.append((True, str(folder_io.path)))
        else:
            out.append((False, str(file_io.path)))
    return out


def canon(path, real_root):
    assert path == real_root or path.startswith(real_root + os.sep), (path, real_root)
    return FAKE_ROOT + path[len(real_root):]


def tree_json(node):
    return dict(files={n: node.files[n] for n in (node.order_files or node.files)},
                subs={n: tree_json(node.subs[n]) for n in (node.order_subs or node.subs)})


def tree_from_json(j, comps=()):
    node = Node(list(comps))
    node.files = dict(j['files'])
    for n, s in j['subs'].items():
        node.subs[n] = tree_from_json(s, list(comps) + [n])
    node.order_files, node.order_subs = list(node.files), list(node.subs)
    return node


def _walk_task(task):
    j, path = task
    root = tree_from_json(j)
    try:
        write_tree(root, path)
        read_order(root, path)
        try:
            res = dict(ok=True, obs=real_walk(path))
        except Exception as e:
            res = dict(ok=False, sig=common.exc_sig(e))
        res['tree'] = tree_json(root)      # in listing order
    finally:
        shutil.rmtree(path, ignore_errors=True)
    return res


def stream_walk(ctx):
    n = ctx.n(200, 2500)
    cases, metas = [], []
    stats = dict(trees=0, with_gitignore=0, hidden_files=0, hidden_dirs=0, visible_files=0, files=0)
    tasks = [(tree_json(gen_tree(ctx.rng)), os.path.join(ctx.tmp, 'w%d' % it)) for it in range(n)]
    for (j, path), res in zip(tasks, common.pmap(_walk_task, tasks, chunksize=4)):
        root = tree_from_json(res['tree'])
        if not res['ok']:
            ctx.deviation(dict(stream='walk', exc=res['sig']['exc'], site=res['sig']['site']),
                          dict(tree=tree_json(root), error=res['sig']),
                          'recurse_find_python_folders_and_files raised %s' % res['sig']['exc'])
            continue
        obs = res['obs']
        obs = [(d, canon(p, path)) for d, p in obs]
        vis_f, vis_d, hid_f, hid_d = oracle_visible(root)
        got_f = {tuple(p[len(FAKE_ROOT) + 1:].split('/')) for d, p in obs if not d}
        got_d = {tuple(p[len(FAKE_ROOT) + 1:].split('/')) for d, p in obs if d}
        stats['trees'] += 1
        stats['with_gitignore'] += any('.gitignore' in d.files for d in root.all_dirs())
        stats['hidden_files'] += len(hid_f)
        stats['hidden_dirs'] += len(hid_d)
        stats['visible_files'] += len(vis_f)
        stats['files'] += sum(len(d.files) for d in root.all_dirs())
        ctx.count('walk', g_tree(root), nontrivial=bool(hid_f or hid_d))
        meta = dict(tree=tree_json(root), observed=obs)
        bad = False
        for what, exp, got, hid in (('file', vis_f, got_f, hid_f), ('folder', vis_d, got_d, hid_d)):
            missing = sorted(exp - got)
            leaked = sorted(got & hid)
            other = sorted(got - exp - hid)
            if missing:
                bad = True
                ctx.deviation(dict(stream='walk', cls='visible-%s-not-walked' % what),
                              dict(missing=['/'.join(m) for m in missing], **meta),
                              'the project walk misses %s(s) %s that no ignore rule names' % (what, ['/'.join(m) for m in missing]))
            if leaked:
                bad = True
                ctx.deviation(dict(stream='walk', cls='ignored-%s-walked' % what),
                              dict(leaked=['/'.join(m) for m in leaked], **meta),
                              'the project walk yields ignored %s(s) %s' % (what, ['/'.join(m) for m in leaked]))
            if other:
                bad = True
                ctx.deviation(dict(stream='walk', cls='non-python-or-unknown-%s-walked' % what),
                              dict(other=['/'.join(m) for m in other], **meta),
                              'the project walk yields %s(s) %s that are not python files / folders of the tree' % (what, other))
        meta['oracle_flagged'] = bad
        cases.append('(%s, %s)' % (g_tree(root), g_items(obs)))
        metas.append(meta)
    ctx.stat('walk', stats)
    fn = "(fun c => items_eqb (walk %s (fst c)) (snd c))" % g_str(FAKE_ROOT)
    fails, err = yield (fn, cases, 50, DEFS)
    if err:
        raise RuntimeError('coq evaluation failed (walk): ' + err)
    for i in fails[:5]:
        m = metas[i]
        if m['oracle_flagged']:
            continue   # already reported with a failing input
        model = common.coq_show(IMPORTS, ['walk %s (fst %s)' % (g_str(FAKE_ROOT), cases[i])])
        ctx.violation('obligation', dict(what='correspondence walk: ordered output of recurse_find_python_folders_and_files '
                                              'differs from the model; the set-level ignore oracle accepted the output',
                                         tree=m['tree'], observed=m['observed'], model=model[-1500:]), nofail=True)
    if metas:
        ctx.sample(dict(stream='walk', tree=metas[0]['tree'], observed=metas[0]['observed']))


# ----------------------------------------------------------------------------
# gitignored_paths / expand_relative_ignore_paths directly

class _StubFileIO:
    def __init__(self, data):
        self._data = data

    def read(self):
        return self._data


def stream_gitignore(ctx):
    from jedi.file_io import FolderIO
    from jedi.inference.references import gitignored_paths
    rng = ctx.rng
    folder = '/R/x'
    dummy = Node(['x'])
    paths = [['x', 'a'], ['x', 'a', 'm.py'], ['x', 'foo.py'], ['x', 'sub', 'gen', 'n.py'], ['x', 'é'], ['x', 'venv']]
    texts = ['', '\n', '\r', '\r\n', 'a', 'a\n', 'a\r\nb\rc\n\nd', '/', '//', '/a/', 'a/b/', '#a\n!b\nc*\n*\nd',
             'a\x0bb\n', 'a\x0cb\n', 'a\x85b\n', 'a\u2028b\n', ' a\n', 'a \n', '\ta\n', 'a/ \n', 'a//b\n', '/a//\n', 'é/ü\n',
             'a#b\n', 'a!b\n', '\\#a\n', 'a\n#\n', '\n\n\n', 'a\n\r\n\rb', 'a/\r/b/\r\n']
    for _ in range(ctx.n(500, 4000)):
        if rng.random() < 0.6:
            texts.append(gen_gitignore(rng, dummy, paths))
        else:
            alpha = ['a', 'b', '/', '/', '\n', '\r', '#', '!', '*', ' ', '.', 'é', '\x0b', '\x85', 'py']
            texts.append(''.join(rng.choice(alpha) for _ in range(rng.randint(0, 14))))
    cases, metas, kinds = [], [], dict(abs=0, rel=0)
    for text in texts:
        try:
            a, r = gitignored_paths(FolderIO(folder), _StubFileIO(text.encode('utf8')))
        except Exception as e:
            ctx.deviation(dict(stream='gitignore', exc=type(e).__name__), dict(text=text), 'gitignored_paths raised %r' % (e,))
            continue
        a, r = sorted(a), sorted(r)
        kinds['abs'] += len(a)
        kinds['rel'] += len(r)
        # direct oracle: the documented reading of the file
        oa, ob = oracle_entries(text)
        exp_a = sorted({folder + '/' + '/'.join(e) for e in oa})
        exp_r = sorted({(folder, n) for n in ob})
        ok = (a == exp_a and r == exp_r)
        ctx.count('gitignore', text, nontrivial=bool(a or r))
        cases.append('(%s, %s, %s)' % (g_str(text), g_list(a, g_str, 'str'),
                                       g_list(r, lambda t: '(%s, %s)' % (g_str(t[0]), g_str(t[1])), 'str * str')))
        metas.append(dict(text=text, abs=a, rel=r, oracle_abs=exp_a, oracle_rel=exp_r, oracle_ok=ok))
    ctx.stat('gitignore', dict(texts=len(texts), **kinds))
    d = g_str(folder)
    fn = ("(fun c => let '(t, oa, orl) := c in let es := parse_gitignore t in "
          "seteq (abs_of %s es) oa && seteq (map snd (rel_of %s es)) (map snd orl) "
          "&& forallb (fun p => str_eqb (fst p) %s) orl)" % (d, d, d))
    fails, err = yield (fn, cases, 600, DEFS)
    if err:
        raise RuntimeError('coq evaluation failed (gitignore): ' + err)
    for m in [m for m in metas if not m['oracle_ok']][:3]:
        ctx.deviation(dict(stream='gitignore', cls='entries-differ-from-documented-reading'), m,
                      '.gitignore %r is read as abs=%r rel=%r, the documented reading gives abs=%r rel=%r' % (
                          m['text'], m['abs'], m['rel'], m['oracle_abs'], m['oracle_rel']))
    for i in fails[:5]:
        if metas[i]['oracle_ok']:
            ctx.violation('obligation', dict(what='correspondence parse_gitignore: model and gitignored_paths differ',
                                             input=metas[i],
                                             model=common.coq_show(IMPORTS, ['parse_gitignore %s' % g_str(metas[i]['text'])])[-800:]),
                          nofail=True)
    ctx.sample(dict(stream='gitignore', **metas[6]))


def stream_expand(ctx):
    from jedi.file_io import FolderIO
    from jedi.inference.references import expand_relative_ignore_paths
    rng = ctx.rng
    pool = ['/R', '/R/a', '/R/ab', '/R/a/b', '/R/a.b', '/R/a/ab', '/R/ab/a', '/R/b', '/Ra', '/R/a/b/c', '/R/é']
    folders = pool + ['/R/a/', '/R//', '/', '/R/a//', '', '/R/a/b/']
    names = ['foo', 'a', '']
    sets = [[(f, n)] for f in folders for n in names[:2]]
    for _ in range(ctx.n(150, 1500)):
        sets.append([(rng.choice(folders), rng.choice(names)) for _ in range(rng.randint(0, 5))])
    cases, metas = [], []
    for cur in pool:
        for rel in sets:
            try:
                obs = sorted(expand_relative_ignore_paths(FolderIO(cur), set(rel)))
            except Exception as e:
                ctx.deviation(dict(stream='expand', exc=type(e).__name__), dict(cur=cur, rel=rel),
                              'expand_relative_ignore_paths raised %r' % (e,))
                continue
            # direct oracle: a relative entry applies in its folder and below it, nowhere else
            exp = set()
            for f, n in rel:
                fc = f.rstrip('/')
                if cur == f or cur[:len(fc) + 1] == fc + '/':
                    exp.add(cur + '/' + n)
            ok = sorted(exp) == obs
            ctx.count('expand', (cur, tuple(rel)), nontrivial=bool(rel))
            cases.append('(%s, %s, %s)' % (g_str(cur), g_list(rel, lambda t: '(%s, %s)' % (g_str(t[0]), g_str(t[1])), 'str * str'),
                                           g_list(obs, g_str, 'str')))
            metas.append(dict(cur=cur, rel=rel, observed=obs, oracle=sorted(exp), oracle_ok=ok))
    fn = "(fun c => let '(cur, rel, obs) := c in seteq (expand true cur rel) obs)"
    fails, err = yield (fn, cases, 2100, DEFS)
    if err:
        raise RuntimeError('coq evaluation failed (expand): ' + err)
    for m in [m for m in metas if not m['oracle_ok']][:3]:
        ctx.deviation(dict(stream='expand', cls='relative-entry-applied-outside-its-folder'), m,
                      'relative entries %r expanded at %s give %r; only entries of folders at or above it apply: %r' % (
                          m['rel'], m['cur'], m['observed'], m['oracle']))
    for i in fails[:5]:
        if metas[i]['oracle_ok']:
            ctx.violation('obligation', dict(what='correspondence expand: model and expand_relative_ignore_paths differ',
                                             input=metas[i]), nofail=True)
    ctx.stat('expand', dict(cases=len(cases), applied=sum(1 for m in metas if m['observed'])))


# ----------------------------------------------------------------------------
# split_search_string, _try_to_skip_duplicates, search_in_file_ios directly

def stream_split(ctx):
    from jedi.api.helpers import split_search_string
    rng = ctx.rng
    strings = ['', ' ', '.', 'a', 'a.b', 'a.b.c', 'def a', 'def a.b', 'class A', 'class  A', ' a', 'a ', 'def', 'def ', 'function f',
               'def def a', 'a..b', '.a', 'a.', 'class a.', 'x y z.w', 'de f', 'DEF a', 'def\ta', 'é.ü', 'def é']
    alpha = ['a', 'b', 'def', 'class', ' ', ' ', '.', '.', 'f', 'é', 'D']
    for _ in range(ctx.n(300, 3000)):
        strings.append(''.join(rng.choice(alpha) for _ in range(rng.randint(0, 7))))
    cases, metas = [], []
    for s in strings:
        try:
            ty, names = split_search_string(s)
        except Exception as e:
            ctx.deviation(dict(stream='split', exc=type(e).__name__), dict(string=s), 'split_search_string raised %r' % (e,))
            continue
        ctx.count('split', s, nontrivial=(' ' in s or '.' in s))
        cases.append('(%s, %s, %s)' % (g_str(s), g_str(ty), g_list(names, g_str, 'str')))
        metas.append(dict(string=s, type=ty, names=names))
    fn = "(fun c => let '(s, ty, ns) := c in let r := split_search_string s in str_eqb (fst r) ty && strs_eqb (snd r) ns)"
    fails, err = yield (fn, cases, 2000, DEFS)
    if err:
        raise RuntimeError('coq evaluation failed (split): ' + err)
    for i in fails[:5]:
        ctx.violation('obligation', dict(what='correspondence split_search_string: model and implementation differ',
                                         input=metas[i]), nofail=True)


class _StubName:
    def __init__(self, tree_name):
        self.tree_name = tree_name


class _StubDef:
    def __init__(self, tag, tree_name, type_, module_path):
        self.tag, self._name, self.type, self.module_path = tag, _StubName(tree_name), type_, module_path


def stream_dedupe(ctx):
    from pathlib import Path
    from jedi.api import project as project_mod
    rng = ctx.rng
    nodes = [object() for _ in range(4)]
    paths = ['/R/a.py', '/R/b/__init__.py', '/R/a.pyi']
    cases, metas = [], []
    n_dropped = 0
    for it in range(ctx.n(500, 5000)):
        k = rng.randint(0, 9)
        recs = []
        for j in range(k):
            ni = rng.choice([None, None, 0, 1, 2, 3])
            ty = rng.choice(['module', 'module', 'statement', 'class', 'namespace', 'function'])
            pi = rng.choice([None, 0, 0, 1, 2])
            recs.append((j, ni, ty, pi))
        defs = [_StubDef(j, None if ni is None else nodes[ni], ty, None if pi is None else Path(paths[pi]))
                for (j, ni, ty, pi) in recs]
        try:
            out = [d.tag for d in project_mod._try_to_skip_duplicates(lambda: iter(defs))()]
        except Exception as e:
            ctx.deviation(dict(stream='dedupe', exc=type(e).__name__), dict(defs=recs), '_try_to_skip_duplicates raised %r' % (e,))
            continue
        n_dropped += len(recs) - len(out)
        # direct oracle: the clauses of C19_dedupe_keeps_first, plus order
        kept = [recs[t] for t in out]
        knodes = [r[1] for r in kept if r[1] is not None]
        kmods = [r[3] for r in kept if r[2] == 'module' and r[3] is not None]
        ok = (len(set(knodes)) == len(knodes) and len(set(kmods)) == len(kmods) and out == sorted(set(out)) and
              all(r[0] in out or (r[1] is not None and r[1] in knodes) or (r[2] == 'module' and r[3] is not None and r[3] in kmods)
                  for r in recs))
        ctx.count('dedupe', tuple(recs), nontrivial=len(out) < len(recs))
        cases.append('(%s, %s)' % (
            g_list(recs, lambda r: '{| d_node := %s; d_is_module := %s; d_mpath := %s; d_tag := %s |}' % (
                g_opt(r[1], g_N), g_bool(r[2] == 'module'), g_opt(None if r[3] is None else paths[r[3]], g_str), g_N(r[0])), 'defn'),
            g_list(out, g_N, 'N')))
        metas.append(dict(defs=recs, kept=out, oracle_ok=ok))
    fn = "(fun c => ns_eqb (map d_tag (dedupe (fst c))) (snd c))"
    fails, err = yield (fn, cases, 1500, DEFS)
    if err:
        raise RuntimeError('coq evaluation failed (dedupe): ' + err)
    for m in [m for m in metas if not m['oracle_ok']][:3]:
        ctx.violation('obligation', dict(what='_try_to_skip_duplicates: a tree name / module path is reported twice, or a definition that is '
                                              'no duplicate is dropped (stub definitions: (tag, node, type, path))', input=m), nofail=True)
    for i in fails[:5]:
        if metas[i]['oracle_ok']:
            ctx.violation('obligation', dict(what='correspondence dedupe: model and _try_to_skip_duplicates differ', input=metas[i]),
                          nofail=True)
    ctx.stat('dedupe', dict(cases=len(cases), dropped=n_dropped))


class _StubMod:
    def __init__(self, i):
        self.i = i


ENUM_DEF = """
Fixpoint enum_from (i : N) (l : list bool) : list (N * bool) :=
  match l with [] => [] | b :: r => (i, b) :: enum_from (N.succ i) r end.
"""


def stream_limits(ctx):
    from jedi.inference import references
    rng = ctx.rng
    lists = [[], [True] * 29, [True] * 30, [True] * 31, [True] * 45, [False] * 50 + [True] * 31,
             [False] * 1999 + [True], [False] * 2000 + [True], [False] * 1999 + [True, True],
             [True] * 29 + [False] * 1970 + [True, True], [True] * 10 + [False] * 2100]
    for _ in range(ctx.n(120, 1000)):
        n = rng.randint(0, 90)
        dens = rng.choice([0.1, 0.4, 0.7, 1.0])
        lists.append([rng.random() < dens for _ in range(n)])
    for _ in range(ctx.n(4, 20)):
        n = rng.randint(1985, 2030)
        lists.append([rng.random() < 0.012 for _ in range(n)])
    orig = references._check_fs
    cases, metas = [], []
    try:
        references._check_fs = lambda inference_state, file_io, regex: (_StubMod(file_io[0]) if file_io[1] else None)
        for flags in lists:
            try:
                out = [m.i for m in references.search_in_file_ios(None, iter(list(enumerate(flags))), 'zq_name')]
            except Exception as e:
                ctx.deviation(dict(stream='limits', exc=type(e).__name__), dict(n=len(flags)), 'search_in_file_ios raised %r' % (e,))
                continue
            idx = [i for i, f in enumerate(flags) if f]
            # direct oracle: within the documented limits nothing is lost
            within = len(flags) <= 2000 and len(idx) <= 30
            ok = (out == idx) if within else (out == idx[:len(out)] and len(out) <= 30)
            ctx.count('limits', tuple(flags), nontrivial=bool(idx))
            cases.append('(%s, %s)' % (g_list(flags, g_bool, 'bool'), g_list(out, g_N, 'N')))
            metas.append(dict(n_files=len(flags), n_matching=len(idx), yielded=out, within_limits=within, oracle_ok=ok,
                              matching_first=idx[:40]))
    finally:
        references._check_fs = orig
    fn = "(fun c => ns_eqb (map fst (search_in_file_ios snd (enum_from 0 (fst c)))) (snd c))"
    fails, err = yield (fn, cases, 70, DEFS + ENUM_DEF)
    if err:
        raise RuntimeError('coq evaluation failed (limits): ' + err)
    for m in [m for m in metas if not m['oracle_ok']][:3]:
        if m['within_limits']:
            ctx.deviation(dict(stream='limits', cls='file-lost-within-documented-limits'), m,
                          '%d files, %d contain the word (within the limits 2000 / 30) but only %d are searched' % (
                              m['n_files'], m['n_matching'], len(m['yielded'])))
        else:
            ctx.violation('obligation', dict(what='search_in_file_ios beyond the limits: yields more than 30 modules or not a prefix of '
                                                  'the matching files', input=m), nofail=True)
    for i in fails[:5]:
        if metas[i]['oracle_ok']:
            ctx.violation('obligation', dict(what='correspondence scan: model (30 parsed / 2000 opened) and search_in_file_ios differ',
                                             input=metas[i]), nofail=True)
    ctx.stat('limits', dict(cases=len(cases), beyond_limits=sum(1 for m in metas if not m['within_limits'])))


# ----------------------------------------------------------------------------
# python sources with known definitions

IDENTS = ['zq_alpha', 'zq_al', 'zq_beta', 'Zq_alpha', 'zq_gamma', 'ZqCls', 'zqcls', 'ZqOther', 'zq_fn', 'zq_fn2', 'zq_x1', 'zq_delta']


class Src:
    def __init__(self):
        self.lines = []
        self.defs = []     # (name, type, line, col, top_level)

    def add(self, text, *defs):
        """defs: (name, type, top_level); the column is found in the line"""
        self.lines.append(text)
        ln = len(self.lines)
        pos = 0
        for name, ty, top in defs:
            m = re.compile(r'(?<![A-Za-z0-9_])%s(?![A-Za-z0-9_])' % re.escape(name)).search(text, pos)
            pos = m.end()
            self.defs.append((name, ty, ln, m.start(), top))

    def text(self):
        return '\n'.join(self.lines) + '\n'


def gen_source(rng, idents=IDENTS, extra=False):
    s = Src()

    def pick():
        return rng.choice(idents)
    for _ in range(rng.randint(1, 5)):
        k = rng.randint(0, 8 if extra else 6)
        if k == 0:
            n = pick()
            s.add('%s = %d' % (n, rng.randint(0, 9)), (n, 'statement', True))
        elif k == 1:
            f, p, l = pick(), pick(), pick()
            if p == l:
                l = l + '_l'
            s.add('def %s(%s, zq_dflt=1):' % (f, p), (f, 'function', True), (p, 'param', False), ('zq_dflt', 'param', False))
            s.add('    %s = 2' % l, (l, 'statement', False))
            if rng.random() < 0.4:
                g = pick()
                s.add('    def %s():' % g, (g, 'function', False))
                s.add('        pass')
            s.add('    return %s' % l)
        elif k == 2:
            c, a, m, sa = pick(), pick(), pick(), pick()
            s.add('class %s:' % c, (c, 'class', True))
            s.add('    %s = 3' % a, (a, 'statement', False))
            if rng.random() < 0.3:
                m = '__init__'
            s.add('    def %s(self):' % m, (m, 'function', False), ('self', 'param', False))
            s.add('        self.%s = 4' % sa, (sa, 'statement', False))
        elif k == 3:
            n = pick()
            s.add('for %s in [1, 2]:' % n, (n, 'statement', True))
            s.add('    pass')
        elif k == 4:
            n = pick()
            s.add('if 1:')
            s.add('    %s = 5' % n, (n, 'statement', True))
        elif k == 5:
            s.add('# %s is only mentioned here' % pick())
        elif k == 6:
            n = pick()
            s.add("%s_s = '%s'" % (n, pick()), (n + '_s', 'statement', True))
        elif k == 7:
            a, b = pick(), pick()
            if a == b:
                b = b + '_t'
            s.add('%s, %s = 1, 2' % (a, b), (a, 'statement', True), (b, 'statement', True))
        else:
            f, l = pick(), pick()
            s.add('def %s(*zq_args, **zq_kw):' % f, (f, 'function', True), ('zq_args', 'param', False), ('zq_kw', 'param', False))
            s.add('    for %s in [1]:' % l, (l, 'statement', False))
            s.add('        %s_w = %s' % (l, l), (l + '_w', 'statement', False))
            s.add('    return 1')
    return s


# ----------------------------------------------------------------------------
# Script.search on a buffer

def _script_task(task):
    code, queries = task
    import jedi
    out = dict(names={}, results=[])
    if not jedi.settings.cache_directory.endswith('_%d' % os.getpid()):
        jedi.settings.cache_directory = jedi.settings.cache_directory + '_%d' % os.getpid()
    try:
        sc = jedi.Script(code)
        for sc_all in (False, True):
            out['names'][sc_all] = [(n.line, n.column, n.name, n.type) for n in sc.get_names(all_scopes=sc_all)]
        for (q, sc_all, complete) in queries:
            f = sc.complete_search if complete else sc.search
            out['results'].append([(n.line, n.column, n.name, n.type) for n in f(q, all_scopes=sc_all)])
        out['ok'] = True
    except Exception as e:
        out['ok'] = False
        out['sig'] = common.exc_sig(e)
    return out


def stream_script(ctx):
    rng = ctx.rng
    tasks, srcs = [], []
    for _ in range(ctx.n(60, 600)):
        s = gen_source(rng, extra=True)
        names = sorted({d[0] for d in s.defs}) or ['zq_none']
        queries = []
        for _ in range(10):
            n = rng.choice(names)
            w = rng.choice([n, n, n.lower(), n.upper(), n[:rng.randint(1, len(n))], n + 'x', 'zq_', ''])
            ty = rng.choice(['', '', '', 'class ', 'def ', 'function ', 'statement ', 'param ', ' ', 'class  ', 'Class ', 'module '])
            q = ty + w + rng.choice(['', '', '', '', ' '])
            queries.append((q, rng.random() < 0.5, rng.random() < 0.4))
        tasks.append((s.text(), queries))
        srcs.append(s)
    results = common.pmap(_script_task, tasks, chunksize=2)
    cases, metas = [], []
    nonempty = nq = 0
    for (code, queries), s, r in zip(tasks, srcs, results):
        if not r['ok']:
            ctx.deviation(dict(stream='script', exc=r['sig']['exc'], site=r['sig']['site']), dict(source=code, error=r['sig']),
                          'Script.search / get_names raised %s' % r['sig']['exc'])
            continue
        # the generator's own knowledge of the definitions vs get_names (independent of search)
        for sc_all in (False, True):
            exp = sorted((ln, col, n, ty) for (n, ty, ln, col, top) in s.defs if top or sc_all)
            got = sorted(tuple(x) for x in r['names'][sc_all])
            if exp != got:
                ctx.violation('obligation', dict(what='get_names(all_scopes=%s) differs from the definitions the generator wrote' % sc_all,
                                                 source=code, expected=exp, got=got), nofail=True)
        per = {False: [], True: []}
        for (q, sc_all, complete), obs in zip(queries, r['results']):
            obs = [tuple(x) for x in obs]
            names = [tuple(x) for x in r['names'][sc_all]]
            ty, _, w = q.rpartition(' ')
            ty = 'function' if ty == 'def' else ty
            if '.' in w:
                continue
            flt = [n for n in names
                   if (n[2].lower().startswith(w.lower()) if complete else n[2].lower() == w.lower()) and (not ty or n[3] == ty)]
            nonempty += bool(obs)
            nq += 1
            ctx.count('script', (code, q, sc_all, complete), nontrivial=bool(obs))
            meta = dict(source=code, query=q, all_scopes=sc_all, complete=complete, observed=obs, filtered_get_names=flt)
            if obs != flt:
                ctx.deviation(dict(stream='script', cls='search-differs-from-filtered-get_names'), meta,
                              'Script.%s(%r, all_scopes=%s) = %r but filtering get_names gives %r' % (
                                  'complete_search' if complete else 'search', q, sc_all, obs, flt))
                continue
            per[sc_all].append((complete, q, [names.index(o) for o in obs], meta))
        for sc_all in (False, True):
            if not per[sc_all]:
                continue
            names = [tuple(x) for x in r['names'][sc_all]]
            cases.append('(%s, %s)' % (
                g_list(list(enumerate(names)),
                       lambda t: '{| n_name := %s; n_type := %s; n_id := %s |}' % (g_str(t[1][2]), g_str(t[1][3]), g_N(t[0])), 'sname'),
                g_list(per[sc_all], lambda t: '(%s, %s, %s)' % (g_bool(t[0]), g_str(t[1]), g_list(t[2], g_N, 'N')), 'bool * str * list N')))
            metas.append([t[3] for t in per[sc_all]])
    fn = ("(fun c => forallb (fun x => let '(cpl, q, ids) := x in match script_search cpl q (fst c) with "
          "Some r => ns_eqb (map n_id r) ids | None => false end) (snd c))")
    fails, err = yield (fn, cases, 40, DEFS)
    if err:
        raise RuntimeError('coq evaluation failed (script): ' + err)
    for i in fails[:5]:
        ctx.violation('obligation', dict(what='correspondence script_search: model and Script.search differ on one of these queries (the '
                                              'get_names filter oracle agreed with the implementation)', input=metas[i]), nofail=True)
    ctx.stat('script', dict(queries=nq, nonempty=nonempty, coq_cases=len(cases)))
    if metas:
        ctx.sample(dict(stream='script', source=metas[0][0]['source'][:300],
                        **{k: metas[0][0][k] for k in ('query', 'all_scopes', 'complete', 'observed')}))


# ----------------------------------------------------------------------------
# Project.search / complete_search on generated trees

S_DIRS = ['a', 'ab', 'zq_pkg', 'zq_sub', 'zq_igd', 'zq_ns', 'venv', '.venv', '__pycache__', '.tox', '.mypy_cache', 'build', 'zq_pk']
S_FILES = ['zq_mod.py', 'zq_util.py', '__init__.py', 'zq_gen.py', 'zq_st.pyi', 'zq_mod.pyi', 'zq_m2.py', 'notes.txt', 'zq_data.pyc',
           'zq_al.py']


def gen_search_tree(rng):
    global DIR_NAMES, FILE_NAMES
    save = DIR_NAMES, FILE_NAMES
    DIR_NAMES, FILE_NAMES = S_DIRS, S_FILES
    srcs = {}

    def content(rng_, comps, name):
        s = gen_source(rng_)
        srcs[tuple(comps + [name])] = s
        return s.text()
    try:
        root = gen_tree(rng, max_files=26, py_content=content)
    finally:
        DIR_NAMES, FILE_NAMES = save
    for d in root.all_dirs():          # e.g. the m.py inside a folder called .gitignore
        for n in list(d.files):
            key = tuple(d.comps + [n])
            if n.endswith(('.py', '.pyi')) and key not in srcs:
                s = gen_source(rng)
                srcs[key] = s
                d.files[n] = s.text()
    return root, srcs


def _search_task(task):
    j, path, queries = task
    import jedi
    jedi.settings.cache_directory = os.path.join(os.path.dirname(path), 'cache_%d' % os.getpid())
    write_tree(tree_from_json(j), path)
    try:
        return _search_queries(jedi, path, queries)
    finally:
        shutil.rmtree(path, ignore_errors=True)


def _search_queries(jedi, path, queries):
    res = []
    try:
        project = jedi.Project(path)
    except Exception as e:
        return [dict(ok=False, sig=common.exc_sig(e))] * len(queries)
    for (q, sc_all, complete) in queries:
        try:
            f = project.complete_search if complete else project.search
            hits = []
            for d in f(q, all_scopes=sc_all):
                mp = d.module_path
                if mp is None:
                    rel = None
                else:
                    mp = str(mp)
                    rel = mp[len(path) + 1:] if mp.startswith(path + os.sep) else 'EXT:' + os.path.basename(mp)
                hits.append((rel, d.line, d.column, d.name, d.type))
            res.append(dict(ok=True, hits=hits))
        except Exception as e:
            res.append(dict(ok=False, sig=common.exc_sig(e)))
    return res


INITS = ('__init__.py', '__init__.pyi')


def check_search(ctx, root, srcs, exp, q, sc_all, complete, hits, tree_meta):
    """The property's clauses on one query.  Returns True when nothing is wrong."""
    ty, _, w = q.rpartition(' ')
    ty = 'function' if ty == 'def' else ty
    comps = w.split('.')
    first, last = comps[0], comps[-1]
    dotted = len(comps) > 1
    hitset = {}
    for h in hits:
        hitset[h] = hitset.get(h, 0) + 1
    inproj = [h for h in hits if h[0] is not None and not h[0].startswith('EXT:')]
    meta = dict(query=q, all_scopes=sc_all, complete=complete, hits=hits, **tree_meta)
    fname = 'complete_search' if complete else 'search'
    ok = True

    def dev(cls, data, what):
        """record; True when it is a new violation (stop looking at this query)"""
        return ctx.deviation(dict(stream='search', cls=cls), dict(data, **meta), what) != 'known'

    def name_ok(n, target, exact_case):
        if exact_case:
            return n.startswith(target) if complete else n == target
        return n.lower().startswith(target.lower()) if complete else n.lower() == target.lower()

    def is_hidden_file(rel):
        return tuple(rel.split('/')) in exp['hid_f']

    def root_leak(h):
        """the known sys.path step: a hidden module / package directly in the project root whose
        name matches the first component of the query"""
        rel = h[0].split('/')
        if len(rel) == 1:
            stem = rel[0].rsplit('.', 1)[0]
        elif len(rel) == 2 and rel[1] in INITS:
            stem = rel[0]
        else:
            return False
        if dotted:
            return stem == first
        return name_ok(stem, first, False) and h[3] == stem and h[4] == 'module'

    def visible_package(h):
        """the package of a visible folder, reported with the path of its __init__ file (which a
        .gitignore may name): the folder is what is reported"""
        rel = h[0].split('/')
        return h[4] == 'module' and len(rel) >= 2 and rel[-1] in INITS and tuple(rel[:-1]) in exp['vis_d'] and h[3] == rel[-2]

    def twin_visible(h):
        """module hit whose file is hidden but whose .py/.pyi twin is visible: jedi found the visible
        file and converted between stub and implementation; it is the module of that name"""
        twin = h[0][:-1] if h[0].endswith('.pyi') else h[0] + 'i'
        return h[4] == 'module' and tuple(twin.split('/')) in exp['vis_f']

    # 1. nothing from ignored places
    seen_cls = set()
    for h in inproj:
        if is_hidden_file(h[0]) and not twin_visible(h) and not visible_package(h):
            ok = False
            cls = 'hidden-root-module-via-sys-path' if root_leak(h) else 'hit-from-ignored-place'
            if cls in seen_cls:
                continue
            seen_cls.add(cls)
            if dev(cls, dict(hit=h), 'Project.%s(%r) reports %r from the ignored file %s' % (fname, q, h[3], h[0])):
                return False
    if dotted:
        return ok
    # 2. every definition spelled that way in every visible python file
    allowed = set()
    for key in exp['vis_f']:
        rel = '/'.join(key)
        for (n, t, ln, col, top) in srcs[key].defs:
            if not (top or sc_all) or (ty and t != ty):
                continue
            if name_ok(n, last, False):
                allowed.add((rel, ln, col, n, t))
            if name_ok(n, last, True) and (rel, ln, col, n, t) not in hitset:
                if dev('definition-not-found', dict(missing=(rel, ln, col, n, t)),
                              'Project.%s(%r, all_scopes=%s) misses the %s %s defined in %s line %d' % (fname, q, sc_all, t, n, rel, ln)):
                    return False
                ok = False
    # 3. every module / package so named
    if ty in ('', 'module', 'namespace'):
        for key in exp['vis_f']:
            stem = key[-1].rsplit('.', 1)[0]
            if stem == '__init__':
                continue
            rel = '/'.join(key)
            twin = rel[:-1] if rel.endswith('.pyi') else rel + 'i'
            if name_ok(stem, last, False):
                allowed.add((rel, 1, 0, stem, 'module'))
                allowed.add((twin, 1, 0, stem, 'module'))
            if name_ok(stem, last, True) and ty in ('', 'module'):
                if not any(h[0] in (rel, twin) and h[3] == stem and h[4] == 'module' for h in hits):
                    # complete_search completes module names only through the sys.path step (project root)
                    cls = 'nested-module-name-not-completed' if (complete and stem != last and len(key) > 1) else 'module-not-found'
                    if dev(cls, dict(missing=rel),
                                  'Project.%s(%r) does not report the module %s' % (fname, q, rel)):
                        return False
                    ok = False
        n_ns_visible = 0
        for key in exp['vis_d']:
            node = root
            for c in key:
                node = node.subs[c]
            inits = [f for f in INITS if f in node.files]
            rel = '/'.join(key)
            if name_ok(key[-1], last, False):
                for f in INITS:
                    allowed.add((rel + '/' + f, 1, 0, key[-1], 'module'))
            if not name_ok(key[-1], last, True) or not key[-1].isidentifier():
                continue     # a folder like `zq_igd.x` is no package: it cannot be imported or named in a search string
            if inits:
                if ty in ('', 'module') and not any(h[0] in {rel + '/' + f for f in inits} and h[3] == key[-1] and h[4] == 'module'
                                                    for h in hits):
                    cls = 'nested-module-name-not-completed' if (complete and key[-1] != last and len(key) > 1) else 'package-not-found'
                    if dev(cls, dict(missing=rel),
                                  'Project.%s(%r) does not report the package %s' % (fname, q, rel)):
                        return False
                    ok = False
            else:
                n_ns_visible += 1
        if not complete and last.startswith('zq'):
            pathless = [h for h in hits if h[0] is None and h[4] in ('module', 'namespace') and h[3] == last]
            if ty in ('', 'namespace') and len([h for h in pathless if h[4] == 'namespace']) < n_ns_visible:
                if dev('namespace-package-not-found', dict(visible_folders=n_ns_visible),
                              'Project.search(%r): %d visible folders of that name without __init__, fewer namespace hits' % (q, n_ns_visible)):
                    return False
                ok = False
            # the sys.path step lists the root folder once more; a pathless module hit for a *hidden*
            # root folder is the known leak, anything beyond that is not explained
            root_vis_ns = (last,) in exp['vis_d'] and not any(f in root.subs[last].files for f in INITS)
            root_hid_ns = (last,) in exp['hid_d'] and not any(f in root.subs[last].files for f in INITS)
            extra = len(pathless) - n_ns_visible - (1 if root_vis_ns else 0) - (1 if last + '.pyc' in root.files else 0)
            if ty == '' and extra > 0:
                cls = 'hidden-root-module-via-sys-path' if (root_hid_ns and extra == 1) else 'hit-from-ignored-place'
                if dev(cls, dict(pathless_hits=pathless),
                              'Project.search(%r) reports a folder of that name although only %d visible folders have it' % (q, n_ns_visible)):
                    return False
                ok = False
    # 4. nothing else from inside the project (wrong name, wrong type, wrong scope, a reference, a duplicate)
    for h in inproj:
        if is_hidden_file(h[0]):
            continue
        if h not in allowed and not (complete and h[4] == 'module' and h[0].endswith('.pyc')):
            ctx.violation('obligation', dict(what='Project.search reports something in the project that is not a definition / module of '
                                                  'that name, type and scope', hit=h, **meta), nofail=True)
            return False
        if hitset[h] > 1:
            ctx.violation('obligation', dict(what='Project.search reports the same definition twice (de-duplication)', hit=h, **meta),
                          nofail=True)
            return False
    return ok


def stream_search(ctx):
    rng = ctx.rng
    tasks, infos = [], []
    stats = dict(trees=0, queries=0, hits=0, hidden_files=0, visible_files=0)
    for it in range(ctx.n(48, 500)):
        root, srcs = gen_search_tree(rng)
        path = os.path.join(ctx.tmp, 's%d' % it)
        vis_f, vis_d, hid_f, hid_d = oracle_visible(root)
        exp = dict(vis_f=vis_f, vis_d=vis_d, hid_f=hid_f, hid_d=hid_d)
        names = sorted({d[0] for s in srcs.values() for d in s.defs if d[0].startswith(('zq', 'Zq'))})
        stems = sorted({k[-1].rsplit('.', 1)[0] for k in srcs if not k[-1].startswith('__init__')})
        dirs = sorted({d.comps[-1] for d in root.all_dirs() if d.comps})
        queries = []
        for n in rng.sample(names, min(len(names), 7)):
            queries.append((n, False, False))
            queries.append((n, True, False))
            queries.append((n[:rng.randint(3, len(n))], rng.random() < 0.5, True))
            if rng.random() < 0.5:
                queries.append((rng.choice(['class ', 'def ', 'function ', 'statement ', 'param ']) + n, rng.random() < 0.6,
                                rng.random() < 0.3))
        for n in stems + [d for d in dirs if d.startswith('zq')]:
            queries.append((n, False, False))
            if rng.random() < 0.3:
                queries.append((n[:4], False, True))
        for n in rng.sample(['venv', 'build', 'a', 'ab', 'zq_', 'Zq', 'zq_nothing', '__init__', '__init__'], 3):
            queries.append((n, n == '__init__' or rng.random() < 0.5, n in ('zq_', 'Zq')))
        for key in sorted(srcs):
            # dotted: module.attribute for a module in the project root whose name is not also an identifier
            # (inferring a function of that name needs typeshed, DESIGN §E)
            if len(key) == 1 and key[0].endswith('.py') and key[0][:-3] not in IDENTS and key[0] != '__init__.py' \
                    and srcs[key].defs and rng.random() < 0.5:
                queries.append((key[0][:-3] + '.' + rng.choice([d for d in srcs[key].defs if d[4]] or srcs[key].defs)[0], False, False))
        tasks.append((tree_json(root), path, queries))
        infos.append((root, srcs, exp))
        stats['trees'] += 1
        stats['hidden_files'] += len(hid_f)
        stats['visible_files'] += len(vis_f)
    results = common.pmap(_search_task, tasks, chunksize=1)
    for (j, path, queries), (root, srcs, exp), res in zip(tasks, infos, results):
        tree_meta = dict(tree=j)
        tkey = json.dumps(j, sort_keys=True)
        for (q, sc_all, complete), r in zip(queries, res):
            stats['queries'] += 1
            if not r['ok']:
                ctx.deviation(dict(stream='search', exc=r['sig']['exc'], site=r['sig']['site']),
                              dict(query=q, all_scopes=sc_all, complete=complete, error=r['sig'], **tree_meta),
                              'Project.search raised %s' % r['sig']['exc'])
                continue
            hits = [tuple(h) for h in r['hits']]
            stats['hits'] += len(hits)
            ctx.count('search', (tkey, q, sc_all, complete), nontrivial=bool(hits))
            check_search(ctx, root, srcs, exp, q, sc_all, complete, hits, tree_meta)
    ctx.stat('search', stats)
    if tasks and results[0] and results[0][0].get('ok'):
        ctx.sample(dict(stream='search', query=tasks[0][2][0], hits=results[0][0]['hits'][:6]))
    return
    yield   # (a generator like the other streams; no Coq job)


STREAMS = [stream_walk, stream_script, stream_search, stream_gitignore, stream_expand, stream_split, stream_dedupe, stream_limits]


def drive(ctx, streams):
    """Phase 1: every stream generates its inputs and runs the implementation (sequential, seeded);
    phase 2: all Coq evaluations concurrently; phase 3: every stream looks at its disagreements."""
    from concurrent.futures import ThreadPoolExecutor
    pending = []
    for f in streams:
        t = time.time()
        g = f(ctx)
        try:
            job = next(g)
        except StopIteration:
            job = None
        ctx.stat('wall_' + f.__name__, round(time.time() - t, 1))
        if job is not None:
            pending.append((f, g, job))
    t = time.time()

    def ev(p):
        fn, cases, shard, defs = p[2]
        t0 = time.time()
        r = common.coq_failing(IMPORTS, fn, cases, shard=shard, defs=defs, timeout=2400)
        ctx.stat('wall_coq_' + p[0].__name__, round(time.time() - t0, 1))
        return r
    with ThreadPoolExecutor(max_workers=max(1, len(pending))) as ex:
        outs = list(ex.map(ev, pending))
    ctx.stat('wall_coq_all_streams', round(time.time() - t, 1))
    for (f, g, job), out in zip(pending, outs):
        try:
            g.send(out)
        except StopIteration:
            pass
        else:
            raise RuntimeError('stream %s yielded twice' % f.__name__)


def run(ctx):
    common.setup_jedi(os.path.join(ctx.tmp, 'cache'))
    ctx.proofs()
    ctx.cov['fingerprints'] = common.fingerprint(FP)
    ctx.cov['rule'] = ('gitignore/expand/split/dedupe/limits: fixed edge cases + seeded random inputs to the anchored helper, model '
                       'evaluated by vm_compute; walk: seeded project trees on disk (<=30 files, depth<=4, .gitignore at several levels, '
                       'absolute/relative/file entries, comment/negation/wildcard/blank lines, prefix-sibling folders), ordered output vs '
                       'model + set oracle; script: seeded buffers x search strings; search: seeded trees x every sampled '
                       'identifier/module/folder x {search, complete_search} x all_scopes; non-trivial = something is ignored (walk) / '
                       'non-empty result (others); distinct by input')
    ctx.assumptions += [
        'the project root string does not end in "/" and is normalised (Project passes str(Path)); names in a listing contain no "/" (wf_tree)',
        'listing order is what os.scandir returns; the harness reads it back and hands it to the model',
        'no symlinks, no unreadable folders, .gitignore files are valid UTF-8',
        'Script.search: undotted search strings, ASCII identifiers (model lower-cases A-Z only); dotted searches and stub conversion are oracle-only',
        'which names get_names returns is parso/jedi behaviour: checked against the generator\'s own list of definitions, not modelled',
    ]
    # the forking streams first (no threads yet), the Coq evaluations of all streams together at the end
    drive(ctx, STREAMS)


def replay(ctx, path):
    rec = json.load(open(path))
    print(json.dumps({k: v for k, v in rec.items() if k != 'tree'}, indent=1, ensure_ascii=False)[:3000])
    common.setup_jedi(os.path.join(ctx.tmp, 'cache'))
    if 'tree' in rec:
        root = tree_from_json(rec['tree'])
        p = os.path.join(ctx.tmp, 'replay')
        write_tree(root, p)
        read_order(root, p)
        obs = [(d, canon(x, p)) for d, x in real_walk(p)]
        print('implementation walk now:', obs)
        vis_f, vis_d, hid_f, hid_d = oracle_visible(root)
        print('oracle visible files:', sorted('/'.join(k) for k in vis_f))
        print('oracle hidden files :', sorted('/'.join(k) for k in hid_f))
        print('model:', common.coq_show(IMPORTS, ['walk %s %s' % (g_str(FAKE_ROOT), g_tree(root))])[-2000:])
        if 'query' in rec:
            import jedi
            r = _search_queries(jedi, p, [(rec['query'], rec.get('all_scopes', False), rec.get('complete', False))])
            print('implementation search now:', r)
    elif 'source' in rec and 'query' in rec:
        print('implementation now:', _script_task((rec['source'], [(rec['query'], rec.get('all_scopes', False), rec.get('complete', False))])))
    return 0
