"""C07 — refactoring results are self-consistent and touch nothing until applied.

Streams (every one goes through the public API Script.rename / inline /
extract_variable / extract_function on files in scratch directories):
  exc        exception contract: only RefactoringError, or ValueError for an out-of-range position
  inspect    nothing on disk changes while the Refactoring is constructed and inspected
  diff       get_diff() parsed (strict parser) into rename lines, file headers and hunks;
             header names vs get_changed_files()/get_renames(); every hunk list is applied by
             the VERIFIED applier in Coq (diff_ok) to preamble(old) and must give preamble(new)
  refactor   real parso tree + captured node_to_str_map serialised into the model's tree type;
             Coq: refactor t m = get_new_code()  and the number of replaced pieces
  outside    text outside the rewritten nodes preserved byte for byte (decomposition computed
             from the captured keys on the real tree), rename = exact splice of the name tokens,
             prefixes (comments, blank lines) of rewritten nodes re-emitted
  apply      directory snapshot after apply() = announced contents under announced names
             (also evaluated by the FS model apply_fs in Coq)
  paths      calc_to_path / calculate_rename vs the observed to_path / get_renames()
"""
import json
import os
import re
import shutil
import sys
import time

import common
from common import g_str, g_bool, g_list, g_opt, g_nat, g_N

IMPORTS = 'From JV Require Import Base.Str Model.C07_Refactor.\n'

FP = [('jedi/api/refactoring/__init__.py', 'ChangedFile.get_diff'),
      ('jedi/api/refactoring/__init__.py', 'ChangedFile.get_new_code'),
      ('jedi/api/refactoring/__init__.py', 'ChangedFile.apply'),
      ('jedi/api/refactoring/__init__.py', 'Refactoring.get_changed_files'),
      ('jedi/api/refactoring/__init__.py', 'Refactoring.get_renames'),
      ('jedi/api/refactoring/__init__.py', 'Refactoring.get_diff'),
      ('jedi/api/refactoring/__init__.py', 'Refactoring.apply'),
      ('jedi/api/refactoring/__init__.py', '_calculate_rename'),
      ('jedi/api/refactoring/__init__.py', 'rename'),
      ('jedi/api/refactoring/__init__.py', 'inline'),
      ('jedi/api/refactoring/__init__.py', '_remove_indent_of_prefix'),
      ('jedi/api/refactoring/extract.py', 'extract_variable'),
      ('jedi/api/refactoring/extract.py', 'extract_function'),
      ('jedi/api/refactoring/extract.py', '_replace'),
      ('jedi/api/refactoring/extract.py', '_find_nodes'),
      ('jedi/api/__init__.py', 'Script.rename'),
      ('jedi/api/__init__.py', 'Script.inline'),
      ('jedi/api/__init__.py', 'Script.extract_variable'),
      ('jedi/api/__init__.py', 'Script.extract_function'),
      ('jedi/api/helpers.py', 'validate_line_column')]


# =============================================================================
# text helpers (harness-side, independent of parso/difflib)

_LINE_RE = re.compile(r'[^\r\n]*(?:\r\n|\n|\r)|[^\r\n]+\Z')


def split_keepends(s):
    """Lines ending after \\r\\n, \\n or a lone \\r; the last element is the
    unterminated rest (possibly '').  Nothing else (form feed, NEL, LS...) splits."""
    out = _LINE_RE.findall(s)
    if s == '' or s[-1] in '\r\n':
        out.append('')
    return out


def norm_lines(code):
    ls = split_keepends(code)
    if ls[-1] != '':
        ls[-1] += '\n'
    return ls


# =============================================================================
# program generator (builtin-light: user functions/classes, int/str literals, arithmetic)

ASCII_IDS = ['foo', 'bar', 'baz', 'qux', 'val', 'tmp', 'acc', 'item', 'cnt', 'x1', '_p', 'data', 'res2']
UNI_IDS = ['é', 'ñu', '变量', 'naïve', 'größe', 'μ', 'данные']
NEW_NAMES = ['renamed', 'nn', 'new_name', 'z9', 'été', '新', '_q', 'Extr', 'helper_fn', 'v']


class Gen:
    def __init__(self, rng, unicode_ids, multi):
        self.rng = rng
        self.ids = list(ASCII_IDS) + (UNI_IDS if unicode_ids else [])
        self.multi = multi
        self.lines = []
        self.funcs = []     # (name, nparams)
        self.classes = []   # (name, [methods (name, nparams)], [attrs])
        self.insts = []     # (var, classindex)
        self.used = set()

    def fresh(self):
        for _ in range(50):
            n = self.rng.choice(self.ids)
            if n not in self.used:
                self.used.add(n)
                return n
        n = 'g%d' % len(self.used)
        self.used.add(n)
        return n

    def atom(self, scope):
        r = self.rng.random()
        if scope and r < 0.55:
            return self.rng.choice(scope)
        if r < 0.8:
            return str(self.rng.randint(0, 99))
        if r < 0.9:
            return self.rng.choice(["'s'", '"t x"', "'é'", "'a#b'"])
        return '(%s, %s)[0]' % (self.rng.randint(0, 9), self.rng.randint(0, 9))

    def expr(self, scope, depth=0):
        rng = self.rng
        r = rng.random()
        if depth >= 3 or r < 0.28:
            return self.atom(scope)
        if r < 0.58:
            op = rng.choice([' + ', ' - ', ' * ', ' // ', ' % ', '+', '*', '  +  ', ' ** '])
            return self.expr(scope, depth + 1) + op + self.expr(scope, depth + 1)
        if r < 0.66:
            return '(' + self.expr(scope, depth + 1) + ')'
        par = (lambda x: '(' + x + ')') if depth > 0 else (lambda x: x)
        if r < 0.72:
            return par('%s if %s else %s' % (self.expr(scope, depth + 1), self.expr(scope, depth + 1),
                                             self.expr(scope, depth + 1)))
        if r < 0.78:
            op = rng.choice([' and ', ' or ', ' and ', ' or ', ' in ', ' not in '])
            return par(self.atom(scope) + op + self.expr(scope, depth + 1))
        if r < 0.81:
            return par(self.atom(scope) + ' or ' + self.atom(scope))
        if r < 0.84:
            return '-' + self.atom(scope)
        if r < 0.92 and self.funcs:
            f, n = rng.choice(self.funcs)
            return '%s(%s)' % (f, ', '.join(self.expr(scope, depth + 1) for _ in range(n)))
        if r < 0.96 and self.insts:
            v, ci = rng.choice(self.insts)
            _, methods, attrs = self.classes[ci]
            if methods and rng.random() < 0.6:
                m, n = rng.choice(methods)
                return '%s.%s(%s)' % (v, m, ', '.join(self.expr(scope, depth + 1) for _ in range(n)))
            if attrs:
                return '%s.%s' % (v, rng.choice(attrs))
        if r < 0.98:
            return '(%s, %s)[1]' % (self.atom(scope), self.atom(scope))
        # (no lambdas inside arithmetic: operators on a function value hit crash class K3)
        return self.atom(scope) + ' ^ ' + self.atom(scope)

    def multiline_expr(self, scope, ind):
        a, b, c = self.expr(scope, 2), self.expr(scope, 2), self.expr(scope, 2)
        k = self.rng.randint(0, 2)
        if k == 0:
            return ['(%s +  # why' % a, ind + '        %s)' % b]
        if k == 1:
            return ['%s + \\' % a, ind + '    %s' % b]
        # (subscripted: a tuple VALUE used in later arithmetic hits crash class K1)
        return ['(', ind + '    # lead', ind + '    %s,' % a, '', ind + '    %s, %s)[1]' % (b, c)]

    def noise(self, ind):
        """comment / blank / form-feed lines"""
        r = self.rng.random()
        if r < 0.12:
            return [ind + '# note ' + self.rng.choice(['a', 'é', 'x = 1', '#!', 'foo'])]
        if r < 0.2:
            return ['']
        if r < 0.23:
            return ['\x0c']
        if r < 0.25:
            return ['    ']
        return []

    def body(self, scope, ind, depth, in_func):
        rng = self.rng
        scope = list(scope)
        out = []
        n = rng.randint(1, 4) if depth else rng.randint(2, 5)
        for i in range(n):
            out += self.noise(ind)
            r = rng.random()
            trailing = rng.choice(['', '', '', '  # c', ' #c é', '   '])
            plain = [x for x in scope if x.isidentifier()]
            if r < 0.5 or not plain:
                v = self.fresh() if rng.random() < 0.75 or not plain else rng.choice(plain)
                if rng.random() < 0.15:
                    ml = self.multiline_expr(scope, ind)
                    out.append(ind + '%s = %s' % (v, ml[0]))
                    out += ml[1:-1]
                    out.append(ml[-1] + trailing)
                else:
                    ann = ': int' if rng.random() < 0.05 else ''
                    eq = rng.choice([' = ', ' = ', ' = ', '=', '  =  '])
                    out.append(ind + v + ann + eq + self.expr(scope) + trailing)
                if v not in scope:
                    scope.append(v)
            elif r < 0.58:
                out.append(ind + '%s %s %s' % (rng.choice(plain), rng.choice(['+=', '-=', '*=']), self.expr(scope)) + trailing)
            elif r < 0.68 and depth < 2:
                out.append(ind + 'if %s:%s' % (self.expr(scope), trailing))
                out += self.body(scope, ind + '    ', depth + 1, in_func)[0]
                if rng.random() < 0.5:
                    out.append(ind + 'else:')
                    out += self.body(scope, ind + '    ', depth + 1, in_func)[0]
            elif r < 0.76 and depth < 2:
                v = self.fresh()
                out.append(ind + 'for %s in (%s, %s):' % (v, self.expr(scope, 2), self.expr(scope, 2)))
                out += self.body(scope + [v], ind + '    ', depth + 1, in_func)[0]
            elif r < 0.80 and depth < 2:
                out.append(ind + 'while %s:' % self.expr(scope, 2))
                out += self.body(scope, ind + '    ', depth + 1, in_func)[0]
                out.append(ind + '    break')
            elif r < 0.86:
                a, b = self.fresh(), self.fresh()
                out.append(ind + '%s, %s = %s, %s' % (a, b, self.expr(scope, 2), self.expr(scope, 2)))
                scope += [a, b]
            elif r < 0.90:
                out.append(ind + self.expr(scope) + trailing)
            elif r < 0.94:
                out.append(ind + '%s = %s; %s = %s' % (self.fresh(), self.expr(scope, 2), self.fresh(), self.expr(scope, 2)))
            elif r < 0.97 and in_func and depth < 2:
                out.append(ind + 'return %s' % self.expr(scope))
            else:
                out.append(ind + 'pass')
        return out, scope

    def funcdef(self, ind, scope, method_of=None):
        rng = self.rng
        name = self.fresh()
        np_ = rng.randint(0, 3)
        params = [self.fresh() for _ in range(np_)]
        plist = list(params)
        if rng.random() < 0.2 and plist:
            plist[-1] = plist[-1] + '=' + str(rng.randint(0, 5))
        if method_of is not None:
            plist = ['self'] + plist
        out = []
        deco = rng.random()
        if method_of is not None and deco < 0.1:
            out.append(ind + '@staticmethod')
            plist = plist[1:]
        elif method_of is not None and deco < 0.2:
            out.append(ind + '@classmethod')
            plist = ['cls'] + plist[1:]
        out.append(ind + 'def %s(%s):%s' % (name, ', '.join(plist), rng.choice(['', '', '  # d'])))
        inner = list(scope) + params
        if method_of is not None and 'self' in plist:
            out.append(ind + '    self.%s = %s' % (rng.choice(method_of), self.expr(inner, 2)))
            inner.append('self.' + method_of[0])
        b, sc = self.body(inner, ind + '    ', 1, True)
        out += b
        if rng.random() < 0.15:
            out.append(ind + '    def inner_fn(k):')
            out.append(ind + '        return k + %s' % self.atom(sc))
            sc = sc + ['inner_fn(1)']
        if rng.random() < 0.85:
            out.append(ind + '    return %s' % self.expr([s for s in sc], 1))
        return name, np_, out

    def program(self):
        rng = self.rng
        L = self.lines
        r = rng.random()
        if r < 0.2:
            L.append('# header é')
        elif r < 0.3:
            L += ['"""doc"""', '']
        elif r < 0.4:
            L += ['', '']          # leading blank lines
        elif r < 0.45:
            L += ['\x0c']
        scope = []
        if self.multi:
            L.append('import mod')
            L.append('from pkg import sub')
            if rng.random() < 0.5:
                L.append('import pkg')
                scope.append('pkg.PV')
            L.append('')
            scope += ['mod.MV', 'mod.mf(1)', 'sub.SV', 'sub.sf(2)']
        for _ in range(rng.randint(1, 3)):
            v = self.fresh()
            L.append('%s = %s' % (v, self.expr(scope, 2)))
            scope.append(v)
        for _ in range(rng.choice([1, 1, 2])):
            L += self.noise('')
            name, n, out = self.funcdef('', scope)
            L += out
            self.funcs.append((name, n))
            if rng.random() < 0.5:
                L.append('')
        if rng.random() < 0.55:
            cname = rng.choice(['Klass', 'Cé', 'Widget']) + str(len(self.classes))
            attrs = [self.fresh() for _ in range(rng.randint(1, 2))]
            L.append('class %s:' % cname)
            if rng.random() < 0.3:
                L.append('    """cls doc"""')
            cattr = self.fresh()
            L.append('    %s = %s' % (cattr, rng.randint(0, 9)))
            methods = []
            for _ in range(rng.choice([1, 1, 2])):
                name, n, out = self.funcdef('    ', [], method_of=attrs)
                L += out
                if not any(o.strip() in ('@staticmethod', '@classmethod') for o in out[:1]):
                    methods.append((name, n))
                L += self.noise('')
            self.classes.append((cname, methods, attrs + [cattr]))
            iv = self.fresh()
            L.append('%s = %s()' % (iv, cname))
            self.insts.append((iv, len(self.classes) - 1))
        b, scope = self.body(scope, '', 0, False)
        L += b
        if rng.random() < 0.15:
            L.append('# trailing comment')
        return L


# (mod.py and pkg/sub.py refer to their own module/package, so that a module rename also
# changes files that are themselves moved by it)
AUX_FILES = {
    'mod.py': 'MV = 1\n\ndef mf(a):\n    return a + MV\n\n\ndef again():\n    import mod\n    return mod.MV\n',
    'pkg/__init__.py': '# package\nPV = 5\n',
    'pkg/sub.py': 'SV = 2\r\n\r\ndef sf(b):\r\n    # keep é\r\n    return b * SV\r\n\r\ndef up():\r\n    import pkg\r\n    from pkg import sub\r\n    return pkg.PV + sub.SV\r\n',
    'user.py': 'import mod\nimport pkg\nfrom pkg import sub\nuv = mod.MV + sub.SV + pkg.PV  # u',
}
# files whose names share a *string* prefix with a renamed file/package
PREFIX_FILES = {
    'pkg2/__init__.py': '',
    'pkg2/other.py': 'import pkg\nfrom pkg import sub\nimport mod\now = pkg.PV + sub.SV + mod.MV\n',
}


def with_endings(lines, rng, style, final_newline):
    out = []
    for i, l in enumerate(lines):
        last = i == len(lines) - 1
        if last and not final_newline:
            out.append(l)
            break
        if style == 'lf':
            e = '\n'
        elif style == 'crlf':
            e = '\r\n'
        elif style == 'mixed':
            e = rng.choice(['\n', '\r\n'])
        else:  # 'cr': lone carriage returns between ordinary line ends
            e = rng.choice(['\n', '\r\n', '\r']) if not l.endswith('\\') else '\n'
        out.append(l + e)
    return ''.join(out)


CORPUS = [
    # (name, source) fixed programs, run in every line-ending style
    ('simple', "def foo(a, b):\n    x = a + b  # c\n    return x * 2\n\nclass K:\n    def m(self):\n        return foo(1, 2)\n\ny = foo(3, 4)\nk = K()\nz = k.m()\n"),
    ('inline_chain', "a = 1\nb = a + 2\nc = b * b\nd = (c,\n     b)\nclass A:\n    at = 3\no = A()\np = o.at\nq = p.real + p\n"),
    ('comments', "# top\n\n\x0c\ndef f(x):  # sig\n    # before\n    y = x  # after\n\n    # gap\n    return (y +  # in\n            1)\n# tail"),
    ('broken', "def g(a:\n    b = a +\n    return b\nv = g(1)\nw = v + v\n"),
    ('semicolons', "a = 1; b = a; c = b + a\nif a: d = c; e = d\nprint_ = e\n"),
    ('decorated', "def deco(f):\n    return f\n\n@deco\ndef h(u, v=2):\n    t = u * v\n    return t + 1\n\nclass B:\n    @staticmethod\n    def sm(p):\n        r = p + 1\n        return r\n    @classmethod\n    def cm(cls, p):\n        r = p + 2\n        return r\n    def im(self, p):\n        self.z = p\n        r = self.z + 3\n        return r\nbb = B()\nout = bb.im(h(1)) + B.sm(2)\n"),
    ('unicode', "ñu = 1\n变量 = ñu + 2  # ü\ndef é(α, β):\n    γ = α * β\n    return γ + 变量\nδ = é(ñu, 变量)\n"),
    ('empty', ""),
    ('only_comment', "# nothing here"),
    ('yield_return', "def gen(n):\n    i = 0\n    while i < n:\n        yield i\n        i += 1\n    return i\ndef ret(n):\n    if n:\n        return 1\n    m = n + 1\n    return m\n"),
    ('bom', "\ufeffa = 1\nb = a\n"),
    ('nested', "def outer(p):\n    def inner(q):\n        s = p + q\n        return s\n    t = inner(p)\n    return t\nglobal_v = outer(1)\nlam = lambda u: u + global_v\nres = lam(2) if global_v else [i for i in (1, 2) if i]\n"),
]


def restyle(src, style, rng):
    """re-write the line ends of a corpus source"""
    ls = split_keepends(src)
    body = [l.rstrip('\r\n') for l in ls]
    has_final = ls[-1] == ''
    if has_final:
        body = body[:-1]
    if not body:
        return src
    return with_endings(body, rng, style, has_final)


# =============================================================================
# choosing positions with parso (input generation only)

def _col(leaf_or_pos):
    return leaf_or_pos


def gen_ops(rng, src, nops, multi, new_names):
    import parso
    mod = parso.parse(src)
    names, exprs, stmts = [], [], []
    EXPR_TYPES = ('or_test and_test not_test comparison expr xor_expr and_expr shift_expr arith_expr term '
                  'factor power atom_expr atom testlist_star_expr testlist test lambdef name number string '
                  'keyword operator').split()

    def walk(n):
        if n.type == 'name':
            names.append(n)
        if n.type in EXPR_TYPES:
            exprs.append(n)
        if hasattr(n, 'children'):
            if n.type in ('suite', 'file_input'):
                kids = [c for c in n.children if c.type not in ('newline', 'endmarker', 'indent', 'dedent')]
                if kids:
                    stmts.append(kids)
            for c in n.children:
                walk(c)
    walk(mod)
    lines = split_keepends(src)
    nl = len(lines)

    def rand_pos():
        ln = rng.randint(1, nl)
        body = lines[ln - 1].rstrip('\r\n')
        return ln, rng.randint(0, len(body))

    def name_pos(n):
        return n.start_pos[0], n.start_pos[1] + rng.randint(0, len(n.value))

    ops = []
    kinds = ['rename'] * 4 + ['inline'] * 3 + ['extract_variable'] * 3 + ['extract_function'] * 4
    for _ in range(nops):
        kind = rng.choice(kinds)
        op = dict(kind=kind, new_name=rng.choice(new_names), apply=rng.random() < 0.45)
        r = rng.random()
        if r < 0.05:
            # out-of-range position: only ValueError is acceptable
            k = rng.randint(0, 3)
            if k == 0:
                op.update(line=nl + rng.randint(1, 3), column=0)
            elif k == 1:
                op.update(line=0, column=0)
            elif k == 2:
                ln = rng.randint(1, nl)
                op.update(line=ln, column=len(lines[ln - 1].rstrip('\r\n')) + rng.randint(1, 3))
            else:
                op.update(line=rng.randint(1, nl), column=-1)
            op['oob'] = True
        elif kind in ('rename', 'inline'):
            if names and r < 0.9:
                cands = names
                if multi and rng.random() < 0.35:
                    imp = [n for n in names if n.value in ('mod', 'pkg', 'sub')]
                    cands = imp or names
                if kind == 'inline' and rng.random() < 0.7:
                    counts = {}
                    for x in names:
                        counts[x.value] = counts.get(x.value, 0) + 1
                    simple = [x for x in names if x.parent.type == 'expr_stmt' and x.parent.children[0] is x
                              and x.parent.children[1].type == 'operator' and x.parent.children[1].value == '='
                              and len(x.parent.children) == 3 and counts[x.value] > 1]
                    if simple:
                        d = rng.choice(simple)
                        cands = [x for x in names if x.value == d.value]
                n = rng.choice(cands)
                ln, col = name_pos(n)
                op.update(line=ln, column=col, target=n.value)
                if kind == 'rename' and rng.random() < 0.06:
                    op['new_name'] = n.value      # degenerate: rename to the same name
            else:
                ln, col = rand_pos()
                op.update(line=ln, column=col)
        else:
            if kind == 'extract_function' and stmts and r < 0.45:
                kids = rng.choice(stmts)
                i = rng.randrange(len(kids))
                j = rng.randrange(i, min(len(kids), i + 3))
                a, b = kids[i], kids[j]
                sl, sc = a.start_pos
                el, ec = b.end_pos
                if rng.random() < 0.5:
                    sc = 0 if rng.random() < 0.5 else sc
                if b.type == 'simple_stmt' and rng.random() < 0.7:
                    # end before the newline
                    el, ec = b.children[-1].start_pos
                op.update(line=sl, column=sc, until_line=el, until_column=ec)
            elif exprs and r < 0.85:
                e = rng.choice(exprs)
                sl, sc = e.start_pos
                el, ec = e.end_pos
                if rng.random() < 0.25:
                    op.update(line=sl, column=sc)          # no range: jedi picks it
                else:
                    if rng.random() < 0.15:
                        ec = max(0, ec - 1)
                    if rng.random() < 0.1:
                        sc = max(0, sc - 1)
                    op.update(line=sl, column=sc, until_line=el, until_column=ec)
                    if rng.random() < 0.1:
                        del op['until_column']
            else:
                ln, col = rand_pos()
                ln2 = rng.randint(ln, min(nl, ln + 2))
                body2 = lines[ln2 - 1].rstrip('\r\n')
                col2 = rng.randint(col if ln2 == ln else 0, max(col if ln2 == ln else 0, len(body2)))
                op.update(line=ln, column=col, until_line=ln2, until_column=col2)
        if kind.startswith('extract') and not op.get('oob') and rng.random() < 0.04:
            # out-of-range END of the selection
            op['until_line'] = nl + rng.randint(1, 3)
            if rng.random() < 0.5:
                op.pop('until_column', None)
            else:
                op['until_column'] = 0
        ops.append(op)
    return ops


# =============================================================================
# the worker: one program (a directory of files) x its ops, run against the real jedi

def snapshot(root):
    files, dirs = {}, set()
    for d, ds, fs in os.walk(root):
        rel = os.path.relpath(d, root)
        if rel != '.':
            dirs.add(rel)
        for f in fs:
            p = os.path.join(d, f)
            with open(p, 'rb') as fh:
                files[os.path.relpath(p, root)] = fh.read()
    return files, dirs


def write_tree(root, files, enc=None):
    for rel, txt in files.items():
        p = os.path.join(root, rel)
        os.makedirs(os.path.dirname(p), exist_ok=True)
        with open(p, 'wb') as f:
            f.write(txt.encode((enc or {}).get(rel, 'utf-8')))


def ser_tree(node, keymap, path, out_paths):
    """real parso tree -> nested python structure ('L', prefix, value) / ('N', [children]);
    records the path of every node that is a key of the node map (by identity)."""
    if id(node) in keymap:
        out_paths[id(node)] = list(path)
    try:
        ch = node.children
    except AttributeError:
        return ('L', node.prefix, node.value)
    return ('N', [ser_tree(c, keymap, path + [i], out_paths) for i, c in enumerate(ch)])


def node_span(node, offsets):
    """(start incl. prefix, end) offsets of a node in module.get_code()"""
    first = node.get_first_leaf() if hasattr(node, 'children') else node
    last = node.get_last_leaf() if hasattr(node, 'children') else node
    return offsets[id(first)][0], offsets[id(last)][1]


def leaf_offsets(module):
    offsets, pos = {}, 0
    leaf = module.get_first_leaf()
    while leaf is not None:
        a = pos
        pos += len(leaf.prefix) + len(leaf.value)
        offsets[id(leaf)] = (a, pos)
        leaf = leaf.get_next_leaf()
    return offsets


def is_ancestor(a, b):
    """a is a proper ancestor of b"""
    p = b.parent
    while p is not None:
        if p is a:
            return True
        p = p.parent
    return False


def observe_refactoring(r, root):
    """Everything observable on a Refactoring object, without applying it."""
    obs = {}
    obs['diff'] = r.get_diff()
    changed = r.get_changed_files()
    obs['renames'] = [[os.path.relpath(str(a), root), os.path.relpath(str(b), root)] for a, b in r.get_renames()]
    files = []
    node_changes = getattr(r, '_file_to_node_changes', None)
    for path, cf in changed.items():
        rec = {}
        rec['from'] = None if path is None else os.path.relpath(str(path), root)
        tp = getattr(cf, '_to_path', None)
        rec['to_private'] = None if tp is None else os.path.relpath(str(tp), root)
        rec['new_code'] = cf.get_new_code()
        rec['file_diff'] = cf.get_diff()
        m = node_changes.get(path) if node_changes is not None else None
        m2 = getattr(cf, '_node_to_str_map', None)
        if m is None:
            m = m2
        if m is not None:
            module = next(iter(m)).get_root_node()
            rec['old_code'] = module.get_code()
            keys = list(m.keys())
            keymap = {id(k): k for k in keys}
            paths = {}
            rec['tree'] = ser_tree(module, keymap, [], paths)
            offs = leaf_offsets(module)
            krecs = []
            for k in keys:
                a, e = node_span(k, offs)
                first = k.get_first_leaf() if hasattr(k, 'children') else k
                krecs.append(dict(path=paths.get(id(k)), repl=m[k], start=a, end=e,
                                  prefix=first.prefix, type=k.type,
                                  value=getattr(k, 'value', None),
                                  covered=any(is_ancestor(o, k) for o in keys if o is not k)))
            rec['keys'] = krecs
            rec['same_map'] = (m2 is None) or (m2 is m) or (dict(m2) == dict(m))
        files.append(rec)
    obs['files'] = files
    return obs


def run_op(jedi, root, files, main_rel, op, use_path, code_arg, enc=None):
    """Run one refactoring request on a fresh copy of the tree under `root`."""
    from jedi.api.exceptions import RefactoringError
    if os.path.exists(root):
        shutil.rmtree(root)
    os.makedirs(root)
    write_tree(root, files, enc)
    snap0 = snapshot(root)
    res = dict(op=op)
    # SAFETY: always an explicit project rooted in the scratch directory.  Without it jedi falls
    # back to a project found from the cwd and a rename of a builtin name would rewrite files there.
    kwargs = {'project': jedi.Project(root)}
    if use_path:
        kwargs['path'] = os.path.join(root, main_rel)
    try:
        if code_arg or not use_path:
            script = jedi.Script(files[main_rel], **kwargs)
        else:
            script = jedi.Script(**kwargs)
        kind = op['kind']
        if kind == 'rename':
            r = script.rename(op['line'], op['column'], new_name=op['new_name'])
        elif kind == 'inline':
            r = script.inline(op['line'], op['column'])
        else:
            kw = {k: op[k] for k in ('until_line', 'until_column') if k in op}
            r = getattr(script, kind)(op['line'], op['column'], new_name=op['new_name'], **kw)
    except RefactoringError as e:
        res['outcome'] = 'RefactoringError'
        res['msg'] = str(e)[:100]
        res['fs_same_after_construct'] = snapshot(root) == snap0
        return res
    except ValueError as e:
        res['outcome'] = 'ValueError'
        res['msg'] = str(e)[:100]
        res['sig'] = common.exc_sig(e)
        res['fs_same_after_construct'] = snapshot(root) == snap0
        return res
    except Exception as e:
        res['outcome'] = 'exception'
        res['sig'] = common.exc_sig(e)
        res['fs_same_after_construct'] = snapshot(root) == snap0
        return res
    res['outcome'] = 'ok'
    res['fs_same_after_construct'] = snapshot(root) == snap0
    try:
        res['obs'] = observe_refactoring(r, root)
        # a second look must give the same answers (the object is not consumed by inspection)
        res['diff_again_same'] = r.get_diff() == res['obs']['diff']
    except Exception as e:
        res['outcome'] = 'inspect-exception'
        res['sig'] = common.exc_sig(e)
        return res
    res['fs_same_after_inspect'] = snapshot(root) == snap0
    if op.get('apply'):
        # SAFETY: never let apply() write outside the scratch directory
        touched = [p for p in r.get_changed_files() if p is not None] + [x for pair in r.get_renames() for x in pair]
        rr = os.path.realpath(root) + os.sep
        outside = [str(p) for p in touched if not os.path.realpath(str(p)).startswith(rr)]
        if outside:
            res['apply'] = 'refused-by-harness'
            res['outside'] = outside[:5]
            res['fs_before'] = {k: v.decode('utf-8', 'surrogateescape') for k, v in snap0[0].items()}
            res['dirs_before'] = sorted(snap0[1])
            return res
        try:
            r.apply()
            res['apply'] = 'ok'
        except RefactoringError as e:
            res['apply'] = 'RefactoringError'
            res['apply_msg'] = str(e)[:100]
        except Exception as e:
            res['apply'] = 'exception'
            res['sig'] = common.exc_sig(e)
        f1, d1 = snapshot(root)
        res['fs_after'] = {k: v.decode('utf-8', 'surrogateescape') for k, v in f1.items()}
        res['dirs_after'] = sorted(d1)
    res['fs_before'] = {k: v.decode('utf-8', 'surrogateescape') for k, v in snap0[0].items()}
    res['dirs_before'] = sorted(snap0[1])
    return res


_WORK = {}


def _task(t):
    """(index, root, files, main_rel, ops, use_path, code_arg, enc)"""
    idx, root, files, main_rel, ops, use_path, code_arg, enc = t
    import jedi
    jedi.settings.cache_directory = os.path.join(_WORK['cache'], 'p%d' % os.getpid())
    out = []
    for j, op in enumerate(ops):
        try:
            out.append(run_op(jedi, os.path.join(root, 'op%d' % j), files, main_rel, op, use_path, code_arg, enc))
        except Exception as e:   # harness trouble, reported by the parent
            out.append(dict(op=op, outcome='harness-error', sig=common.exc_sig(e), msg=repr(e)))
        finally:
            shutil.rmtree(os.path.join(root, 'op%d' % j), ignore_errors=True)
    return out


# =============================================================================
# strict parser for Refactoring.get_diff() (trusted harness code; difflib is not)

class DiffError(Exception):
    pass


_HUNK_RE = re.compile(r'^@@ -(\d+)(?:,(\d+))? \+(\d+)(?:,(\d+))? @@\n\Z')


def parse_diff(text):
    """-> (renames [(from, to)], files [dict(frm, to, hunks [dict(os, ol, ns, nl, body [(tag, line)])])])
    Lines of the diff are split like source lines (after \\n, \\r\\n, lone \\r) because a hunk
    line is a marker followed by a source line *including* its own line end.  jedi strips the
    blanks at the end of each file diff: a final context line for the empty last line of a file
    is therefore missing and is re-inserted when the header counts ask for exactly it."""
    L = split_keepends(text)
    if L and L[-1] == '':
        L.pop()
    i, n = 0, len(L)
    renames = []
    while i < n and L[i].startswith('rename from '):
        if i + 1 >= n or not L[i + 1].startswith('rename to ') or not L[i].endswith('\n') or not L[i + 1].endswith('\n'):
            raise DiffError('rename line %d not followed by "rename to"' % i)
        renames.append((L[i][len('rename from '):-1], L[i + 1][len('rename to '):-1]))
        i += 2
    files = []
    while i < n:
        if not (L[i].startswith('--- ') and L[i].endswith('\n') and i + 1 < n
                and L[i + 1].startswith('+++ ') and L[i + 1].endswith('\n')):
            raise DiffError('expected file header at diff line %d: %r' % (i, L[i][:60]))
        rec = dict(frm=L[i][4:-1], to=L[i + 1][4:-1], hunks=[])
        i += 2
        while i < n and L[i].startswith('@@ '):
            m = _HUNK_RE.match(L[i])
            if not m:
                raise DiffError('malformed hunk header %r' % L[i])
            os_, ol, ns, nl = (int(m.group(1)), 1 if m.group(2) is None else int(m.group(2)),
                               int(m.group(3)), 1 if m.group(4) is None else int(m.group(4)))
            i += 1
            ro, rn, body = ol, nl, []
            while ro > 0 or rn > 0:
                at_end = i >= n or (L[i].startswith('--- ') and i + 1 < n and L[i + 1].startswith('+++ '))
                if at_end and (ro, rn) == (1, 1):
                    body.append((' ', ''))      # the stripped final context line
                    ro, rn = 0, 0
                    break
                if i >= n:
                    raise DiffError('hunk body ends early (%d old / %d new lines missing)' % (ro, rn))
                tag, content = L[i][0], L[i][1:]
                if tag == ' ':
                    ro, rn = ro - 1, rn - 1
                elif tag == '-':
                    ro -= 1
                elif tag == '+':
                    rn -= 1
                else:
                    raise DiffError('bad hunk line %r' % L[i][:60])
                if ro < 0 or rn < 0:
                    raise DiffError('hunk body longer than its header says')
                body.append((tag, content))
                i += 1
            rec['hunks'].append(dict(os=os_, ol=ol, ns=ns, nl=nl, body=body))
        if not rec['hunks']:
            raise DiffError('file header without hunks')
        files.append(rec)
    return renames, files


def py_apply(old, hunks):
    """plain re-implementation of the model's apply_udiff (used for replays and as a cross-check)"""
    out, pos = [], 0
    for h in hunks:
        s0 = h['os'] if h['ol'] == 0 else h['os'] - 1
        if s0 < pos or s0 > len(old):
            return None
        out += old[pos:s0]
        pos = s0
        if (h['ns'] if h['nl'] == 0 else h['ns'] - 1) != len(out):
            return None
        co = cn = 0
        for tag, line in h['body']:
            if tag in ' -':
                if pos >= len(old) or old[pos] != line:
                    return None
                pos += 1
                co += 1
            if tag in ' +':
                out.append(line)
                cn += 1
        if co != h['ol'] or cn != h['nl']:
            return None
    return out + old[pos:]


# =============================================================================
# Gallina printers

def g_tree(t):
    if t[0] == 'L':
        return 'Leaf %s %s' % (g_str(t[1]), g_str(t[2]))
    return 'Node [' + '; '.join(g_tree(c) for c in t[1]) + ']' if t[1] else 'Node (@nil tree)'


def g_tree_p(t):
    return '(' + g_tree(t) + ')'


def g_kpath(p):
    return g_list(p, g_nat, 'nat')


def g_hunk(h):
    body = g_list(h['body'], lambda b: '%s %s' % ({' ': 'HCtx', '-': 'HDel', '+': 'HAdd'}[b[0]], g_str(b[1])), 'hline')
    return '(mkHunk %d %d %d %d %s)' % (h['os'], h['ol'], h['ns'], h['nl'], body)


def g_cpath(rel):
    return g_list(['R'] + rel.split('/'), g_str, 'str')


def code_of(t):
    if t[0] == 'L':
        return t[1] + t[2]
    return ''.join(code_of(c) for c in t[1])


FILE_FN = ("(fun c : tree * nmap * str * nat * list hunk * bool => let '(t, m, newc, nrepl, hs, has_diff) := c in "
           "str_eqb (refactor t m) newc && "
           "Nat.eqb (length (filter is_repl (pieces t m []))) nrepl && "
           "str_eqb (new_of (pieces t m [])) newc && "
           "(if has_diff then diff_ok (get_code t) newc hs "
           " else lines_eqb (preamble (get_code t)) (preamble newc)))")

PATH_FN = ("(fun c : cpath * list (cpath * cpath) * cpath => let '(p, rs, obs) := c in cpath_eqb (calc_to_path p rs) obs)")

REN_FN = ("(fun c : cpath * str * str * cpath * cpath => let '(dir, name, nn, f, t) := c in "
          "let r := calculate_rename dir name nn in cpath_eqb (fst r) f && cpath_eqb (snd r) t)")

FS_DEFS = '''
Definition fs_same (a b : fs) : bool :=
  Nat.eqb (length a) (length b) &&
  forallb (fun e => match fs_lookup b (fst e) with Some c => N.eqb c (snd e) | None => false end) a.
'''
FS_FN = ("(fun c : list (option cpath * N) * list (cpath * cpath) * fs * fs * bool => "
         "let '(changed, renames, before, after, refused) := c in "
         "match apply_refactoring changed renames before with "
         "| Some s' => negb refused && fs_same s' after "
         "| None => refused && fs_same before after end)")


# =============================================================================
# oracles on one result

def move_rel(rel, renames):
    """component-wise: where a path ends up after the renames (oracle for the true final name)"""
    parts = rel.split('/')
    for f, t in renames:
        fp, tp = f.split('/'), t.split('/')
        if parts[:len(fp)] == fp:
            parts = tp + parts[len(fp):]
    return '/'.join(parts)


def string_rel(rel, renames):
    """what a string-prefix rewrite gives (the classifier of finding C07-to-path-string-prefix)"""
    p = rel
    for f, t in renames:
        if p.startswith(f):
            p = t + p[len(f):]
    return p


def comments_of(code):
    """comment tokens of a source, by a small scanner that knows strings (single-line and triple-quoted)"""
    out, i, n = [], 0, len(code)
    while i < n:
        c = code[i]
        if c == '#':
            j = i
            while j < n and code[j] not in '\r\n':
                j += 1
            out.append(code[i:j].rstrip())
            i = j
        elif c in '\'"':
            q = code[i:i + 3] if code[i:i + 3] in ('"""', "'''") else c
            j = i + len(q)
            while j < n:
                if code[j] == '\\':
                    j += 2
                    continue
                if code.startswith(q, j):
                    j += len(q)
                    break
                if len(q) == 1 and code[j] in '\r\n':
                    break
                j += 1
            i = j
        else:
            i += 1
    return out


def _bytes_repr(x):
    """file contents were decoded with surrogateescape; show them as bytes in replay files"""
    return None if x is None else repr(x.encode('utf-8', 'surrogateescape'))


class Analysis:
    """Parent-side evaluation of the workers' observations."""

    def __init__(self, ctx):
        self.ctx = ctx
        self.file_cases, self.file_meta = [], []
        self.path_cases, self.path_meta = [], []
        self.ren_cases, self.ren_meta = [], []
        self.fs_cases, self.fs_meta = [], []
        self.stats = dict(outcomes={}, kinds={}, apply={}, styles={}, n_files=0, n_hunks=0, n_keys=0,
                          module_renames=0, oob=0, empty_diffs=0, key_types={}, messages={}, final_newline={})

    def bump(self, group, key, n=1):
        d = self.stats[group]
        d[key] = d.get(key, 0) + n

    # ---- helpers
    def where(self, task, op, extra=None):
        w = dict(files=task['files'], main=task['main'], use_path=task['use_path'], code_arg=task['code_arg'],
                 op=op, style=task['style'], program=task['name'], enc=task.get('enc'))
        if extra:
            w.update(extra)
        return w

    def one(self, task, res):
        ctx, op = self.ctx, res['op']
        kind, outcome = op['kind'], res['outcome']
        self.bump('outcomes', '%s/%s' % (kind, outcome))
        self.bump('styles', task['style'])
        src = task['files'][task['main']]
        key = (task['name'], src, json.dumps(op, sort_keys=True), task['use_path'], task['code_arg'])
        lines = split_keepends(src)
        ln, col = op['line'], op['column']
        in_range = 1 <= ln <= len(lines) and 0 <= col <= len(lines[ln - 1].rstrip('\r\n')) \
            if isinstance(ln, int) and isinstance(col, int) else False
        has_until = 'until_line' in op or 'until_column' in op
        reaches_eof = False
        ul_ = op.get('until_line', ln)
        until_oob = has_until and isinstance(ul_, int) and (
            not 1 <= ul_ <= len(lines)
            or ('until_column' in op and not 0 <= op['until_column'] <= len(lines[ul_ - 1].rstrip('\r\n'))))
        if has_until and in_range and not until_oob:
            ul = op.get('until_line', ln)
            uc = op.get('until_column', len(lines[min(ul, len(lines)) - 1].rstrip('\r\n')) if 1 <= ul <= len(lines) else 0)
            # is there any code (not blanks/comments) after the end of the selection?
            def code_part(line):
                q = None
                for i, ch in enumerate(line):
                    if q:
                        if ch == q:
                            q = None
                    elif ch in '\'"':
                        q = ch
                    elif ch == '#':
                        return line[:i]
                return line
            rest = [code_part(lines[ul - 1])[uc:]] + [code_part(l) for l in lines[ul:]]
            reaches_eof = all(not l.strip() for l in rest)
        # ---------------------------------------------------------- exception contract
        ctx.count('exc', key, nontrivial=outcome != 'ok')
        if outcome == 'harness-error':
            raise RuntimeError('harness error in worker: %r' % (res,))
        if outcome in ('exception', 'inspect-exception'):
            sg = res['sig']
            ctx.deviation(dict(stream='exc', kind=kind, exc=sg['exc'], site=sg['site'], has_until=has_until,
                               reaches_eof=reaches_eof, until_oob=until_oob, phase='inspect' if outcome == 'inspect-exception' else 'request'),
                          self.where(task, op, dict(error=sg)),
                          '%s raised %s (%s) instead of RefactoringError' % (kind, sg['exc'], sg['msg']))
            return
        if outcome == 'ValueError' and in_range and not until_oob:
            ctx.deviation(dict(stream='exc', kind=kind, exc='ValueError', site=res['sig']['site'], cls='valueerror-in-range'),
                          self.where(task, op, dict(error=res['sig'])),
                          '%s raised ValueError for a position inside the text' % kind)
        if not in_range or until_oob:
            self.stats['oob'] += 1
        if outcome == 'RefactoringError':
            self.bump('messages', re.sub(r'".*?"', '"…"', res['msg'])[:60])
        # ---------------------------------------------------------- nothing touched before apply
        ctx.count('inspect', key, nontrivial=task['use_path'])
        if not res.get('fs_same_after_construct', True) or not res.get('fs_same_after_inspect', True):
            ctx.deviation(dict(stream='inspect', cls='touched-before-apply', kind=kind),
                          self.where(task, op), 'the directory changed while the Refactoring was constructed/inspected (before apply())')
        if outcome != 'ok':
            return
        obs = res['obs']
        if not res.get('diff_again_same', True):
            ctx.deviation(dict(stream='diff', cls='diff-not-repeatable', kind=kind), self.where(task, op),
                          'get_diff() called twice gives two different texts')
        # ---------------------------------------------------------- diff: parse, names
        ctx.count('diff', key)
        try:
            d_renames, d_files = parse_diff(obs['diff'])
        except DiffError as e:
            lone_cr = bool(re.search(r'\r(?!\n)', src))
            ctx.deviation(dict(stream='diff', cls='malformed-diff', kind=kind, lone_cr=lone_cr),
                          self.where(task, op, dict(diff=obs['diff'], parse_error=str(e))),
                          'get_diff() is not a well-formed unified diff: %s' % e)
            return
        renames = [tuple(x) for x in obs['renames']]
        if [tuple(x) for x in d_renames] != renames:
            ctx.deviation(dict(stream='diff', cls='rename-lines', kind=kind),
                          self.where(task, op, dict(diff=obs['diff'], get_renames=renames)),
                          'the "rename from/to" lines of get_diff() differ from get_renames()')
        if renames:
            self.stats['module_renames'] += 1
        expect_hdr = []
        for f in obs['files']:
            changed = norm_lines(f['old_code']) != norm_lines(f['new_code']) if 'old_code' in f else True
            f['_has_diff'] = changed
            if changed:
                expect_hdr.append(f['from'] or '')
            else:
                self.stats['empty_diffs'] += 1
        if [x['frm'] for x in d_files] != expect_hdr:
            ctx.deviation(dict(stream='diff', cls='header-from-names', kind=kind),
                          self.where(task, op, dict(diff=obs['diff'], changed_files=expect_hdr)),
                          'the ---/+++ headers of get_diff() do not name exactly get_changed_files() (%r vs %r)' % (
                              [x['frm'] for x in d_files], expect_hdr))
            return
        if obs['diff'] != ''.join('rename from %s\nrename to %s\n' % r for r in renames) + ''.join(f['file_diff'] for f in obs['files']):
            ctx.deviation(dict(stream='diff', cls='diff-not-concatenation', kind=kind), self.where(task, op, dict(diff=obs['diff'])),
                          'Refactoring.get_diff() is not the rename lines followed by the ChangedFile diffs')
        by_from = {x['frm']: x for x in d_files}
        announced_ok = True
        for f in obs['files']:
            self.stats['n_files'] += 1
            frm = f['from']
            hdr = by_from.get(frm or '') if f['_has_diff'] else None
            announced = hdr['to'] if hdr is not None else (f['to_private'] if frm is not None else '')
            if frm is not None:
                true_to = move_rel(frm, renames)
                # paths correspondence: calc_to_path on the string form
                if announced is not None:
                    self.path_cases.append('(%s, %s, %s)' % (
                        g_cpath(frm), g_list(renames, lambda r: '(%s, %s)' % (g_cpath(r[0]), g_cpath(r[1])), 'cpath * cpath'),
                        g_cpath(announced)))
                    self.path_meta.append(dict(task=task, op=op, frm=frm, renames=renames, announced=announced))
                    ctx.count('paths', (key, frm), nontrivial=bool(renames))
                if announced != true_to:
                    announced_ok = False
                    mech = 'string-prefix' if announced == string_rel(frm, renames) else 'other'
                    ctx.deviation(dict(stream='diff', cls='announced-name', mechanism=mech),
                                  self.where(task, op, dict(diff=obs['diff'], from_path=frm, announced=announced,
                                                            really_ends_up_at=true_to, renames=renames)),
                                  'get_diff() announces %s -> %s but after apply() the file is at %s' % (frm, announced, true_to))
            elif hdr is not None and hdr['to'] != '':
                ctx.deviation(dict(stream='diff', cls='announced-name', mechanism='none-path'), self.where(task, op, dict(diff=obs['diff'])),
                              'a Script without path announces the file name %r' % hdr['to'])
            if 'tree' not in f:
                ctx.violation('obligation', dict(what='correspondence refactor: the node map of a ChangedFile is no longer observable '
                                                      '(Refactoring._file_to_node_changes / ChangedFile._node_to_str_map)',
                                                 input=self.where(task, op)), nofail=True)
                continue
            self.per_file(task, op, key, f, hdr)
        # ---------------------------------------------------------- apply
        if op.get('apply'):
            self.apply_check(task, op, key, res, obs, renames, d_files, announced_ok)
        # ---------------------------------------------------------- _calculate_rename
        if kind == 'rename' and renames and op.get('target') in ('mod', 'pkg', 'sub'):
            dir_, name = {'mod': ([], 'mod.py'), 'pkg': (['pkg'], '__init__.py'), 'sub': (['pkg'], 'sub.py')}[op['target']]
            if len(renames) == 1:
                f, t = renames[0]
                self.ren_cases.append('(%s, %s, %s, %s, %s)' % (
                    g_list(['R'] + dir_, g_str, 'str'), g_str(name), g_str(op['new_name']), g_cpath(f), g_cpath(t)))
                self.ren_meta.append(dict(task=task, op=op, renames=renames))
                ctx.count('paths', (key, 'calculate_rename'))

    # ---- one ChangedFile
    def per_file(self, task, op, key, f, hdr):
        ctx, kind = self.ctx, op['kind']
        old, new = f['old_code'], f['new_code']
        frm = f['from']
        on_disk = task['files'].get(frm) if frm is not None else task['files'][task['main']]
        keys = f['keys']
        self.stats['n_keys'] += len(keys)
        self.bump('final_newline', 'old %s -> new %s' % (old.endswith(('\n', '\r')), new.endswith(('\n', '\r'))))
        for k in keys:
            self.bump('key_types', k['type'])
        where = lambda extra: self.where(task, op, dict(file=frm, **extra))  # noqa: E731
        if on_disk is not None and old != on_disk:
            ctx.deviation(dict(stream='outside', cls='old-code-not-file', kind=kind), where(dict(old_code=old)),
                          'the tree the refactoring works on does not render the text of the file byte for byte')
        if not f.get('same_map', True):
            ctx.violation('obligation', dict(what='ChangedFile._node_to_str_map differs from Refactoring._file_to_node_changes[path]',
                                             input=where({})), nofail=True)
        # ---- outside: decomposition computed from the keys on the real tree
        ctx.count('outside', (key, frm))
        eff = sorted((k for k in keys if not k['covered'] and k['path'] is not None), key=lambda k: (k['start'], k['end']))
        ok_spans = all(a['end'] <= b['start'] for a, b in zip(eff, eff[1:]))
        if not ok_spans:
            ctx.violation('obligation', dict(what='node map keys overlap without being nested (harness decomposition not applicable)',
                                             input=where({})), nofail=True)
        else:
            pos, parts, keeps = 0, [], []
            for k in eff:
                keeps.append(old[pos:k['start']])
                parts.append(old[pos:k['start']])
                parts.append(k['repl'])
                pos = k['end']
            parts.append(old[pos:])
            keeps.append(old[pos:])
            if ''.join(parts) != new:
                # which untouched stretch is not preserved?
                ctx.deviation(dict(stream='outside', cls='outside-text-changed', kind=kind),
                              where(dict(new_code=new, old_code=old, untouched=keeps[:20],
                                         keys=[dict(start=k['start'], end=k['end'], repl=k['repl']) for k in eff])),
                              'get_new_code() is not the old text with exactly the mapped nodes replaced: text outside the rewritten nodes changed')
        # ---- rename: exact splice of the name tokens (prefix re-emitted, nothing else)
        if kind == 'rename':
            bad = [k for k in keys if k['type'] != 'name' or k['repl'] != k['prefix'] + op['new_name']]
            if bad:
                ctx.deviation(dict(stream='outside', cls='rename-not-a-splice', kind=kind),
                              where(dict(new_code=new, bad_keys=[dict(type=k['type'], prefix=k['prefix'], repl=k['repl']) for k in bad[:5]])),
                              'rename rewrites something other than the name token itself (prefix %r -> %r)' % (bad[0]['prefix'], bad[0]['repl']))
        else:
            # ---- the white space / comments in front of a rewritten name are re-emitted
            if kind == 'inline':
                for k in eff:
                    if k['repl'] != '' and k['type'] == 'name' and not k['repl'].startswith(k['prefix']):
                        ctx.deviation(dict(stream='outside', cls='inline-prefix-dropped', kind=kind),
                                      where(dict(new_code=new, prefix=k['prefix'], repl=k['repl'])),
                                      'inline drops the white space/comments in front of the replaced name')
                        break
            if kind == 'extract_variable':
                for k in eff:
                    if k['repl'].endswith(op['new_name']) and k['repl'] != '':
                        pls = split_keepends(k['prefix'])
                        if not (k['repl'].startswith(''.join(pls[:-1])) and k['repl'].endswith(pls[-1] + op['new_name'])):
                            ctx.deviation(dict(stream='outside', cls='extract-prefix-dropped', kind=kind),
                                          where(dict(new_code=new, prefix=k['prefix'], repl=k['repl'])),
                                          'extract_variable drops white space/comments/blank lines in front of the extracted expression')
                            break
            # ---- no comment is lost (an inlined expression may repeat the comments it contains)
            co, cn = comments_of(old), comments_of(new)
            lost = list(co)
            for c in cn:
                if c in lost:
                    lost.remove(c)
            # a comment that was itself cut by the requested range is rewritten, not lost
            lost = [c for c in lost if not any(x.startswith(c) for x in cn)]
            if lost:
                ctx.deviation(dict(stream='outside', cls='comments-lost', kind=kind),
                              where(dict(new_code=new, lost=lost)),
                              '%s loses the comments %r' % (kind, lost))
        # ---- Coq: refactor t m = new_code, verified applier on the parsed hunks
        tree = f['tree']
        if code_of(tree) != old:
            raise RuntimeError('serialised tree does not render module.get_code()')
        m = [(k['path'], k['repl']) for k in keys if k['path'] is not None]
        hunks = hdr['hunks'] if hdr is not None else []
        if hdr is not None:
            self.stats['n_hunks'] += len(hunks)
            py = py_apply(norm_lines(old), hunks)
        if hdr is not None and py != norm_lines(new):
            # harness applier on every case (the verified applier in Coq sees the time-boxed subset)
            ctx.deviation(dict(stream='diff', cls='diff-does-not-transform', kind=kind, applier='harness'),
                          where(dict(new_code=new, diff=f['file_diff'],
                                     applied=None if py is None else ''.join(py)[-200:])),
                          'get_diff() applied to the old lines does not give get_new_code() (harness applier)')
        self.file_cases.append('(%s, %s, %s, %s, %s, %s)' % (
            g_tree_p(tree), g_list(m, lambda e: '(%s, %s)' % (g_kpath(e[0]), g_str(e[1])), 'kpath * str'),
            g_str(new), g_nat(len(eff)), g_list(hunks, g_hunk, 'hunk'), g_bool(hdr is not None)))
        self.file_meta.append(dict(task=task, op=op, file=frm, old=old, new=new, hunks=hunks, map=m, n_eff=len(eff),
                                   py_applies=(py == norm_lines(new)) if hdr is not None else None,
                                   diff=f['file_diff'], size=len(old) + len(new), priority=task['name'].startswith('final-newline')))
        ctx.count('refactor', (key, frm), nontrivial=len(m) > 0)

    # ---- apply
    def apply_check(self, task, op, key, res, obs, renames, d_files, announced_ok):
        ctx, kind = self.ctx, op['kind']
        st = res.get('apply')
        self.bump('apply', str(st))
        ctx.count('apply', key, nontrivial=st == 'ok')
        before, after = res['fs_before'], res.get('fs_after')
        if st == 'refused-by-harness':
            ctx.violation('obligation', dict(what='a refactoring wanted to change files outside the scratch project; not applied',
                                             outside=res.get('outside'), input=self.where(task, op)), nofail=True)
            return
        if st == 'exception':
            sg = res['sig']
            ctx.deviation(dict(stream='exc', kind=kind, exc=sg['exc'], site=sg['site'], phase='apply'),
                          self.where(task, op, dict(error=sg)), 'apply() raised %s (%s)' % (sg['exc'], sg['msg']))
            return
        if st in ('RefactoringError', 'ok'):
            self.fs_case(task, op, obs, renames, before, after, refused=(st == 'RefactoringError'))
        if st == 'RefactoringError':
            if all(f['from'] is not None for f in obs['files']):
                ctx.deviation(dict(stream='apply', cls='apply-refused', kind=kind), self.where(task, op, dict(msg=res.get('apply_msg'))),
                              'apply() refused a refactoring of files on disk')
            elif after != before:
                pathless = any(f['from'] is None for f in obs['files']) and \
                    'path=None' in (res.get('apply_msg') or '')
                ctx.deviation(dict(stream='apply', cls='failed-apply-touched-disk', pathless_buffer=pathless),
                              self.where(task, op, dict(msg=res.get('apply_msg'),
                                                        rewritten=sorted(p for p in after if after[p] != before.get(p)))),
                              'apply() raised RefactoringError (%s) after it had already rewritten %d file(s)' % (
                                  res.get('apply_msg'), sum(1 for p in after if after[p] != before.get(p))))
            return
        # expected state: every changed file holds get_new_code() (exact bytes), then the renames
        exp = dict(before)
        encs = task.get('enc') or {}
        for f in obs['files']:
            if f['from'] is None:
                continue
            # the announced content, in the encoding the file declares (and is read with)
            exp[f['from']] = f['new_code'].encode(encs.get(f['from'], 'utf-8')).decode('utf-8', 'surrogateescape')
        exp = {move_rel(p, renames): c for p, c in exp.items()}
        exp_dirs = set()
        for p in exp:
            parts = p.split('/')[:-1]
            for i in range(1, len(parts) + 1):
                exp_dirs.add('/'.join(parts[:i]))
        if after != exp or set(res['dirs_after']) != exp_dirs:
            diffs = sorted(set(after) ^ set(exp)) + sorted(p for p in set(after) & set(exp) if after[p] != exp[p])
            p0 = diffs[0] if diffs else None
            newline_translation = p0 in after and p0 in exp and after[p0].replace('\r\n', '\n').replace('\r', '\n') == \
                exp[p0].replace('\r\n', '\n').replace('\r', '\n')
            declared = encs.get(p0)
            reenc = bool(declared) and p0 in after and any(
                f['from'] == p0 and after[p0] == f['new_code'] for f in obs['files'])
            ctx.deviation(dict(stream='apply', cls='applied-state', only_line_ends=bool(newline_translation),
                               declared_encoding=declared, rewritten_as_utf8=reenc),
                          self.where(task, op, dict(differing=diffs[:6],
                                                    on_disk={p: _bytes_repr(after.get(p)) for p in diffs[:3]},
                                                    announced={p: _bytes_repr(exp.get(p)) for p in diffs[:3]})),
                          'after apply() the directory is not the announced state (differs at %r)' % (diffs[:3],))

    def fs_case(self, task, op, obs, renames, before, after, refused):
        """the FS model on content ids: apply_refactoring(changed, renames, before) vs the directory"""
        ids = {}
        for p, c in sorted(before.items()):
            ids.setdefault(c, len(set(ids.values())) + 1)
        encs = task.get('enc') or {}
        changed = []
        for f in obs['files']:
            if f['from'] is None:
                ids.setdefault(f['new_code'], len(set(ids.values())) + 1)
                changed.append((None, ids[f['new_code']]))
            else:
                # the byte encoding is not part of the FS model (the snapshot oracle compares bytes):
                # the new code in the declared encoding and in UTF-8 get the same content id
                c = f['new_code'].encode(encs.get(f['from'], 'utf-8')).decode('utf-8', 'surrogateescape')
                i = ids.get(c) or ids.get(f['new_code']) or len(set(ids.values())) + 1
                ids[c] = ids[f['new_code']] = i
                changed.append((f['from'], i))
        g_fs = lambda d: g_list(sorted(d.items()), lambda e: '(%s, %s)' % (g_cpath(e[0]), g_N(ids.get(e[1], 999))), 'cpath * N')  # noqa: E731
        self.fs_cases.append('(%s, %s, %s, %s, %s)' % (
            g_list(changed, lambda e: '(%s, %s)' % (g_opt(e[0], g_cpath), g_N(e[1])), 'option cpath * N'),
            g_list(renames, lambda r: '(%s, %s)' % (g_cpath(r[0]), g_cpath(r[1])), 'cpath * cpath'),
            g_fs(before), g_fs(after), g_bool(refused)))
        self.fs_meta.append(dict(task=task, op=op, renames=renames, changed=[c[0] for c in changed], refused=refused))

    # ---- Coq evaluation of everything collected
    def evaluate(self):
        ctx = self.ctx
        # biggest cases first into separate shards would be wasteful: keep order, shard small
        fails, done, wave = [], 0, self.shard * common.NPROC
        while done < len(self.file_cases) and (done == 0 or time.time() < self.deadline):
            f2, err = common.coq_failing(IMPORTS, FILE_FN, self.file_cases[done:done + wave], shard=self.shard, timeout=900)
            if err and '[timeout]' in err:
                # an overloaded machine: one more try for this wave before failing closed
                ctx.stat('coq_wave_retried_after_timeout', True)
                f2, err = common.coq_failing(IMPORTS, FILE_FN, self.file_cases[done:done + wave], shard=self.shard, timeout=1800)
            if err:
                raise RuntimeError('coq evaluation failed (files): ' + err[-1500:])
            fails += [done + i for i in f2]
            done += wave
        done = min(done, len(self.file_cases))
        ctx.stat('coq_file_cases', dict(total=len(self.file_cases), evaluated=done,
                                        chars=sum(len(c) for c in self.file_cases[:done])))
        self.file_meta = self.file_meta[:done]
        self.file_cases = self.file_cases[:done]
        for i in fails[:6]:
            mt = self.file_meta[i]
            detail = common.coq_show(IMPORTS, [
                "let '(t, m, newc, nrepl, hs, has_diff) := %s in (str_eqb (refactor t m) newc, "
                "Nat.eqb (length (filter is_repl (pieces t m []))) nrepl, "
                "if has_diff then diff_ok (get_code t) newc hs else lines_eqb (preamble (get_code t)) (preamble newc))" % self.file_cases[i]])
            mm = re.search(r'=\s*\((\w+),\s*(\w+),\s*(\w+)\)', detail)
            flags = mm.groups() if mm else ('?', '?', '?')
            where = self.where(mt['task'], mt['op'], dict(file=mt['file'], new_code=mt['new'], diff=mt['diff'], coq=flags))
            if flags[2] == 'false' and mt['py_applies'] is not False:
                # the property itself: the diff does not transform old into new
                ctx.deviation(dict(stream='diff', cls='diff-does-not-transform', kind=mt['op']['kind'],
                                   py_applies=mt['py_applies']), where,
                              'the verified applier rejects get_diff(): applied to the old lines it does not give get_new_code()')
            if flags[0] == 'false' or flags[1] == 'false' or flags == ('?', '?', '?'):
                ctx.violation('obligation', dict(what='correspondence refactor: model refactor(tree, captured map) differs from '
                                                      'get_new_code() (the decomposition oracle on the real tree did not object)',
                                                 input=where), nofail=True)
        for i, mt in enumerate(self.file_meta):
            if mt['py_applies'] is False and i not in fails and i < done:
                ctx.violation('obligation', dict(what='harness applier and verified applier disagree', input=mt['diff']), nofail=True)
        fails, err = common.coq_failing(IMPORTS, PATH_FN, self.path_cases, shard=400)
        if err:
            raise RuntimeError('coq evaluation failed (paths): ' + err[-1500:])
        for i in fails[:5]:
            mt = self.path_meta[i]
            ctx.violation('obligation', dict(what='correspondence calc_to_path: announced to_path is not the component-wise rewrite of the model',
                                             input=dict(frm=mt['frm'], renames=mt['renames'], announced=mt['announced'], op=mt['op'])), nofail=True)
        fails, err = common.coq_failing(IMPORTS, REN_FN, self.ren_cases, shard=400)
        if err:
            raise RuntimeError('coq evaluation failed (renames): ' + err[-1500:])
        for i in fails[:5]:
            mt = self.ren_meta[i]
            true = {'mod': ('mod.py', mt['op']['new_name'] + '.py'), 'pkg': ('pkg', mt['op']['new_name']),
                    'sub': ('pkg/sub.py', 'pkg/' + mt['op']['new_name'] + '.py')}[mt['op']['target']]
            if tuple(mt['renames'][0]) != true:
                ctx.deviation(dict(stream='paths', cls='wrong-rename-pair', kind='rename'),
                              self.where(mt['task'], mt['op'], dict(get_renames=mt['renames'], expected=true)),
                              'get_renames() = %r, but renaming %s to %s means %r' % (mt['renames'], mt['op']['target'], mt['op']['new_name'], true))
            else:
                ctx.violation('obligation', dict(what='correspondence calculate_rename', input=dict(op=mt['op'], renames=mt['renames'])), nofail=True)
        fails, err = common.coq_failing(IMPORTS, FS_FN, self.fs_cases, shard=200, defs=FS_DEFS)
        if err:
            raise RuntimeError('coq evaluation failed (fs): ' + err[-1500:])
        for i in fails[:5]:
            mt = self.fs_meta[i]
            ctx.violation('obligation', dict(what='correspondence apply_fs: the FS model and the directory after apply() differ '
                                                  '(the snapshot oracle reports the property-level failure, if any, separately)',
                                             input=dict(op=mt['op'], renames=mt['renames'], changed=mt['changed'])), nofail=True)


# =============================================================================
# building the tasks

STYLES = ['lf', 'crlf', 'mixed', 'cr']


def build_tasks(ctx, root):
    rng = ctx.rng
    tasks = []

    def add(name, files, main, style, multi, nops, use_path=None, code_arg=None, enc=None):
        src = files[main]
        ops = gen_ops(rng, src, nops, multi, NEW_NAMES)
        up = (rng.random() < (0.85 if multi else 0.65)) if use_path is None else use_path
        ca = rng.random() < 0.5 if code_arg is None else code_arg
        tasks.append(dict(idx=len(tasks), name=name, files=files, main=main, style=style, multi=multi,
                          ops=ops, use_path=up, code_arg=ca, enc=enc, root=os.path.join(root, 't%d' % len(tasks))))

    # corpus first (seed-independent sources; positions are seeded)
    for name, src in CORPUS:
        for style in (STYLES if not ctx.quick else ['lf', rng.choice(['crlf', 'mixed', 'cr'])]):
            s2 = restyle(src, style, rng) if style != 'lf' else src
            if rng.random() < 0.3 and s2.endswith(('\n', '\r')):
                s2 = s2.rstrip('\r\n')
            add('corpus:' + name, {'main.py': s2}, 'main.py', style, False, ctx.n(8, 14))
    # fixed family (every run): {old with/without final newline} x {new with/without final newline}.
    # old without / new with: extract_function up to the last `return`, inline of a definition on the
    # last line; no refactoring is known that removes an existing final newline (the endmarker's
    # prefix is kept), that cell is left to the seeded generator.
    fam = [("def f(a):\n    b = a + 1\n    return b",
            [dict(kind='extract_function', line=2, column=4, until_line=3, until_column=12),      # no NL -> NL
             dict(kind='extract_function', line=2, column=0, until_line=3, until_column=12),
             dict(kind='extract_variable', line=3, column=11),                                   # no NL -> no NL
             dict(kind='inline', line=2, column=4), dict(kind='rename', line=1, column=6)]),
           ("def f():\n    return x\nx = 1",
            [dict(kind='inline', line=3, column=0), dict(kind='inline', line=2, column=11),       # no NL -> NL
             dict(kind='rename', line=3, column=0), dict(kind='extract_variable', line=3, column=4)]),
           ("def g():\n    return y * 2\ny = 3  # last",
            [dict(kind='inline', line=3, column=0), dict(kind='extract_function', line=2, column=11, until_line=2, until_column=16)]),
           ("class C:\n    def m(self, a):\n        t = a * 2\n        return t",
            [dict(kind='extract_function', line=3, column=8, until_line=4, until_column=16),      # method, no NL -> NL
             dict(kind='inline', line=3, column=8)]),
           # comments that NAME the renamed identifier and sit in the prefix of one of its occurrences (a comment line
           # right above a statement starting with the name; a trailing comment before the next argument line):
           # a rename must leave them alone (only the name token changes)
           ("# total is the running sum; total starts at 0\ntotal = 0\nfor k in (1, 2):\n    # add k to total\n    total = total + k\n"
            "print(\n    k,  # not total\n    total,\n)",
            [dict(kind='rename', line=2, column=0), dict(kind='rename', line=5, column=12), dict(kind='rename', line=8, column=4),
             dict(kind='inline', line=2, column=0)]),
           ("def scale(value, factor):\n    # value times factor\n    value = value * factor  # value updated\n    # return value\n    return value",
            [dict(kind='rename', line=1, column=10), dict(kind='rename', line=3, column=4), dict(kind='rename', line=5, column=11)])]
    for fi, (src, fops) in enumerate(fam):
        for with_nl in (False, True):
            for style in ('lf', 'crlf'):
                s2 = src + ('\n' if with_nl else '')
                if style == 'crlf':
                    s2 = s2.replace('\n', '\r\n')
                for up in (True, False):
                    ops = [dict(o, new_name='nn', apply=(up and j % 2 == 0)) for j, o in enumerate(fops)]
                    tasks.append(dict(idx=len(tasks), name='final-newline:%d' % fi, files={'main.py': s2}, main='main.py',
                                      style=style, multi=False, ops=ops, use_path=up, code_arg=not up, enc=None,
                                      root=os.path.join(root, 't%d' % len(tasks))))
    # files in a declared source encoding other than UTF-8 (read from disk, always applied)
    for coding, codec in (('latin-1', 'latin-1'), ('cp1252', 'cp1252'), ('utf-8', 'utf-8')):
        src = ('# -*- coding: %s -*-\n# caf\xe9 \xfc\ntitle = "na\xefve"\ncount = 3\n'
               'def show(n):\n    t = title * n  # \xe9\n    return t\nout = show(count) + title\n') % coding
        add('encoding:' + coding, {'main.py': src}, 'main.py', 'lf', False, ctx.n(6, 12), use_path=True, code_arg=False,
            enc={'main.py': codec})
        for o in tasks[-1]['ops']:
            o['apply'] = True
            o['new_name'] = rng.choice(['renamed', 'nn', 'z9', '_q'])   # representable in every codec used
    # the multi-file project, including the aux files as the file under the cursor
    for i in range(ctx.n(10, 60)):
        files = dict(AUX_FILES)
        if rng.random() < 0.6:
            files.update(PREFIX_FILES)
        style = rng.choice(STYLES[:3])
        files = {k: (restyle(v, style, rng) if rng.random() < 0.5 else v) for k, v in files.items()}
        files['main.py'] = files.pop('user.py')
        files['user.py'] = AUX_FILES['user.py']
        main = rng.choice(['main.py', 'main.py', 'pkg/sub.py', 'mod.py', 'pkg2/other.py' if 'pkg2/other.py' in files else 'main.py'])
        add('project', files, main, style, True, ctx.n(8, 12))
    # generated programs
    for i in range(ctx.n(110, 900)):
        multi = rng.random() < 0.3
        g = Gen(rng, rng.random() < 0.4, multi)
        lines = g.program()
        style = rng.choice(['lf', 'lf', 'crlf', 'mixed', 'cr'])
        src = with_endings(lines, rng, style, rng.random() < 0.7)
        files = {'main.py': src}
        if multi:
            files.update(AUX_FILES)
            if rng.random() < 0.5:
                files.update(PREFIX_FILES)
        add('gen', files, 'main.py', style, multi, ctx.n(10, 14))
    return tasks


# fingerprints of the modelled definitions in the tree this check was written against
FP_REFERENCE = {
    "jedi/api/refactoring/__init__.py:ChangedFile.get_diff": "f3f70942fd803166",
    "jedi/api/refactoring/__init__.py:ChangedFile.get_new_code": "03c3242d4ac37ef7",
    "jedi/api/refactoring/__init__.py:ChangedFile.apply": "a3b24727c5b1398a",
    "jedi/api/refactoring/__init__.py:Refactoring.get_changed_files": "5a537b8cb1a82eb8",
    "jedi/api/refactoring/__init__.py:Refactoring.get_renames": "a7b251813a72fbe1",
    "jedi/api/refactoring/__init__.py:Refactoring.get_diff": "e723b1d943217849",
    "jedi/api/refactoring/__init__.py:Refactoring.apply": "555d34c3ea84b1df",
    "jedi/api/refactoring/__init__.py:_calculate_rename": "eea4a8557aff09db",
    "jedi/api/refactoring/__init__.py:rename": "8baeec06e872b54b",
    "jedi/api/refactoring/__init__.py:inline": "f371560427ed5f45",
    "jedi/api/refactoring/__init__.py:_remove_indent_of_prefix": "130dd67fdeae1b70",
    "jedi/api/refactoring/extract.py:extract_variable": "6d7cadb8a0a98e47",
    "jedi/api/refactoring/extract.py:extract_function": "96f343fad8bfb6fc",
    "jedi/api/refactoring/extract.py:_replace": "e8e7727f4020ec15",
    "jedi/api/refactoring/extract.py:_find_nodes": "77ef10bb643bb892",
    "jedi/api/__init__.py:Script.rename": "67a6d9b4d4bd627f",
    "jedi/api/__init__.py:Script.inline": "36ea360a40ef9b05",
    "jedi/api/__init__.py:Script.extract_variable": "c6520c7502ccfc3d",
    "jedi/api/__init__.py:Script.extract_function": "091824bfb8a6e340",
    "jedi/api/helpers.py:validate_line_column": "450bfff697739214"
}


def _reference_fingerprints():
    return FP_REFERENCE


def _task_d(t):
    return _task((t['idx'], t['root'], t['files'], t['main'], t['ops'], t['use_path'], t['code_arg'], t.get('enc')))


def run(ctx):
    import tempfile
    common.setup_jedi(os.path.join(ctx.tmp, 'cache'))
    ctx.proofs()
    ctx.cov['fingerprints'] = common.fingerprint(FP)
    ctx.cov['rule'] = ('fixed corpus (12 sources) x line-end styles + seeded generated programs (single file and a 5-9 file '
                       'project with import mod / from pkg import sub) x seeded positions/ranges (name leaves, expression '
                       'nodes, statement runs, random and out-of-range positions) x {rename, inline, extract_variable, '
                       'extract_function} x {inspect only, apply}; distinct by (source, request); non-trivial = the request '
                       'produced a Refactoring (refactor/diff/outside), was on disk (inspect), was applied (apply), failed (exc)')
    ctx.assumptions += [
        'parso (tokenizer, parser, RefactoringNormalizer) is modelled, not verified: the real tree and the captured '
        'node_to_str_map are serialised into the model and refactor is compared with get_new_code() on every case',
        'difflib is not trusted and not modelled: every produced diff is parsed by the harness and applied by the verified applier',
        'the diff parser, tree serialiser and directory snapshots are harness code (trusted)',
        'get_diff() normalises a missing final newline (documented in the code): the diff relates preamble(old) to preamble(new)',
    ]
    base = '/dev/shm' if os.path.isdir('/dev/shm') and os.access('/dev/shm', os.W_OK) else None
    root = tempfile.mkdtemp(prefix='jv_c07_', dir=base)
    _WORK['cache'] = os.path.join(root, 'cache')
    try:
        t0 = time.time()
        tasks = build_tasks(ctx, os.path.join(root, 'w'))
        ctx.stat('wall_generate', round(time.time() - t0, 1))
        t0 = time.time()
        results = common.pmap(_task_d, tasks, chunksize=1)
        ctx.stat('wall_jedi', round(time.time() - t0, 1))
    finally:
        shutil.rmtree(root, ignore_errors=True)
    t0 = time.time()
    an = Analysis(ctx)
    an.shard = 4
    for t, rs in zip(tasks, results):
        for r in rs:
            an.one(t, r)
    ctx.stat('wall_oracles', round(time.time() - t0, 1))
    # Volume control for the Coq side: the serialised trees are large (a case is ~10 k list
    # elements), so the cases are evaluated in seeded random order in waves of 16 shards until the
    # time budget is used; at least one wave always runs.  The Python oracles above have seen
    # every case.  A changed fingerprint of a modelled function triples the budget.
    order = list(range(len(an.file_cases)))
    ctx.rng.shuffle(order)
    order.sort(key=lambda i: not an.file_meta[i].get('priority'))   # the fixed final-newline family first (stable)
    an.file_cases = [an.file_cases[i] for i in order]
    an.file_meta = [an.file_meta[i] for i in order]
    an.deadline = ctx.t0 + ctx.n(95, 700)
    fp_ref = _reference_fingerprints()
    changed_fp = sorted(k for k, v in ctx.cov['fingerprints'].items() if fp_ref and fp_ref.get(k) not in (None, v))
    ctx.stat('changed_fingerprints', changed_fp)
    if changed_fp:
        an.deadline = ctx.t0 + ctx.n(240, 1500)
    t0 = time.time()
    an.evaluate()
    ctx.stat('wall_coq', round(time.time() - t0, 1))
    for k, v in an.stats.items():
        ctx.stat(k, v)
    # a few written-out cases
    seen = set()
    for mt in an.file_meta:
        k = mt['op']['kind']
        if k not in seen and mt['hunks']:
            seen.add(k)
            ctx.sample(dict(stream='refactor+diff', kind=k, op=mt['op'], file=mt['file'], map=[(p, s) for p, s in mt['map']][:4],
                            diff=mt['diff'][:400]))
    if an.fs_meta:
        ctx.sample(dict(stream='apply', op=an.fs_meta[0]['op'], renames=an.fs_meta[0]['renames'], changed=an.fs_meta[0]['changed']))


def replay(ctx, path):
    rec = json.load(open(path))
    print(json.dumps({k: v for k, v in rec.items() if k not in ('files',)}, indent=1, ensure_ascii=False)[:4000])
    if 'files' not in rec or 'op' not in rec:
        return 0
    import tempfile
    jedi = common.setup_jedi(os.path.join(ctx.tmp, 'cache'))
    root = tempfile.mkdtemp(prefix='jv_c07_replay_')
    try:
        res = run_op(jedi, os.path.join(root, 'op'), rec['files'], rec['main'], rec['op'], rec['use_path'], rec['code_arg'], rec.get('enc'))
    finally:
        shutil.rmtree(root, ignore_errors=True)
    print('--- implementation now:')
    print('outcome:', res['outcome'], res.get('msg') or res.get('sig') or '')
    if res['outcome'] == 'ok':
        obs = res['obs']
        print('get_renames():', obs['renames'])
        print('get_diff():')
        print(obs['diff'])
        for f in obs['files']:
            print('changed file', f['from'], '-> announced', f['to_private'])
            try:
                _, dfs = parse_diff(f['file_diff'])
                hunks = dfs[0]['hunks'] if dfs else []
                out = py_apply(norm_lines(f['old_code']), hunks)
                print('  harness applier: diff transforms old into get_new_code():', out == norm_lines(f['new_code']))
                if 'tree' in f:
                    m = [(k['path'], k['repl']) for k in f['keys'] if k['path'] is not None]
                    case = '(%s, %s, %s, %s)' % (g_tree_p(f['tree']), g_list(m, lambda e: '(%s, %s)' % (g_kpath(e[0]), g_str(e[1])), 'kpath * str'),
                                                 g_str(f['new_code']), g_list(hunks, g_hunk, 'hunk'))
                    print('  model:', common.coq_show(IMPORTS, [
                        "let '(t, m, newc, hs) := %s in (str_eqb (refactor t m) newc, diff_ok (get_code t) newc hs)" % case])[-200:])
            except DiffError as e:
                print('  diff does not parse:', e)
        if 'fs_after' in res:
            print('apply():', res.get('apply'), 'files after:', sorted(res['fs_after']))
    return 0
