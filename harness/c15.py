"""C15 — inference gives up instead of recursing or exploding.

Streams
  limits    constants parsed from /repo with `ast` at run time (recursion.py, syntax_tree.py,
            api/__init__.py) = documented limits (asserted by a generated Coq case); when they
            differ: search for a blow-up input on the scaling families
  direct    the REAL guard objects (ExecutionRecursionDetector, execution_recursion_decorator,
            execution_allowed, _memoize_default, inference_state_method_generator_cache,
            _limit_value_infers) driven with exhaustive-small and random op sequences on fake
            execution / context objects; every decision and counter compared with the model
  queries   infer/goto/complete/get_references/get_signatures on generated cyclic definition
            graphs under a watchdog with the guards wrapped in the worker process: the recorded
            trace must be accepted by the model and satisfy the bounds; never RecursionError
  scaling   chains, diamonds, binary call trees, inheritance chains: node-inference steps
            against the linear bound of infer_cap_linear and a doubling-ratio (polynomial) test
"""
import ast
import json
import math
import os
import signal
import sys
import time
import types

import common
from common import g_bool, g_list, g_opt

IMPORTS = 'From JV Require Import Model.C15_Budget.\nClose Scope N_scope.\n'


# typed constructors for the case files: with the expected type pushed down, coqc elaborates the big
# literals about twice as fast as raw tuples
DEFS = '''
Definition ob (d : option bool) (lv : N) (st : list N) (tot : N) (cts : list (N * N)) : xobs := Some (d, lv, st, tot, cts).
Definition xe (e : xev) (o : xobs) : xev * xobs := (e, o).
Definition xd (e : xev) (b : bool) : xev * bool := (e, b).
Definition se (e : sev) (d : option bool) (l : list N) : sev * option bool * list N := (e, d, l).
Definition sd (e : sev) (d : option bool) : sev * option bool := (e, d).
Definition me (e : mev) (o : mout) : mev * mout := (e, o).
Definition ge (e : gev) (o : gout) : gev * gout := (e, o).
Definition ie (k : N) (b ok : bool) : iev * bool := ((k, b), ok).
Definition ief (k : N) (b ok : bool) (t : list (N * N)) : iev * bool * list (N * N) := ((k, b), ok, t).
Definition lx (L : limits) (tr : list (xev * xobs)) := (L, tr).
Definition li (L : limits) (tr : list (iev * bool)) := (L, tr).
Definition lif (L : limits) (tr : list (iev * bool * list (N * N))) := (L, tr).
Definition qcase (L : limits) (xs : list (list (xev * bool))) (ss : list (list (sev * option bool)))
  (m : list (mev * mout)) (i : list (iev * bool)) := (L, xs, ss, m, i).
'''


def coqf(fn, cases, **kw):
    """common.coq_failing with every case read in N scope (the result printer of common expects
    N_scope closed, the model file opens it)."""
    return common.coq_failing(IMPORTS, fn, ['(%s)%%N' % c for c in cases], defs=DEFS, **kw)


class Jobs:
    """Coq evaluations are collected while the inputs are generated (one PRNG, sequential) and
    evaluated concurrently at the end."""
    def __init__(self):
        self.jobs = []

    def add(self, name, fn, cases, shard, on_fail, timeout=1500):
        self.jobs.append((name, fn, cases, shard, on_fail, timeout))

    def run(self, ctx):
        from concurrent.futures import ThreadPoolExecutor

        def one(j):
            t = time.time()
            fails, err = coqf(j[1], j[2], shard=j[3], timeout=j[5])
            return j, fails, err, time.time() - t
        with ThreadPoolExecutor(max_workers=2) as ex:
            res = list(ex.map(one, self.jobs))
        ok, errors = True, []
        for j, fails, err, dt in res:
            ctx.stat('coq_' + j[0], dict(cases=len(j[2]), kb=sum(len(c) for c in j[2]) // 1024, wall=round(dt, 1),
                                         failing=len(fails or [])))
            if err:
                errors.append('coq evaluation failed (%s): %s' % (j[0], err))
            if fails:
                ok = False
                j[4](fails)
        if errors:
            raise RuntimeError('; '.join(errors)[:3000])
        self.jobs = []
        return ok

FP = [('jedi/inference/recursion.py', 'execution_allowed'),
      ('jedi/inference/recursion.py', 'execution_recursion_decorator'),
      ('jedi/inference/recursion.py', 'ExecutionRecursionDetector.push_execution'),
      ('jedi/inference/recursion.py', 'ExecutionRecursionDetector.pop_execution'),
      ('jedi/inference/cache.py', '_memoize_default'),
      ('jedi/inference/cache.py', 'inference_state_method_generator_cache'),
      ('jedi/inference/syntax_tree.py', '_limit_value_infers'),
      ('jedi/inference/__init__.py', 'InferenceState.reset_recursion_limitations')]

# normalised-AST fingerprints of the modelled definitions on the tree the model was transcribed from;
# a different fingerprint raises no alarm, it switches the direct streams to thorough volume
BASE_FP = {
    "jedi/inference/recursion.py:execution_allowed": "60b71c1bb8abe0ed",
    "jedi/inference/recursion.py:execution_recursion_decorator": "6c60662bd3c25cfa",
    "jedi/inference/recursion.py:ExecutionRecursionDetector.push_execution": "ea18b6b3c384b587",
    "jedi/inference/recursion.py:ExecutionRecursionDetector.pop_execution": "5b1a2a0697938e18",
    "jedi/inference/cache.py:_memoize_default": "e989747e3942b7cd",
    "jedi/inference/cache.py:inference_state_method_generator_cache": "fa48ad6ec2c9c42f",
    "jedi/inference/syntax_tree.py:_limit_value_infers": "0dd1c0f57e49670a",
    "jedi/inference/__init__.py:InferenceState.reset_recursion_limitations": "beb0afd7c566cf14",
}

DOCUMENTED = dict(recursion_limit=15, total_function_execution_limit=200, per_function_execution_limit=6,
                  per_function_recursion_limit=2, infer_cap=300, builtin_mult=100, setrecursionlimit=3000)
LNAMES = ['recursion_limit', 'total_function_execution_limit', 'per_function_execution_limit',
          'per_function_recursion_limit', 'infer_cap', 'builtin_mult']


def gN(i):
    return str(int(i))


def g_limits(L):
    return '(mkLimits %s)' % ' '.join(gN(L[k]) for k in LNAMES)


# =============================================================================
# limits read from the sources
def read_limits():
    """Parse the constants out of /repo with ast. Missing -> None."""
    out = dict.fromkeys(list(DOCUMENTED), None)
    notes = []
    rp = os.path.join(common.REPO, 'jedi/inference/recursion.py')
    tree = ast.parse(open(rp, encoding='utf8').read())
    for node in tree.body:
        if isinstance(node, ast.Assign) and len(node.targets) == 1 and isinstance(node.targets[0], ast.Name):
            nm = node.targets[0].id
            if nm in out and isinstance(node.value, ast.Constant) and isinstance(node.value.value, int):
                out[nm] = node.value.value
    sp = os.path.join(common.REPO, 'jedi/inference/syntax_tree.py')
    tree = ast.parse(open(sp, encoding='utf8').read())
    fn = next((n for n in tree.body if isinstance(n, ast.FunctionDef) and n.name == '_limit_value_infers'), None)
    if fn is None:
        notes.append('_limit_value_infers not found in syntax_tree.py')
    else:
        for n in ast.walk(fn):
            if isinstance(n, ast.Assign) and len(n.targets) == 1 and isinstance(n.targets[0], ast.Name) \
                    and n.targets[0].id == 'maximum' and isinstance(n.value, ast.Constant):
                out['infer_cap'] = n.value.value
            if isinstance(n, ast.AugAssign) and isinstance(n.target, ast.Name) and n.target.id == 'maximum' \
                    and isinstance(n.op, ast.Mult) and isinstance(n.value, ast.Constant):
                out['builtin_mult'] = n.value.value
        deco = {}
        for n in tree.body:
            if isinstance(n, ast.FunctionDef):
                deco[n.name] = [ast.unparse(d) for d in n.decorator_list]
        for f in ('_infer_node', 'infer_expr_stmt'):
            if '_limit_value_infers' not in deco.get(f, []):
                notes.append('%s is not decorated with _limit_value_infers' % f)
    ap = os.path.join(common.REPO, 'jedi/api/__init__.py')
    tree = ast.parse(open(ap, encoding='utf8').read())
    for n in ast.walk(tree):
        if isinstance(n, ast.Call) and isinstance(n.func, ast.Attribute) and n.func.attr == 'setrecursionlimit' \
                and n.args and isinstance(n.args[0], ast.Constant):
            out['setrecursionlimit'] = n.args[0].value
    return out, notes


def model_limits(src):
    """The limits handed to the model: the source values (documented ones where absent)."""
    return {k: (src[k] if isinstance(src.get(k), int) and src[k] >= 0 else DOCUMENTED[k]) for k in LNAMES}


# =============================================================================
# tracing the real guards (used in worker processes and in-process)
class Trace:
    def __init__(self):
        self.reset()
        self.measure_depth = False
        self.fn_index = {}       # memoized function -> idx
        self.fn_info = {}        # idx -> (qualname, kind, default id or None)
        self.known_fns = {}      # function -> (kind, default)
        self.missing = []

    def reset(self):
        self.exec = []           # (det idx, 'push', fid, isb, ist, r) | (det idx, 'pop')
        self.stmt = []           # (det idx, 'enter', nid, allowed) | (det idx, 'exit')
        self.memo = []           # raw dict ops ('in', f, k, bool) ('get', f, k, vid) ('set', f, k, vid)
        self.infer = []          # ('g', nid, value|-1, isb) ('s', nid, value) ('e', nid)
        self.resets = 0
        self._ids = {}           # id(obj) -> small int  (objects kept alive)
        self._keep = []
        self._keys = {}          # per function: key -> idx
        self.steps = 0           # entries of the raw _infer_node / infer_expr_stmt bodies
        self.maxdepth = 0        # deepest Python stack seen at an inference step (if measure_depth)

    def oid(self, obj):
        i = self._ids.get(id(obj))
        if i is None:
            i = len(self._ids) + 1
            self._ids[id(obj)] = i
            self._keep.append(obj)
        return i

    def fidx(self, function):
        i = self.fn_index.get(function)
        if i is None:
            i = len(self.fn_index)
            self.fn_index[function] = i
            kind, has_default, default = self.known_fns.get(function, ('unknown', False, None))
            self.fn_info[i] = (getattr(function, '__module__', '?') + '.' + getattr(function, '__qualname__', '?'),
                               kind, has_default, default)
        return i

    def kidx(self, f, key):
        d = self._keys.setdefault(f, {})
        i = d.get(key)
        if i is None:
            i = len(d)
            d[key] = i
        return i


_T = None


def _cells(fn):
    out = {}
    for name, c in zip(fn.__code__.co_freevars, fn.__closure__ or ()):
        try:
            out[name] = c
        except ValueError:
            pass
    return out


def _scan_memoized(T):
    """Find every function decorated by cache._memoize_default / the generator cache:
    wrapper closures living in jedi/inference/cache.py with a free variable `function`."""
    from jedi.inference import cache as jcache
    seen = set()

    def scan(obj, depth=0):
        if depth > 6 or id(obj) in seen:
            return
        seen.add(id(obj))
        if isinstance(obj, (staticmethod, classmethod)):
            obj = obj.__func__
        if isinstance(obj, property):
            for f in (obj.fget, obj.fset, obj.fdel):
                if f is not None:
                    scan(f, depth + 1)
            return
        if not isinstance(obj, types.FunctionType):
            f = getattr(obj, '__wrapped__', None) or getattr(obj, 'func', None)
            if isinstance(f, types.FunctionType):
                scan(f, depth + 1)
            return
        cells = {}
        for name, c in _cells(obj).items():
            try:
                cells[name] = c.cell_contents
            except ValueError:
                pass
        if obj.__code__.co_filename.endswith(os.path.join('inference', 'cache.py')) and 'function' in cells:
            if 'default' in cells:
                d = cells['default']
                T.known_fns[cells['function']] = ('memo', d is not jcache._NO_DEFAULT, d)
            else:
                T.known_fns[cells['function']] = ('gen', False, None)
        for v in cells.values():
            scan(v, depth + 1)
        w = getattr(obj, '__wrapped__', None)
        if w is not None:
            scan(w, depth + 1)

    for mname, mod in list(sys.modules.items()):
        if not (mname == 'jedi' or mname.startswith('jedi.')) or mod is None:
            continue
        for v in list(vars(mod).values()):
            if isinstance(v, type):
                for v2 in list(vars(v).values()):
                    scan(v2)
                for v2 in list(vars(type(v)).values()) if type(v) is not type else ():
                    scan(v2)
            scan(v)


def install_tracers():
    """Wrap the four guards in THIS process (no change to /repo). Idempotent."""
    global _T
    if _T is not None:
        return _T
    import jedi  # noqa
    from jedi.inference import recursion, syntax_tree
    import jedi.inference as jinf
    T = _T = Trace()
    _scan_memoized(T)
    dets = {}

    def det_idx(det):
        i = dets.get(id(det))
        if i is None:
            i = len(dets)
            dets[id(det)] = i
            T._keep.append(det)
        return i

    # ---- execution detector
    ERD = recursion.ExecutionRecursionDetector
    orig_push, orig_pop = ERD.push_execution, ERD.pop_execution

    def push_execution(self, execution):
        r = orig_push(self, execution)
        try:
            root = execution.get_root_context()
            isb = bool(root.is_builtins_module())
            ist = (not isb) and root.py__name__() == 'typing'
        except Exception:
            isb, ist = False, False
        T.exec.append((det_idx(self), 'push', T.oid(execution.tree_node), isb, ist, bool(r)))
        return r

    def pop_execution(self):
        r = orig_pop(self)
        T.exec.append((det_idx(self), 'pop'))
        return r

    ERD.push_execution, ERD.pop_execution = push_execution, pop_execution

    # ---- statement guard
    from contextlib import contextmanager
    orig_allowed = recursion.execution_allowed

    @contextmanager
    def execution_allowed(inference_state, node):
        d = det_idx(inference_state.recursion_detector)
        with orig_allowed(inference_state, node) as allowed:
            T.stmt.append((d, 'enter', T.oid(node), bool(allowed)))
            try:
                yield allowed
            finally:
                T.stmt.append((d, 'exit'))

    for mname, mod in list(sys.modules.items()):
        if (mname == 'jedi' or mname.startswith('jedi.')) and mod is not None \
                and getattr(mod, 'execution_allowed', None) is orig_allowed:
            mod.execution_allowed = execution_allowed

    # ---- memoize: instrumented dicts in inference_state.memoize_cache
    class TracingMemo(dict):
        __slots__ = ('f',)

        def __contains__(self, key):
            r = dict.__contains__(self, key)
            T.memo.append(('in', self.f, T.kidx(self.f, key), r))
            return r

        def __getitem__(self, key):
            v = dict.__getitem__(self, key)
            T.memo.append(('get', self.f, T.kidx(self.f, key), T.oid(v)))
            return v

        def __setitem__(self, key, v):
            dict.__setitem__(self, key, v)
            T.memo.append(('set', self.f, T.kidx(self.f, key), T.oid(v)))

    class TracingCache(dict):
        def __getitem__(self, function):
            try:
                return dict.__getitem__(self, function)
            except KeyError:
                m = TracingMemo()
                m.f = T.fidx(function)
                dict.__setitem__(self, function, m)
                return m

    # ---- per-scope inference cap: instrumented counter dict + entry probe in the closure
    builtins_fn = [f for f in T.known_fns if getattr(f, '__qualname__', '') == 'InferenceState.builtins_module']

    class TracingCounts(dict):
        def __getitem__(self, n):
            isb = False
            try:
                ctx = sys._getframe(1).f_locals.get('context')
                if ctx is not None and ctx.parent_context is None and builtins_fn:
                    ist = ctx.inference_state
                    memo = dict.get(ist.memoize_cache, builtins_fn[0])
                    if memo:
                        bm = dict.get(memo, (ist, (), frozenset()))
                        isb = bm is not None and ctx.get_value() is bm
            except Exception:
                isb = False
            try:
                v = dict.__getitem__(self, n)
            except KeyError:
                T.infer.append(('g', T.oid(n), -1, isb))
                raise
            T.infer.append(('g', T.oid(n), v, isb))
            return v

        def __setitem__(self, n, v):
            dict.__setitem__(self, n, v)
            T.infer.append(('s', T.oid(n), v))

    def find_limit_wrapper(fn, depth=0):
        if fn is None or depth > 5 or not isinstance(fn, types.FunctionType):
            return None
        if fn.__qualname__.startswith('_limit_value_infers'):
            return fn
        for c in (fn.__closure__ or ()):
            try:
                r = find_limit_wrapper(c.cell_contents, depth + 1)
            except ValueError:
                r = None
            if r is not None:
                return r
        return None

    T.limit_wrappers = {}
    for name in ('_infer_node', 'infer_expr_stmt'):
        w = find_limit_wrapper(getattr(syntax_tree, name, None))
        if w is None:
            T.missing.append('_limit_value_infers wrapper of %s' % name)
            # still count steps: wrap the module attribute
            raw = getattr(syntax_tree, name, None)
            if raw is not None:
                def counting(*a, __raw=raw, **kw):
                    T.steps += 1
                    return __raw(*a, **kw)
                setattr(syntax_tree, name, counting)
            continue
        cell = _cells(w).get('func')
        raw = cell.cell_contents

        def probe(context, *a, __raw=raw, **kw):
            T.steps += 1
            T.infer.append(('e', T.oid(context.tree_node)))
            if T.measure_depth:
                d, f = 0, sys._getframe()
                while f is not None:
                    d += 1
                    f = f.f_back
                if d > T.maxdepth:
                    T.maxdepth = d
            return __raw(context, *a, **kw)
        cell.cell_contents = probe
        T.limit_wrappers[name] = w

    IS = jinf.InferenceState
    orig_init = IS.__init__
    orig_reset = IS.reset_recursion_limitations

    def __init__(self, *a, **kw):
        orig_init(self, *a, **kw)
        if type(self.memoize_cache) is dict and not self.memoize_cache:
            self.memoize_cache = TracingCache()
        if type(self.inferred_element_counts) is dict and not self.inferred_element_counts:
            self.inferred_element_counts = TracingCounts()

    def reset_recursion_limitations(self):
        T.resets += 1
        return orig_reset(self)

    IS.__init__ = __init__
    IS.reset_recursion_limitations = reset_recursion_limitations
    return T


class Watchdog(BaseException):
    pass


def _alarm(signum, frame):
    raise Watchdog()


def traced_query(T, src, path, query, line, col, project_dir, timeout=30, want_trace=True):
    """One public-API query on a fresh Script with the guards traced; a watchdog alarm."""
    import jedi
    T.reset()
    out = dict(ok=True)
    signal.signal(signal.SIGALRM, _alarm)
    # re-fires every 2 s: an alarm that lands inside a __del__ or an `except BaseException` is swallowed
    signal.setitimer(signal.ITIMER_REAL, float(timeout), 2.0)
    t0 = time.time()
    try:
        kw = {}
        if project_dir:
            kw['project'] = jedi.Project(project_dir, load_unsafe_extensions=False)
        s = jedi.Script(src, path=path, **kw)
        if query == 'get_references':
            res = s.get_references(line, col)
        else:
            res = getattr(s, query)(line, col)
        out['res'] = len(res)
        if query != 'get_signatures':
            for d in res[:20]:   # touching results triggers more (lazy) inference
                d.type
    except Watchdog:
        out.update(ok=False, hang=True, sig=dict(exc='Watchdog', site=None, msg='no answer within %ds' % timeout, frames=[]))
    except BaseException as e:   # noqa
        sig = common.exc_sig(e)
        if isinstance(e, RecursionError):
            import traceback
            names = [fr.name for fr in traceback.extract_tb(e.__traceback__)]
            tail = names[-200:]
            rep = max(set(tail), key=tail.count) if tail else None
            files = [os.path.basename(fr.filename) for fr in traceback.extract_tb(e.__traceback__)][-200:]
            repf = max(set(files), key=files.count) if files else None
            sig['repeating'] = '%s:%s' % (repf, rep)
        out.update(ok=False, hang=False, sig=sig)
    finally:
        while True:
            try:
                signal.setitimer(signal.ITIMER_REAL, 0)
                break
            except Watchdog:
                continue
    out['wall'] = round(time.time() - t0, 3)
    out['reclimit'] = sys.getrecursionlimit()
    out['steps'] = T.steps
    out['maxdepth'] = T.maxdepth
    out['resets'] = T.resets
    out['missing'] = list(T.missing)
    out['n'] = dict(exec=len(T.exec), stmt=len(T.stmt), memo=len(T.memo), infer=len(T.infer))
    if want_trace:
        out['exec'], out['stmt'], out['memo'], out['infer'] = T.exec, T.stmt, T.memo, T.infer
        fi = {}
        for i, (qn, kind, has_default, default) in T.fn_info.items():
            fi[i] = (qn, kind, T.oid(default) if has_default else None)
        out['fn_info'] = fi
    return out


# =============================================================================
# recorded trace -> model events (Gallina) + the bounds checked directly (python oracle)
MAXEV = 4000   # events per guard and query handed to Coq (a prefix of a trace is a trace)


def g_exec(f, b, t):
    return '(mkExec %d %s %s)' % (f, g_bool(b), g_bool(t))


def convert_exec(events, D=DOCUMENTED):
    """-> (list of per-detector Gallina traces, problems, stats)"""
    per = {}
    for e in events:
        per.setdefault(e[0], []).append(e)
    traces, problems = [], []
    st = dict(pushes=0, accepted=0, refused=0, maxdepth=0, dets=len(per))
    for d, evs in sorted(per.items()):
        ids, items, stack = {}, [], []
        total_acc, per_f = 0, {}
        for e in evs:
            if e[1] == 'push':
                _, _, fid, isb, ist, r = e
                f = ids.setdefault(fid, len(ids))
                items.append('(xd (XPush %s) %s)' % (g_exec(f, isb, ist), g_bool(r)))
                st['pushes'] += 1
                st['refused' if r else 'accepted'] += 1
                stack.append((f, isb, ist, r))
                if not r and not isb:
                    total_acc += 1
                    if not ist:
                        per_f[f] = per_f.get(f, 0) + 1
                acc_stack = [x for x in stack if not x[3] and not x[1]]
                st['maxdepth'] = max(st['maxdepth'], len(acc_stack))
                if not r and not isb and not ist:
                    k = sum(1 for x in acc_stack if x[0] == f and not x[2])
                    st['max_same_def'] = max(st.get('max_same_def', 0), k)
            else:
                items.append('(xd XPop false)')
                if stack:
                    stack.pop()
                else:
                    problems.append('pop_execution on an empty stack (trace not well bracketed)')
        if total_acc > D['total_function_execution_limit']:
            problems.append('%d accepted non-builtin executions > %d' % (total_acc, D['total_function_execution_limit']))
        worst = max(per_f.values()) if per_f else 0
        if worst > D['per_function_execution_limit']:
            problems.append('a definition was executed %d times > %d' % (worst, D['per_function_execution_limit']))
        traces.append(g_list(items[:MAXEV], str, 'xev * bool'))
    if st['maxdepth'] > D['recursion_limit']:
        problems.append('nesting depth of accepted executions %d > %d' % (st['maxdepth'], D['recursion_limit']))
    if st.get('max_same_def', 0) > D['per_function_recursion_limit']:
        problems.append('a definition is %d times on the stack of accepted executions (> %d)'
                        % (st['max_same_def'], D['per_function_recursion_limit']))
    return traces, sorted(set(problems)), st


def convert_stmt(events):
    per = {}
    for e in events:
        per.setdefault(e[0], []).append(e)
    traces, problems = [], []
    st = dict(enters=0, refused=0, maxdepth=0)
    for d, evs in sorted(per.items()):
        ids, items, active, frames = {}, [], [], []
        for e in evs:
            if e[1] == 'enter':
                n = ids.setdefault(e[2], len(ids))
                items.append('(sd (SEnter %d) (Some %s))' % (n, g_bool(e[3])))
                st['enters'] += 1
                if e[3]:
                    if n in active:
                        problems.append('a statement was allowed although it is already being executed (duplicate on the statement stack)')
                    active.append(n)
                    st['maxdepth'] = max(st['maxdepth'], len(active))
                else:
                    st['refused'] += 1
                frames.append(e[3])
            else:
                items.append('(sd SExit None)')
                if frames and frames.pop():
                    active.pop()
        traces.append(g_list(items[:MAXEV], str, 'sev * option bool'))
    return traces, sorted(set(problems)), st


def convert_memo(ops, fn_info):
    """Raw dict operations of the memo tables -> MCall / MStore events with outcomes."""
    items, problems = [], []
    keys, enters = {}, {}
    st = dict(calls=0, hits=0, enters=0, default_hits=0, unknown_fn=0, late_default=0, odd=0)
    i, n = 0, len(ops)

    def info(f):
        v = fn_info.get(f) or fn_info.get(str(f))
        return v if v else ('?', 'unknown', None)

    while i < n:
        op = ops[i]
        kind = info(op[1])[1]
        if kind != 'memo':
            if kind == 'unknown':
                st['unknown_fn'] += 1
                nm = info(op[1])[0]
                if nm not in st.setdefault('unknown_names', []) and len(st['unknown_names']) < 5:
                    st['unknown_names'].append(nm)
            i += 1
            continue
        d = info(op[1])[2]
        K = keys.setdefault((op[1], op[2]), len(keys))
        gd = 'None' if d is None else '(Some %d)' % d
        if op[0] == 'in' and not op[3]:
            st['calls'] += 1
            st['enters'] += 1
            enters[K] = enters.get(K, 0) + 1
            if d is not None and enters[K] > 1:
                problems.append('the body of a memoized function with a default was entered %d times for one key (%s)'
                                % (enters[K], info(op[1])[0]))
            items.append('(me (MCall %d %s) MEnter)' % (K, gd))
            if d is not None:
                if i + 1 < n and ops[i + 1][0] == 'set' and ops[i + 1][1] == op[1] and ops[i + 1][2] == op[2] \
                        and ops[i + 1][3] == d:
                    i += 1     # the default store belongs to the call
                else:
                    st['late_default'] += 1
        elif op[0] == 'in' and op[3]:
            st['calls'] += 1
            if i + 1 < n and ops[i + 1][0] == 'get' and ops[i + 1][1] == op[1] and ops[i + 1][2] == op[2]:
                v = ops[i + 1][3]
                st['hits'] += 1
                if d is not None and v == d:
                    st['default_hits'] += 1
                items.append('(me (MCall %d %s) (MHit %d))' % (K, gd, v))
                i += 1
            else:
                st['odd'] += 1
        elif op[0] == 'set':
            items.append('(me (MStore %d %d) MStored)' % (K, op[3]))
        else:
            st['odd'] += 1
        i += 1
    return g_list(items[:MAXEV], str, 'mev * mout'), sorted(set(problems)), st


def convert_infer(ops, D=DOCUMENTED):
    items, problems = [], []
    ids, acc, flags = {}, {}, {}
    st = dict(calls=0, accepted=0, refused=0, scopes=0, unparsed=0, max_per_scope=0)
    i, n = 0, len(ops)
    while i < n:
        op = ops[i]
        if op[0] != 'g':
            if op[0] == 'e':
                st['unparsed'] += 1      # a body entry without a guard consultation
            i += 1
            continue
        nid, isb = op[1], bool(op[3])
        j = None
        if op[2] == -1:
            if i + 1 < n and ops[i + 1][0] == 's' and ops[i + 1][1] == nid and ops[i + 1][2] == 1:
                j = i + 2
        else:
            c = op[2]
            if i + 2 < n and ops[i + 1][0] == 's' and ops[i + 1][1] == nid and ops[i + 1][2] == c + 1 \
                    and ops[i + 2][0] == 'g' and ops[i + 2][1] == nid and ops[i + 2][2] == c + 1:
                j = i + 3
        if j is None:
            st['unparsed'] += 1
            i += 1
            continue
        ok = j < n and ops[j][0] == 'e' and ops[j][1] == nid
        k = ids.setdefault(nid, len(ids))
        flags[k] = flags.get(k, False) or isb
        st['calls'] += 1
        if ok:
            st['accepted'] += 1
            acc[k] = acc.get(k, 0) + 1
            j += 1
        else:
            st['refused'] += 1
        items.append('(ie %d %s %s)' % (k, g_bool(isb), g_bool(ok)))
        i = j
    st['scopes'] = len(ids)
    bound = 0
    for k in ids.values():
        cap = D['infer_cap'] * (D['builtin_mult'] if flags.get(k) else 1)
        bound += cap
        a = acc.get(k, 0)
        st['max_per_scope'] = max(st['max_per_scope'], a)
        if a > cap:
            problems.append('%d node inferences were accepted in one scope (> %d)' % (a, cap))
    if st['accepted'] > bound:
        problems.append('%d accepted node inferences > %d (linear bound)' % (st['accepted'], bound))
    return g_list(items[:MAXEV], str, 'iev * bool'), sorted(set(problems)), st


QUERY_FN = ("(fun c => let '(L, xs, ss, m, i) := c in "
            "forallb (xcheck_dec L edet_reset) xs && forallb (scheck_dec sreset) ss && mcheck [] m && icheck L [] i)")
PART_FNS = dict(
    exec="(fun c => let '(L, xs, ss, m, i) := c in forallb (xcheck_dec L edet_reset) xs)",
    stmt="(fun c => let '(L, xs, ss, m, i) := c in forallb (scheck_dec sreset) ss)",
    memo="(fun c => let '(L, xs, ss, m, i) := c in mcheck [] m)",
    infer="(fun c => let '(L, xs, ss, m, i) := c in icheck L [] i)")


def digest_query(r, L):
    """Worker side: turn a traced query result into (summary, Gallina case)."""
    xs, p1, s1 = convert_exec(r['exec'])
    ss, p2, s2 = convert_stmt(r['stmt'])
    m, p3, s3 = convert_memo(r['memo'], r['fn_info'])
    it, p4, s4 = convert_infer(r['infer'])
    case = '(qcase %s %s %s %s %s)' % (g_limits(L), g_list(xs, str, 'list (xev * bool)'),
                                       g_list(ss, str, 'list (sev * option bool)'), m, it)
    out = {k: r[k] for k in ('ok', 'wall', 'reclimit', 'steps', 'maxdepth', 'resets', 'missing', 'n') if k in r}
    for k in ('res', 'sig', 'hang'):
        if k in r:
            out[k] = r[k]
    out.update(problems=p1 + p2 + p3 + p4, st=dict(exec=s1, stmt=s2, memo=s3, infer=s4), case=case)
    return out


# =============================================================================
# a small process pool that survives crashing / hanging workers
def run_pool(tasks, fn, tmpdir, per_task=40, nproc=common.NPROC, tag='p'):
    results = [None] * len(tasks)
    pending = list(range(len(tasks)))
    rnd = 0
    while pending and rnd < 3:
        chunks = [pending[i::nproc] for i in range(nproc)]
        procs = []
        for ci, ch in enumerate(chunks):
            if not ch:
                continue
            path = os.path.join(tmpdir, 'res_%s_%d_%d.jsonl' % (tag, rnd, ci))
            pid = os.fork()
            if pid == 0:
                code = 0
                try:
                    with open(path, 'w') as f:
                        for ti in ch:
                            f.write(json.dumps(['start', ti]) + '\n')
                            f.flush()
                            r = fn(tasks[ti])
                            f.write(json.dumps(['done', ti, r]) + '\n')
                            f.flush()
                except BaseException:   # noqa
                    code = 1
                finally:
                    os._exit(code)
            procs.append((pid, path, ch))
        deadline = time.time() + per_task * max(len(c) for c in chunks) + 20
        for pid, path, ch in procs:
            while True:
                try:
                    wpid, _ = os.waitpid(pid, os.WNOHANG)
                except ChildProcessError:
                    break
                if wpid:
                    break
                if time.time() > deadline:
                    try:
                        os.kill(pid, signal.SIGKILL)
                    except ProcessLookupError:
                        pass
                    os.waitpid(pid, 0)
                    break
                time.sleep(0.02)
        for pid, path, ch in procs:
            started = None
            try:
                for line in open(path):
                    try:
                        rec = json.loads(line)
                    except ValueError:
                        continue
                    if rec[0] == 'start':
                        started = rec[1]
                    elif rec[0] == 'done':
                        results[rec[1]] = rec[2]
                        started = None
            except FileNotFoundError:
                pass
            if started is not None and results[started] is None:
                results[started] = dict(ok=False, crashed=True, hang=True,
                                        sig=dict(exc='WorkerDied', site=None, msg='worker process died or hung', frames=[]))
        pending = [i for i in pending if results[i] is None]
        rnd += 1
    for i in pending:
        results[i] = dict(ok=False, crashed=True, hang=True,
                          sig=dict(exc='WorkerDied', site=None, msg='not executed', frames=[]))
    return results


# =============================================================================
# stream `direct`: the real guard objects against the model
class _Root:
    def __init__(self, isb, name):
        self.isb, self.name = isb, name

    def is_builtins_module(self):
        return self.isb

    def py__name__(self):
        return self.name


class _Node:
    """stands for a parso node (identity equality, hashable)"""
    __slots__ = ('i',)

    def __init__(self, i):
        self.i = i


class _State:
    """stands for an InferenceState as far as the guards read it"""
    def __init__(self):
        from jedi.inference import recursion
        self.memoize_cache = {}
        self.inferred_element_counts = {}
        self.builtins_module = object()
        self.recursion_detector = recursion.RecursionDetector()
        self.execution_recursion_detector = recursion.ExecutionRecursionDetector(self)


class _Exec:
    def __init__(self, state, fdef, plan=None):
        self.inference_state = state
        self.tree_node = fdef[0]
        self._root = _Root(fdef[1], 'typing' if fdef[2] else 'mod')
        self.plan = plan

    def get_root_context(self):
        return self._root


class _Boom(Exception):
    pass


def _det_obs(det, idx):
    return (det._recursion_level, [idx[n] for n in det._parent_execution_funcs], det._execution_count,
            [(idx[k], v) for k, v in det._funcdef_execution_counts.items()])


def g_pairs(ps):
    return g_list(ps, lambda p: '(%d, %d)' % (p[0], p[1]), 'N * N')


def g_nlist(xs):
    return g_list(xs, gN, 'N')


def g_xobs(dec, ob):
    if ob is None:
        return 'None'
    lv, st, tot, cts = ob
    return '(ob %s %d %s %d %s)' % (g_opt(dec, g_bool), lv, g_nlist(st), tot, g_pairs(cts))


class _patched_limits:
    def __init__(self, L):
        self.L = L

    def __enter__(self):
        from jedi.inference import recursion
        self.old = {k: getattr(recursion, k) for k in LNAMES[:4]}
        for k in LNAMES[:4]:
            setattr(recursion, k, self.L[k])

    def __exit__(self, *a):
        from jedi.inference import recursion
        for k, v in self.old.items():
            setattr(recursion, k, v)


def _drive_detector(ops, fdefs, L):
    """ops: list of ('push', i) | ('pop',). Returns the Gallina case (L, [(ev, obs)])."""
    from jedi.inference import recursion
    state = _State()
    det = recursion.ExecutionRecursionDetector(state)
    idx = {fd[0]: i for i, fd in enumerate(fdefs)}
    items, nref = [], 0
    for op in ops:
        if op[0] == 'push':
            fd = fdefs[op[1]]
            r = det.push_execution(_Exec(state, fd))
            if r not in (True, False):
                raise AssertionError('push_execution returned %r' % (r,))
            nref += bool(r)
            items.append('(xe (XPush %s) %s)' % (g_exec(op[1], fd[1], fd[2]), g_xobs(bool(r), _det_obs(det, idx))))
        else:
            try:
                det.pop_execution()
                items.append('(xe XPop %s)' % g_xobs(None, _det_obs(det, idx)))
            except IndexError:
                items.append('(xe XPop None)')
    return '(lx %s %s)' % (g_limits(L), g_list(items, str, 'xev * xobs')), nref


def _small_L(L, rl, tot, per, rec):
    d = dict(L)
    d.update(recursion_limit=rl, total_function_execution_limit=tot, per_function_execution_limit=per,
             per_function_recursion_limit=rec)
    return d


def direct_exec(ctx, L):
    import itertools
    cases, keys = [], []
    stats = dict(refused=0, pushes=0)
    # (a) exhaustive small scope under small (patched) limits
    fd4 = [(_Node(0), False, False), (_Node(1), False, False), (_Node(2), True, False), (_Node(3), False, True)]
    alpha5 = [('push', 0), ('push', 1), ('push', 2), ('push', 3), ('pop',)]
    alpha3 = [('push', 0), ('push', 3), ('pop',)]
    for sm, k, alpha in (((2, 3, 2, 1), ctx.n(4, 5), alpha5), ((3, 2, 1, 2), ctx.n(4, 5), alpha5),
                         ((2, 4, 1, 1), ctx.n(6, 7), alpha3)):
        Ls = _small_L(L, *sm)
        with _patched_limits(Ls):
            for seq in itertools.product(alpha, repeat=k):
                c, nref = _drive_detector(seq, fd4, Ls)
                cases.append(c)
                keys.append(('exh', sm, seq))
                stats['refused'] += nref
                stats['pushes'] += sum(1 for o in seq if o[0] == 'push')
    # (b) long random walks under the real limits
    for ci in range(ctx.n(12, 160)):
        prof = ctx.rng.choice(['deep', 'wide', 'hot', 'rec', 'mixed'])
        nf = {'deep': 20, 'wide': 6, 'hot': 2, 'rec': 1, 'mixed': 5}[prof]
        fds = [(_Node(i), ctx.rng.random() < 0.12, ctx.rng.random() < 0.15) for i in range(nf)]
        if prof in ('hot', 'rec'):
            fds = [(fd[0], False, ctx.rng.random() < 0.2) for fd in fds]
        ppush = {'deep': 0.8, 'wide': 0.5, 'hot': 0.55, 'rec': 0.7, 'mixed': 0.6}[prof]
        ops, depth = [], 0
        for _ in range(ctx.rng.randint(60, 450)):
            if ctx.rng.random() < ppush and depth < 24:
                ops.append(('push', ctx.rng.randrange(nf)))
                depth += 1
            else:
                ops.append(('pop',))
                depth = max(0, depth - 1)
        c, nref = _drive_detector(ops, fds, L)
        cases.append(c)
        keys.append(('long', ci, tuple(ops)))
        stats['refused'] += nref
        stats['pushes'] += sum(1 for o in ops if o[0] == 'push')
    # (c) random small limits
    for ci in range(ctx.n(200, 3000)):
        Ls = _small_L(L, ctx.rng.randint(0, 6), ctx.rng.randint(0, 12), ctx.rng.randint(0, 4), ctx.rng.randint(0, 3))
        nf = ctx.rng.randint(1, 4)
        fds = [(_Node(i), ctx.rng.random() < 0.15, ctx.rng.random() < 0.25) for i in range(nf)]
        ops = [(('push', ctx.rng.randrange(nf)) if ctx.rng.random() < 0.62 else ('pop',))
               for _ in range(ctx.rng.randint(1, 40))]
        with _patched_limits(Ls):
            c, nref = _drive_detector(ops, fds, Ls)
        cases.append(c)
        keys.append(('rnd', ci, tuple(ops)))
        stats['refused'] += nref
        stats['pushes'] += sum(1 for o in ops if o[0] == 'push')
    for kk in keys:
        ctx.count('direct-exec', kk[:2] + (hash(kk[2]),))
    ctx.stat('direct_exec', stats)
    ctx.sample(dict(stream='direct-exec', limits=[2, 3, 2, 1], ops=['push f0', 'push f0', 'push f0', 'pop'],
                    real_decisions='accepted, refused (per-function recursion 2 > 1), refused (level 3 > 2), -'))
    fn = "(fun c => let '(L, tr) := c in xcheck_full L edet_reset tr)"

    def on_fail(fails):
        for i in fails[:3]:
            ctx.violation('obligation', dict(
                what='correspondence push_execution/pop_execution: a decision or counter of the real '
                     'ExecutionRecursionDetector differs from the model', stream='direct-exec',
                ops=[list(o) for o in keys[i][2]][:80], seq_kind=keys[i][0], case=cases[i][:3000]), nofail=True)
    ctx.jobs.add('direct_exec', fn, cases, max(50, len(cases) // 8 + 1), on_fail)


def direct_decorator(ctx, L):
    """execution_recursion_decorator on a scripted method: refused => default and no body,
    the pop happens on every exit (also exceptions), trace accepted by the model."""
    from jedi.inference import recursion
    DEF = object()
    cases, metas = [], []
    stats = dict(calls=0, refused=0, raised=0)

    for ci in range(ctx.n(120, 1500)):
        small = ctx.rng.random() < 0.6
        Ls = _small_L(L, ctx.rng.randint(1, 5), ctx.rng.randint(2, 14), ctx.rng.randint(1, 4), ctx.rng.randint(0, 2)) \
            if small else L
        nf = ctx.rng.randint(1, 3)
        fds = [(_Node(i), ctx.rng.random() < 0.1, ctx.rng.random() < 0.15) for i in range(nf)]
        idx = {fd[0]: i for i, fd in enumerate(fds)}
        budget = [ctx.rng.randint(3, 40 if small else 260)]

        def plan(depth):
            budget[0] -= 1
            kids = []
            while budget[0] > 0 and depth < (8 if small else 22) and ctx.rng.random() < (0.62 if depth < 3 else 0.5):
                kids.append(plan(depth + 1))
            return dict(f=ctx.rng.randrange(nf), kids=kids, raises=ctx.rng.random() < 0.12,
                        catch=ctx.rng.random() < 0.5)
        root = plan(0)
        state = _State()
        det = state.execution_recursion_detector
        items, log = [], []
        op, oq = det.push_execution, det.pop_execution

        def push(execution, __op=op):
            r = __op(execution)
            fd = fds[idx[execution.tree_node]]
            items.append('(xe (XPush %s) %s)' % (g_exec(idx[execution.tree_node], fd[1], fd[2]),
                                                 g_xobs(bool(r), _det_obs(det, idx))))
            log.append(bool(r))
            return r

        def pop(__oq=oq):
            __oq()
            items.append('(xe XPop %s)' % g_xobs(None, _det_obs(det, idx)))
        det.push_execution, det.pop_execution = push, pop
        bad = []

        class E(_Exec):
            @recursion.execution_recursion_decorator(default=DEF)
            def run(self, **kw):
                self.entered = True
                for kid in self.plan['kids']:
                    call(kid, self.plan['catch'])
                if self.plan['raises']:
                    raise _Boom()
                return ('R', id(self))

        def call(p, catch):
            e = E(state, fds[p['f']], p)
            e.entered = False
            stats['calls'] += 1
            n0 = len(log)
            try:
                res = e.run()
            except _Boom:
                stats['raised'] += 1
                if not catch:
                    raise
                return
            refused = log[n0] if len(log) > n0 else None
            if refused:
                stats['refused'] += 1
            if refused and (e.entered or res is not DEF):
                bad.append('a refused execution ran its body or did not return the default')
            if refused is False and (not e.entered or res is DEF):
                bad.append('an accepted execution did not run its body')

        try:
            with _patched_limits(Ls):
                call(root, True)
        except _Boom:
            pass
        if det._recursion_level != 0 or det._parent_execution_funcs:
            bad.append('the detector is not back at level 0 / empty stack after the outermost call returned')
        for b in sorted(set(bad)):
            ctx.deviation(dict(stream='direct-decorator', cls=b), dict(plan=root, limits=Ls),
                          'execution_recursion_decorator: ' + b)
        ctx.count('direct-decorator', (ci, json.dumps(root, sort_keys=True)))
        cases.append('(lx %s %s)' % (g_limits(Ls), g_list(items, str, 'xev * xobs')))
        metas.append(dict(plan=root, limits=Ls))
    ctx.stat('direct_decorator', stats)
    fn = "(fun c => let '(L, tr) := c in xcheck_full L edet_reset tr)"

    def on_fail(fails):
        for i in fails[:3]:
            ctx.violation('obligation', dict(what='correspondence execution_recursion_decorator: recorded push/pop trace '
                                                  'is not the one the model produces', stream='direct-decorator',
                                             input=metas[i], case=cases[i][:3000]), nofail=True)
    ctx.jobs.add('direct_decorator', fn, cases, max(150, len(cases) // 4 + 1), on_fail)


def direct_stmt(ctx):
    from jedi.inference import recursion
    import itertools
    cases, keys = [], []
    stats = dict(enters=0, refused=0, exc_exits=0)

    def drive(ops):
        state = _State()
        nodes = [_Node(i) for i in range(4)]
        idx = {n: i for i, n in enumerate(nodes)}
        cms, items = [], []
        for op in ops:
            if op[0] == 'enter':
                cm = recursion.execution_allowed(state, nodes[op[1]])
                allowed = cm.__enter__()
                if allowed not in (True, False):
                    raise AssertionError('execution_allowed yielded %r' % (allowed,))
                cms.append(cm)
                stats['enters'] += 1
                stats['refused'] += (not allowed)
                items.append('(se (SEnter %d) (Some %s) %s)' % (op[1], g_bool(allowed),
                                                                g_nlist([idx[n] for n in state.recursion_detector.pushed_nodes])))
            else:
                cm = cms.pop()
                if op[0] == 'exitexc':
                    stats['exc_exits'] += 1
                    e = _Boom()
                    try:
                        cm.__exit__(_Boom, e, None)
                    except _Boom:
                        pass
                else:
                    cm.__exit__(None, None, None)
                items.append('(se SExit None %s)' % g_nlist([idx[n] for n in state.recursion_detector.pushed_nodes]))
        return g_list(items, str, 'sev * option bool * list N')

    alpha = [('enter', 0), ('enter', 1), ('enter', 2), ('exit',), ('exitexc',)]
    k = ctx.n(5, 7)

    def rec(seq, depth):
        if len(seq) == k:
            yield tuple(seq)
            return
        for a in alpha:
            if a[0] != 'enter' and depth == 0:
                continue
            seq.append(a)
            yield from rec(seq, depth + (1 if a[0] == 'enter' else -1))
            seq.pop()
    for seq in rec([], 0):
        cases.append(drive(seq))
        keys.append(seq)
    for ci in range(ctx.n(200, 2000)):
        ops, depth = [], 0
        for _ in range(ctx.rng.randint(1, 60)):
            if depth == 0 or ctx.rng.random() < 0.58:
                ops.append(('enter', ctx.rng.randrange(4)))
                depth += 1
            else:
                ops.append(('exitexc',) if ctx.rng.random() < 0.3 else ('exit',))
                depth -= 1
        cases.append(drive(ops))
        keys.append(tuple(ops))
    for kk in keys:
        ctx.count('direct-stmt', kk)
    ctx.stat('direct_stmt', stats)
    def on_fail(fails):
        for i in fails[:3]:
            ctx.violation('obligation', dict(what='correspondence execution_allowed: decision or pushed_nodes differ from the model',
                                             stream='direct-stmt', ops=[list(o) for o in keys[i]], case=cases[i][:2000]),
                          nofail=True)
    ctx.jobs.add('direct_stmt', '(scheck sreset)', cases, max(200, len(cases) // 4 + 1), on_fail)


def direct_memo(ctx):
    from jedi.inference import cache as jcache
    DEF = object()
    VALUES = [DEF] + [object() for _ in range(5)]
    vid = {id(v): i for i, v in enumerate(VALUES)}
    cases, metas = [], []
    stats = dict(calls=0, hits=0, default_hits=0, enters=0, raises=0, reentries=0)
    variants = ['method', 'method_nodefault', 'first_arg', 'second_arg', 'fn_cache', 'meta']
    for ci in range(ctx.n(400, 4000)):
        var = variants[ci % len(variants)]
        has_default = var in ('method', 'first_arg', 'fn_cache')
        state = _State()
        pending = [None]
        log = []
        keyids = {}

        def body(o, *a, **kw):
            p = pending[0]
            pending[0] = None
            p['entered'] = True
            stats['enters'] += 1
            log.append('(me (MCall %d %s) MEnter)' % (p['K'], '(Some 0)' if has_default else 'None'))
            for kid in p['kids']:
                try:
                    drive(kid)
                except _Boom:
                    if not p['catch']:
                        raise
            if p['raises']:
                stats['raises'] += 1
                raise _Boom()
            log.append('(me (MStore %d %d) MStored)' % (p['K'], p['ret']))
            return VALUES[p['ret']]

        if var == 'method':
            wrapped = jcache.inference_state_method_cache(default=DEF)(body)
        elif var == 'method_nodefault':
            wrapped = jcache.inference_state_method_cache()(body)
        elif var == 'first_arg':
            wrapped = jcache._memoize_default(default=DEF, inference_state_is_first_arg=True)(body)
        elif var == 'fn_cache':
            wrapped = jcache.inference_state_function_cache(default=DEF)(body)
        elif var == 'second_arg':
            wrapped = jcache.inference_state_as_method_param_cache()(body)
        else:
            wrapped = None

        class Obj:
            def __init__(self, i):
                self.i = i
                self.inference_state = state
                self.memoize_cache = state.memoize_cache
        objs = [Obj(0), Obj(1)]
        if var in ('first_arg', 'fn_cache'):
            objs = [objs[0]]      # the object IS the state: one table

        def drive(p):
            stats['calls'] += 1
            pending[0] = p
            p['entered'] = False
            idx = len(log)
            log.append(None)
            if var == 'second_arg':
                args = (state,) + tuple(p['args'])
            else:
                args = tuple(p['args'])
            try:
                res = wrapped(objs[p['obj'] % len(objs)], *args, **p['kw'])
            finally:
                pending[0] = None
            if not p['entered']:
                stats['hits'] += 1
                if res is DEF:
                    stats['default_hits'] += 1
                log[idx] = '(me (MCall %d %s) (MHit %d))' % (p['K'], '(Some 0)' if has_default else 'None', vid[id(res)])
            elif res is not VALUES[p['ret']]:
                ctx.deviation(dict(stream='direct-memo', cls='wrong-result'), dict(variant=var),
                              'the memoize wrapper did not return the value the body computed')
            return res

        budget = [ctx.rng.randint(2, 26)]
        nkeys = ctx.rng.randint(1, 4)

        def plan(depth):
            budget[0] -= 1
            o, a, kw = ctx.rng.randrange(2), (ctx.rng.randrange(nkeys),), ({} if ctx.rng.random() < 0.7 else {'z': ctx.rng.randrange(2)})
            kk = (o % len(objs), a, tuple(sorted(kw.items())))
            K = keyids.setdefault(kk, len(keyids))
            kids = []
            while budget[0] > 0 and depth < 6 and ctx.rng.random() < 0.55:
                kids.append(plan(depth + 1))
            return dict(obj=o, args=list(a), kw=kw, K=K, kids=kids, raises=ctx.rng.random() < 0.12,
                        catch=ctx.rng.random() < 0.6, ret=ctx.rng.randrange(len(VALUES)))
        if var == 'meta':
            # CachedMetaClass: instances are cached per (inference_state, args)
            made = []

            class V(metaclass=jcache.CachedMetaClass):
                def __init__(self, st, a):
                    made.append(a)
            seq = [ctx.rng.randrange(3) for _ in range(ctx.rng.randint(1, 12))]
            insts = [V(state, a) for a in seq]
            ok = all(insts[i] is insts[seq.index(a)] for i, a in enumerate(seq)) and sorted(made) == sorted(set(seq))
            ctx.count('direct-memo', ('meta', tuple(seq)))
            if not ok:
                ctx.violation('obligation', dict(what='CachedMetaClass: instance creation not memoized per (state, args)',
                                                 stream='direct-memo', seq=seq), nofail=True)
            continue
        roots = []
        for _ in range(ctx.rng.randint(1, 4)):
            if budget[0] <= 0:
                break
            roots.append(plan(0))
        for r in roots:
            try:
                drive(r)
            except _Boom:
                pass
        log = [x for x in log if x is not None]
        # property, checked directly: with a default the body of a key runs at most once
        ent = {}
        for x in log:
            if x.endswith('MEnter)'):
                K = int(x.split()[2])
                ent[K] = ent.get(K, 0) + 1
        worst = max(ent.values()) if ent else 0
        stats['reentries'] += sum(1 for v in ent.values() if v > 1)
        if has_default and worst > 1:
            ctx.deviation(dict(stream='direct-memo', cls='body-entered-twice'), dict(variant=var, plan=roots, log=log[:60]),
                          '_memoize_default with a default entered the body of one key %d times' % worst)
        ctx.count('direct-memo', (var, json.dumps(roots, sort_keys=True)))
        cases.append(g_list(log, str, 'mev * mout'))
        metas.append(dict(variant=var, plan=roots))
    ctx.stat('direct_memo', stats)
    if metas:
        ctx.sample(dict(stream='direct-memo', variant=metas[0]['variant'], events=cases[0][:300]))
    def on_fail(fails):
        for i in fails[:3]:
            ctx.violation('obligation', dict(what='correspondence _memoize_default: hit/enter decisions or returned values differ from the model',
                                             stream='direct-memo', input=metas[i], case=cases[i][:2000]), nofail=True)
    ctx.jobs.add('direct_memo', '(mcheck [])', cases, 1500, on_fail)


def direct_gen(ctx):
    from jedi.inference import cache as jcache
    END = object()
    cases, metas = [], []
    stats = dict(asks=0, advances=0, sentinel_stops=0, yields=0)
    for ci in range(ctx.n(400, 4000)):
        state = _State()
        nsteps = ctx.rng.randint(0, 5)
        script = []
        for si in range(nsteps + 1):
            nested = []
            for _ in range(ctx.rng.choice([0, 0, 1, 1, 2, 3])):
                nested.append((ctx.rng.randrange(5), ctx.rng.randint(1, 3)))
            script.append(dict(nested=nested, out=(si + 1) * 10 if si < nsteps else None))
        log, active, adv, consumers = [], [], [], {}
        bad = []

        class Under:
            def __init__(self):
                self.i = 0

            def __iter__(self):
                return self

            def __next__(self):
                if adv:
                    adv[-1]['adv'] = True
                else:
                    bad.append('the underlying generator was advanced outside any consumer')
                if getattr(self, 'running', False):
                    bad.append('the underlying generator was re-entered while it was running')
                self.running = True
                try:
                    step = script[min(self.i, len(script) - 1)] if self.i < len(script) else dict(nested=[], out=None)
                    self.i += 1
                    for cid, cnt in step['nested']:
                        for _ in range(cnt):
                            if cid in active:
                                break
                            ask(cid)
                    log.append('(ge (GDone %s) %s)' % (g_opt(step['out'], gN),
                                                       'GStop' if step['out'] is None else '(GYield %d)' % step['out']))
                finally:
                    self.running = False
                if step['out'] is None:
                    raise StopIteration
                return step['out']

        class Obj:
            inference_state = state

            @jcache.inference_state_method_generator_cache()
            def gen(self):
                return Under()
        obj = Obj()

        def ask(cid):
            if cid not in consumers:
                consumers[cid] = obj.gen()
            stats['asks'] += 1
            idx = len(log)
            log.append(None)
            ent = dict(adv=False)
            adv.append(ent)
            active.append(cid)
            try:
                v = next(consumers[cid], END)
            finally:
                active.pop()
                adv.pop()
            if ent['adv']:
                stats['advances'] += 1
                log[idx] = '(ge (GAsk %d) GAdvance)' % cid
            elif v is END:
                stats['sentinel_stops'] += 1
                log[idx] = '(ge (GAsk %d) GStop)' % cid
            else:
                stats['yields'] += 1
                log[idx] = '(ge (GAsk %d) (GYield %d))' % (cid, v)
            return v
        top = [ctx.rng.randrange(5) for _ in range(ctx.rng.randint(1, 14))]
        try:
            for cid in top:
                ask(cid)
        except Exception as e:   # noqa
            bad.append('exception %r' % (e,))
        for b in sorted(set(bad)):
            ctx.deviation(dict(stream='direct-gen', cls=b[:60]), dict(script=script, top=top, log=log[:60]),
                          'inference_state_method_generator_cache: ' + b)
        ctx.count('direct-gen', (json.dumps(script), tuple(top)))
        cases.append(g_list([x for x in log if x is not None], str, 'gev * gout'))
        metas.append(dict(script=script, top=top))
    ctx.stat('direct_gen', stats)
    def on_fail(fails):
        for i in fails[:3]:
            ctx.violation('obligation', dict(what='correspondence generator cache: yield/stop/advance decisions differ from the model',
                                             stream='direct-gen', input=metas[i], case=cases[i][:2000]), nofail=True)
    ctx.jobs.add('direct_gen', '(gcheck greset)', cases, 1500, on_fail)


def direct_infer(ctx, L, notes):
    from jedi.inference import syntax_tree
    from jedi.inference.base_value import NO_VALUES
    deco = getattr(syntax_tree, '_limit_value_infers', None)
    if deco is None:
        ctx.violation('obligation', dict(what='syntax_tree._limit_value_infers does not exist any more: the per-scope '
                                              'inference cap cannot be tied to the model', stream='direct-infer'), nofail=True)
        return False
    state = _State()
    entered = []

    def raw(context, tag):
        entered.append(tag)
        return ('R', tag)
    wrapped = deco(raw)

    class Ctx:
        def __init__(self, node, parent, value):
            self.tree_node, self.parent_context, self._v, self.inference_state = node, parent, value, state

        def get_value(self):
            return self._v
    cases, metas = [], []
    stats = dict(calls=0, refused=0)

    def run_case(seq, nodes, full):
        """seq: list of (node idx, kind) kind: 0 user module ctx, 1 builtins module ctx,
        2 nested ctx whose value is the builtins module (not exempt)"""
        state.inferred_element_counts = {}
        idx = {n: i for i, n in enumerate(nodes)}
        items = []
        for tag, (ni, kind) in enumerate(seq):
            c = Ctx(nodes[ni], None if kind in (0, 1) else object(),
                    state.builtins_module if kind in (1, 2) else object())
            n0 = len(entered)
            res = wrapped(c, tag)
            ok = len(entered) > n0
            stats['calls'] += 1
            stats['refused'] += (not ok)
            if ok and res != ('R', tag):
                raise AssertionError('wrapper changed the result')
            if not ok and res is not NO_VALUES:
                ctx.deviation(dict(stream='direct-infer', cls='refusal-not-NO_VALUES'), dict(result=repr(res)),
                              '_limit_value_infers refused a call but did not return NO_VALUES')
            if full:
                tab = [(idx[k], v) for k, v in state.inferred_element_counts.items()]
                items.append('(ief %d %s %s %s)' % (ni, g_bool(kind == 1), g_bool(ok), g_pairs(tab)))
            else:
                items.append('(ie %d %s %s)' % (ni, g_bool(kind == 1), g_bool(ok)))
        return g_list(items, str, 'iev * bool * list (N * N)' if full else 'iev * bool')
    full_cases, dec_cases = [], []
    cap = L['infer_cap']
    # short sequences, full counter table after each call
    for ci in range(ctx.n(150, 1200)):
        nn = ctx.rng.randint(1, 4)
        nodes = [_Node(i) for i in range(nn)]
        kinds = [ctx.rng.choice([0, 0, 0, 1, 2]) for _ in range(nn)]
        seq = [(ctx.rng.randrange(nn),) for _ in range(ctx.rng.randint(1, 30))]
        seq = [(s[0], kinds[s[0]]) for s in seq]
        full_cases.append('(lif %s %s)' % (g_limits(L), run_case(seq, nodes, True)))
        ctx.count('direct-infer', ('short', tuple(seq)))
    # around the cap: a few scopes, each called beyond the cap, interleaved
    for ci in range(ctx.n(6, 30)):
        nn = ctx.rng.randint(1, 3)
        nodes = [_Node(i) for i in range(nn)]
        kinds = [ctx.rng.choice([0, 2]) for _ in range(nn)]
        seq = []
        for i in range(nn):
            seq += [(i, kinds[i])] * (cap + ctx.rng.randint(1, 25))
        ctx.rng.shuffle(seq)
        dec_cases.append('(li %s %s)' % (g_limits(L), run_case(seq, nodes, False)))
        ctx.count('direct-infer', ('cap', ci, nn, len(seq)))
    # the builtins module: cap * mult
    big = cap * L['builtin_mult']
    if big <= 60000:
        nodes = [_Node(0), _Node(1)]
        seq = [(0, 1)] * (big + 7) + [(1, 0)] * 3 + [(0, 1)] * 2
        dec_cases.append('(li %s %s)' % (g_limits(L), run_case(seq, nodes, False)))
        ctx.count('direct-infer', ('builtins', big))
    ctx.stat('direct_infer', stats)
    for nm, fn, cs, sh in (('direct_infer_full', "(fun c => let '(L, tr) := c in icheck_full L [] tr)", full_cases, 600),
                           ('direct_infer_cap', "(fun c => let '(L, tr) := c in icheck L [] tr)", dec_cases, 4)):
        def on_fail(fails, cs=cs):
            for i in fails[:3]:
                ctx.violation('obligation', dict(what='correspondence _limit_value_infers: accept/refuse decision or counter table differs from the model',
                                                 stream='direct-infer', case=cs[i][:1500] + ' ...' + cs[i][-600:]), nofail=True)
        ctx.jobs.add(nm, fn, cs, sh, on_fail)
    return True


# =============================================================================
# stream `queries`: generated cyclic definition graphs
KINDS = ['var', 'ifvar', 'tuple', 'aug', 'func', 'func2', 'lambda', 'class', 'class', 'prop', 'gen', 'deco',
         'getattr', 'selfattr', 'closure', 'callself', 'cont', 'star', 'mod', 'mod', 'defarg', 'classattr']
CLASSY = ('class', 'prop', 'getattr', 'callself', 'classattr')
CONTAINERISH = ('cont', 'star')       # values that may be builtin containers: not used as completion receivers


def gen_cyclic_program(rng, n):
    """A program whose definitions reference each other along random edges (cycles of every
    mixture of kinds). Returns dict(files, main, kinds, tails)."""
    kinds = [rng.choice(KINDS) for _ in range(n)]
    refs = [[rng.randrange(n) for _ in range(3)] for _ in range(n)]
    for i in range(n):
        r = rng.random()
        if r < 0.12:
            refs[i][0] = i                        # self reference
        elif r < 0.3:
            j = rng.randrange(n)
            refs[i][0], refs[j][0] = j, i         # 2-cycle
        elif r < 0.45:
            refs[i][0] = (i + 1) % n              # part of the big ring

    def sv(j):      # a plain name for node j
        k = kinds[j]
        return {'func': 'f%d', 'func2': 'f%d', 'lambda': 'l%d', 'class': 'C%d', 'prop': 'P%d', 'gen': 'g%d',
                'deco': 'w%d', 'getattr': 'G%d', 'selfattr': 's%d', 'closure': 'k%d', 'callself': 'O%d',
                'cont': 'c%d', 'mod': 'm%d', 'defarg': 'f%d', 'classattr': 'A%d'}.get(k, 'v%d') % j

    def E(j):       # an expression for the value of node j
        k = kinds[j]
        if k in ('func', 'func2', 'defarg'):
            return 'f%d(%s)' % (j, rng.choice(['1', "'s'", sv(refs[j][1])]))
        if k == 'lambda':
            return 'l%d(1)' % j
        if k == 'class':
            return rng.choice(['C%d()', 'C%d().x', 'C%d().y', 'C%d().m()', 'C%d.x']) % j
        if k == 'classattr':
            return 'A%d.x' % j
        if k == 'prop':
            return 'P%d().p' % j
        if k == 'gen':
            return 't%d' % j
        if k == 'deco':
            return rng.choice(['w%d()', 'w%d']) % j
        if k == 'getattr':
            return 'G%d().anything' % j
        if k == 'selfattr':
            return 's%d.a.a.b' % j
        if k == 'closure':
            return 'k%d()()' % j
        if k == 'callself':
            return rng.choice(['O%d()()()', 'O%d()[0][1]']) % j
        if k == 'cont':
            return rng.choice(['c%d[0]', "d%d['k']"]) % j
        if k == 'mod':
            return rng.choice(['m%d.v', 'mv%d', 'm%d.mf()']) % j
        return 'v%d' % j

    main, files = [], {}
    for i, k in enumerate(kinds):
        a, b, c = refs[i]
        if k == 'var':
            main.append('v%d = %s' % (i, E(a)))
        elif k == 'ifvar':
            main.append('v%d = %s if v%d else %s' % (i, E(a), i, E(b)))
        elif k == 'tuple':
            main.append('v%d, u%d = %s, %s' % (i, i, E(a), E(b)))
            if rng.random() < 0.5:
                main.append('v%d, u%d = u%d, v%d' % (i, i, i, i))
        elif k == 'aug':
            main += ['v%d = %s' % (i, E(a)), 'v%d += %s' % (i, E(b))]
        elif k == 'func':
            main += ['def f%d(p):' % i, '    r = %s' % E(a), '    return r if p else f%d(%s)' % (i, E(b))]
        elif k == 'func2':
            main += ['def f%d(p):' % i, '    if p:', '        return %s' % E(a), '    return f%d(p) or %s' % (i, E(b))]
        elif k == 'defarg':
            main += ['def f%d(p, q=%s):' % (i, sv(a)), '    return q or f%d(q, p)' % i]
        elif k == 'lambda':
            main.append('l%d = lambda p: %s' % (i, rng.choice([E(a), 'l%d(p)' % i, 'l%d(%s)' % (i, E(a))])))
        elif k == 'class':
            base = 'C%d' % a if kinds[a] == 'class' else ('A%d' % a if kinds[a] == 'classattr' else '')
            main += ['class C%d(%s):' % (i, base), '    x = %s' % E(b), '    def __init__(self):',
                     '        self.y = %s' % E(c), '        self.z = self.y', '    def m(self):',
                     '        return self.z if self.x else %s' % rng.choice([E(a), 'self.m()', 'C%d().m()' % i])]
        elif k == 'classattr':
            main += ['class A%d:' % i, '    x = %s' % (('A%d.x' % a) if kinds[a] == 'classattr' else E(a)),
                     '    y = x']
        elif k == 'prop':
            main += ['class P%d:' % i, '    @property', '    def p(self):', '        return self.q', '    @property',
                     '    def q(self):', '        return self.p if %s else %s' % (E(a), E(b))]
        elif k == 'gen':
            tgt = a if kinds[a] == 'gen' else i
            main += ['def g%d():' % i, '    yield %s' % E(b), '    yield from g%d()' % tgt,
                     '    for e in g%d():' % i, '        yield e', 'for t%d in g%d():' % (i, i), '    pass']
        elif k == 'deco':
            style = rng.randrange(3)
            main += ['def d%d(fn):' % i]
            if style == 0:
                main += ['    return d%d(fn)' % i]
            elif style == 1:
                main += ['    return %s' % sv(a)]
            else:
                main += ['    def inner(*a):', '        return fn(*a)', '    return inner']
            main += ['@d%d' % i, 'def w%d():' % i, '    return %s' % E(b)]
        elif k == 'getattr':
            main += ['class G%d:' % i, '    def __getattr__(self, name):',
                     '        return %s' % rng.choice(['self.other', E(a), 'getattr(self, name)', 'self.__getattr__(name)'])]
        elif k == 'selfattr':
            main += ['class S%d:' % i, '    pass', 's%d = S%d()' % (i, i), 's%d.a = s%d' % (i, i),
                     's%d.b = %s' % (i, E(a))]
        elif k == 'closure':
            main += ['def k%d():' % i, '    def inner():', '        return %s or k%d()()' % (E(a), i), '    return inner']
        elif k == 'callself':
            main += ['class O%d:' % i, '    def __call__(self):', '        return self', '    def __getitem__(self, i):',
                     '        return self[i]', '    def __iter__(self):', '        return self', '    def __next__(self):',
                     '        return %s' % E(a)]
        elif k == 'cont':
            main += ['c%d = [%s]' % (i, E(a)), 'c%d.append(c%d)' % (i, i), 'c%d.append(%s)' % (i, E(b)),
                     "d%d = {'k': %s}" % (i, E(c)), "d%d['k'] = d%d" % (i, i)]
        elif k == 'star':
            main += ['def sf%d(*args, **kw):' % i, '    return args[0]', 'v%d = sf%d(%s, %s)' % (i, i, E(a), E(b))]
        elif k == 'mod':
            body = []
            if kinds[a] == 'mod':
                body.append('from m%d import v as w' % a)
            else:
                body.append('from main import %s as w' % sv(a))
            if kinds[b] == 'mod':
                body.append('import m%d' % b)
            body += ['v = w', 'def mf():', '    return w']
            files['m%d.py' % i] = '\n'.join(body) + '\n'
            main = ['import m%d' % i, 'from m%d import v as mv%d' % (i, i)] + main
    tails = []
    for j in range(n):
        if kinds[j] not in CONTAINERISH and kinds[j] != 'mod':
            tails.append(E(j) + '.')
    files['main.py'] = '\n'.join(main) + '\n'
    return dict(files=files, kinds=kinds, tails=tails)


def program_probes(rng, prog, per_prog):
    """(query, source, line, col) tuples over names, call parentheses and attribute tails."""
    import parso
    src = prog['files']['main.py']
    mod = parso.parse(src)
    names, parens = [], []
    leaf = mod.get_first_leaf()
    while leaf is not None:
        if leaf.type == 'name':
            names.append(leaf.start_pos)
        elif leaf.type == 'operator' and leaf.value == '(' and leaf.parent.type == 'trailer':
            parens.append(leaf.end_pos)
        leaf = leaf.get_next_leaf()
    out = []
    pool = []
    for q in ('infer', 'goto', 'get_references', 'complete'):
        pool += [(q, src, p[0], p[1] + (1 if q == 'complete' else 0)) for p in names]
    pool += [('get_signatures', src, p[0], p[1]) for p in parens] * 2
    for t in prog['tails']:
        s2 = src + t
        ls = s2.split('\n')
        pool += [('complete', s2, len(ls), len(ls[-1]))] * 6
        pool += [('infer', s2, len(ls), len(ls[-1]) - 2)] * 3
    if per_prog >= len(pool):
        return sorted(set(pool))
    return rng.sample(pool, per_prog)


_WARM = [False]


def _warm_up():
    """the first query of a process pays for the environment, the grammar and the builtins"""
    if not _WARM[0]:
        _WARM[0] = True
        try:
            import jedi
            jedi.Script('class A:\n    x = 1\ndef f():\n    return A()\nf().x').infer(5, 4)
        except BaseException:   # noqa
            pass


def pool_with_retry(tasks, fn, tmpdir, per_task, tag):
    """A query that did not answer within the watchdog time is given a second, much longer chance in a
    fresh process (the machine may just be busy), eight at a time; once a retried one hangs again the
    hang is real and the remaining ones are reported as they are."""
    results = run_pool(tasks, fn, tmpdir, per_task=per_task, tag=tag)
    again = [i for i, r in enumerate(results) if r.get('hang')]
    rnd = 0
    while again:
        batch, again = again[:8], again[8:]
        t2 = [dict(tasks[i], timeout=3 * tasks[i].get('timeout', 60)) for i in batch]
        r2 = run_pool(t2, fn, tmpdir, per_task=3 * per_task, tag='%sr%d' % (tag, rnd))
        confirmed = False
        for i, r in zip(batch, r2):
            r['retried'] = True
            results[i] = r
            confirmed = confirmed or bool(r.get('hang'))
        if confirmed:
            break
        rnd += 1
    return results


def _query_task(task):
    _warm_up()
    T = install_tracers()
    d = task['dir']
    r = traced_query(T, task['src'], os.path.join(d, 'main.py'), task['query'], task['line'], task['col'], d,
                     timeout=task.get('timeout', 30))
    return digest_query(r, task['L'])


_DEV_SEEN = {}


def report(ctx, sig, data, what, per_class=3):
    """ctx.deviation, but at most `per_class` inputs per (stream, class) unless the deviation is a
    listed known finding (those are all counted)."""
    known = any(all(sig.get(a) == b for a, b in k['matcher'].items()) for k in ctx.known)
    if not known:
        key = (sig.get('stream'), sig.get('cls'), sig.get('exc'),
               __import__('re').sub(r'\d+', '#', sig.get('what') or '')[:40])
        _DEV_SEEN[key] = _DEV_SEEN.get(key, 0) + 1
        if _DEV_SEEN[key] > per_class:
            sup = ctx.cov.setdefault('distribution', {}).setdefault('further_inputs_of_a_reported_class', {})
            sup[str(key)] = sup.get(str(key), 0) + 1
            return 'suppressed'
    return ctx.deviation(sig, data, what)


def classify_crash(ctx, stream, task_desc, r, extra=None):
    """RecursionError / hang / budget problems are C15 deviations; other exception types are
    not this property's subject (C01) and are only counted."""
    sig = r.get('sig') or {}
    if r.get('hang') or r.get('crashed'):
        report(ctx, dict(stream=stream, exc=sig.get('exc'), cls='hang'), dict(input=task_desc, error=sig),
                      'the query did not return within the watchdog time (or killed its process)')
        return 'hang'
    if sig.get('exc') == 'RecursionError':
        m = dict(stream=stream, exc='RecursionError', repeating=sig.get('repeating'))
        if extra:
            m.update(extra)
        report(ctx, m, dict(input=task_desc, error=sig), 'the query raised RecursionError')
        return 'recursion'
    return 'other'


def stream_queries(ctx, L):
    nprog = ctx.n(24, 200)
    per_prog = ctx.n(12, 30)
    tasks, progs = [], []
    for pi in range(nprog):
        n = ctx.rng.choice([3, 5, 8, 12, 16, 24, 32, 40])
        prog = gen_cyclic_program(ctx.rng, n)
        d = os.path.join(ctx.tmp, 'prog%d' % pi)
        os.makedirs(d, exist_ok=True)
        for fn, txt in prog['files'].items():
            with open(os.path.join(d, fn), 'w') as f:
                f.write(txt)
        progs.append(prog)
        for (q, src, line, col) in program_probes(ctx.rng, prog, per_prog):
            tasks.append(dict(dir=d, prog=pi, src=src, query=q, line=line, col=col, L=L, timeout=60))
    # one dedicated probe for the known container-receiver crash (K1)
    d = os.path.join(ctx.tmp, 'progK1')
    os.makedirs(d, exist_ok=True)
    open(os.path.join(d, 'main.py'), 'w').write('x = [1]\nx.')
    tasks.append(dict(dir=d, prog=-1, src='x = [1]\nx.', query='complete', line=2, col=2, L=L, timeout=60))
    results = pool_with_retry(tasks, _query_task, ctx.tmp, 70, 'q')
    kinds, outcome = {}, {}
    agg = dict(exec_pushes=0, exec_refused=0, stmt_refused=0, memo_default_hits=0, infer_refused=0, events=0,
               unknown_fn_ops=0, late_default=0, max_exec_depth=0, max_scope_infers=0, max_wall=0.0)
    cases, metas = [], []
    for t, r in zip(tasks, results):
        desc = dict(files=progs[t['prog']]['files'] if t['prog'] >= 0 else {'main.py': t['src']},
                    source=t['src'], query=t['query'], line=t['line'], column=t['col'])
        kinds[t['query']] = kinds.get(t['query'], 0) + 1
        if not r.get('ok'):
            o = classify_crash(ctx, 'queries', desc, r)
            outcome[o + ':' + str((r.get('sig') or {}).get('exc'))] = outcome.get(o + ':' + str((r.get('sig') or {}).get('exc')), 0) + 1
            if r.get('crashed') or 'case' not in r:
                continue
        else:
            outcome['ok'] = outcome.get('ok', 0) + 1
        st = r['st']
        nontrivial = (st['exec']['pushes'] + st['stmt']['enters'] + st['infer']['calls']) > 0
        ctx.count('queries', (t['src'], t['query'], t['line'], t['col']), nontrivial=nontrivial)
        agg['exec_pushes'] += st['exec']['pushes']
        agg['exec_refused'] += st['exec']['refused']
        agg['stmt_refused'] += st['stmt']['refused']
        agg['memo_default_hits'] += st['memo']['default_hits']
        agg['infer_refused'] += st['infer']['refused']
        agg['unknown_fn_ops'] += st['memo']['unknown_fn']
        for nm in st['memo'].get('unknown_names', []):
            if nm not in agg.setdefault('unknown_fns', []):
                agg['unknown_fns'].append(nm)
        agg['late_default'] += st['memo']['late_default']
        agg['events'] += sum(r['n'].values())
        agg['max_exec_depth'] = max(agg['max_exec_depth'], st['exec']['maxdepth'])
        agg['max_scope_infers'] = max(agg['max_scope_infers'], st['infer']['max_per_scope'])
        agg['max_wall'] = max(agg['max_wall'], r['wall'])
        if r.get('missing'):
            ctx.violation('obligation', dict(what='a guard could not be located in the running jedi: %s' % r['missing'],
                                             stream='queries'), nofail=True)
            return
        if r['reclimit'] != DOCUMENTED['setrecursionlimit']:
            report(ctx, dict(stream='queries', cls='interpreter-recursion-limit'), dict(limit=r['reclimit']),
                          'sys.getrecursionlimit() is %d while a query runs (documented: 3000)' % r['reclimit'])
        for p in r['problems']:
            report(ctx, dict(stream='queries', cls='budget', what=p.split(' (')[0][:60]), dict(input=desc, problem=p, stats=st),
                          'bound of the budget violated on a real query: ' + p)
        cases.append(r['case'])
        metas.append(desc)
    ctx.stat('queries_kinds', kinds)
    ctx.stat('queries_outcomes', outcome)
    ctx.stat('queries_guard_activity', agg)
    def on_fail(fails):
        sub = [cases[i] for i in fails[:6]]
        which = {}
        for part, fn in PART_FNS.items():
            f2, _ = coqf(fn, sub, shard=3, timeout=900)
            for j in f2 or []:
                which.setdefault(fails[j], []).append(part)
        for i in fails[:4]:
            ctx.violation('obligation', dict(
                what='the guard trace recorded from a real query is not accepted by the model (guards: %s); the '
                     'bounds checked directly on the trace held' % which.get(i), stream='queries', input=metas[i],
                case=cases[i][:1500]), nofail=True)
    ctx.jobs.add('queries', QUERY_FN, cases, max(8, len(cases) // 8 + 1), on_fail, 1500)
    if metas:
        ctx.sample(dict(stream='queries', query=metas[0]['query'], line=metas[0]['line'], column=metas[0]['column'],
                        source_head=metas[0]['source'][:300]))


# =============================================================================
# stream `scaling`
def fam_chain(n):
    return 'v0 = 1\n' + ''.join('v%d = v%d\n' % (i, i - 1) for i in range(1, n)) + 'v%d' % (n - 1), n


def fam_diamond(n):
    return ('c = 1\nv0 = 1\n' + ''.join('a%d = v%d\nb%d = v%d\nv%d = a%d if c else b%d\n' % (i, i - 1, i, i - 1, i, i, i)
                                        for i in range(1, n)) + 'v%d' % (n - 1)), 2 * n


def fam_calls(n):
    return ('def f0():\n    return 1\n' + ''.join('def f%d():\n    return f%d()\n' % (i, i - 1) for i in range(1, n))
            + 'x = f%d()\nx' % (n - 1)), 1


def fam_bintree(n):
    return ('def f0(x):\n    return x\n' + ''.join('def f%d(x):\n    return f%d(f%d(x))\n' % (i, i - 1, i - 1) for i in range(1, n))
            + 'x = f%d(1)\nx' % (n - 1)), 1


def fam_bintree_or(n):
    return ('def f0(x):\n    return x\n' + ''.join('def f%d(x):\n    return f%d(x) or f%d(x)\n' % (i, i - 1, i - 1) for i in range(1, n))
            + 'x = f%d(1)\nx' % (n - 1)), 1


def fam_inherit(n):
    return ('class C0:\n    x0 = 1\n' + ''.join('class C%d(C%d):\n    x%d = 1\n' % (i, i - 1, i) for i in range(1, n))
            + 'y = C%d().x0\ny' % (n - 1)), 1


def fam_diamond_inherit(n):
    s = 'class R:\n    r = 1\n'
    prev = 'R'
    for i in range(1, n):
        s += 'class L%d(%s):\n    pass\nclass M%d(%s):\n    pass\nclass J%d(L%d, M%d):\n    pass\n' % (i, prev, i, prev, i, i, i)
        prev = 'J%d' % i
    return s + 'y = %s().r\ny' % prev, 1


def fam_wide_calls(n):
    return (''.join('def f%d():\n    return %d\n' % (i, i) for i in range(n))
            + 'x = ' + ' or '.join('f%d()' % i for i in range(n)) + '\nx'), 1


def fam_hot_call(n):
    return 'def f(a):\n    return a\nx = ' + ' or '.join('f(%d)' % i for i in range(n)) + '\nx', 1


def fam_selfrec(n):
    return ('def f(a):\n    return ' + ' or '.join('f(a + %d)' % i for i in range(max(1, n))) + '\nx = f(1)\nx'), 1


def fam_methods(n):
    s = 'class K:\n    def m0(self):\n        return 1\n'
    for i in range(1, n):
        s += '    def m%d(self):\n        self.a%d = self.m%d()\n        return self.a%d\n' % (i, i, i - 1, i)
    return s + 'y = K().m%d()\ny' % (n - 1), 1


def fam_wide_sum(n):
    # shallow but wide: one expression that needs 3n node inferences in the module scope; beyond
    # n = 100 the per-scope cap fires on the unchanged tree (300 accepted, the rest refused)
    return ''.join('a%d = %d\n' % (i, i) for i in range(n)) + 'x = ' + ' + '.join('a%d' % i for i in range(n)) + '\nx', 1


FAMILIES = dict(wide_sum=fam_wide_sum, chain=fam_chain, diamond=fam_diamond, calls=fam_calls, bintree=fam_bintree, bintree_or=fam_bintree_or,
                inherit=fam_inherit, diamond_inherit=fam_diamond_inherit, wide_calls=fam_wide_calls,
                hot_call=fam_hot_call, selfrec=fam_selfrec, methods=fam_methods)


def count_scopes(src):
    import parso
    mod = parso.parse(src)
    cnt = [1]

    def walk(n):
        for c in getattr(n, 'children', []):
            if c.type in ('funcdef', 'classdef', 'lambdef') or c.type in ('comp_for', 'sync_comp_for'):
                cnt[0] += 1
            walk(c)
    walk(mod)
    return cnt[0]


def _scaling_task(task):
    _warm_up()
    T = install_tracers()
    T.measure_depth = True
    src = task['src']
    ls = src.split('\n')
    r = traced_query(T, src, None, 'infer', len(ls), 0, None, timeout=task.get('timeout', 30))
    T.measure_depth = False
    d = digest_query(r, task['L'])
    d.pop('case', None)
    return d


FRAME_MARGIN = 0.85


def frames_model(results_by_n):
    """Python frames per definition link, measured on the small members of a family."""
    pts = [(n, r['maxdepth'], r['links']) for n, r in sorted(results_by_n.items()) if r.get('ok') and r.get('maxdepth')]
    pts = [p for p in pts if p[2] >= 4]
    if len(pts) < 2:
        return None
    (n1, d1, l1), (n2, d2, l2) = pts[0], pts[-1]
    if l2 == l1:
        return None
    per = (d2 - d1) / (l2 - l1)
    base = d1 - per * l1
    return per, base


def stream_scaling(ctx, L, intensify=False):
    ns = [1, 2, 3, 4, 6, 8, 12, 16, 24, 32, 48, 64] if ctx.quick and not intensify else list(range(1, 65))
    fams = dict(FAMILIES)
    tasks = []
    for fam, fn in fams.items():
        for n in ns:
            src, links = fn(n)
            tasks.append(dict(fam=fam, n=n, src=src, links=links, L=L, timeout=60))
    # the deep acyclic chains beyond the stated range: dedicated probes of the known finding
    for n in (100, 200, 400) + ((128, 256) if intensify else ()):
        src, links = fam_chain(n)
        tasks.append(dict(fam='chain', n=n, src=src, links=links, L=L, timeout=60, probe=True))
    # shallow and wide beyond the cap: the per-scope cap must fire (and nothing else go wrong)
    for n in (200, 400):
        src, links = fam_wide_sum(n)
        tasks.append(dict(fam='wide_sum', n=n, src=src, links=links, L=L, timeout=60, probe=True))
    if intensify:
        for fam in ('calls', 'bintree', 'bintree_or', 'methods', 'selfrec', 'wide_calls'):
            for n in (96, 128, 192, 256):
                src, links = fams[fam](n)
                tasks.append(dict(fam=fam, n=n, src=src, links=links, L=L, timeout=60, probe=True))
    results = pool_with_retry(tasks, _scaling_task, ctx.tmp, 70, 's')
    by = {}
    for t, r in zip(tasks, results):
        r['links'] = t['links']
        by.setdefault(t['fam'], {})[t['n']] = (t, r)
    table = {}
    for fam, rows in sorted(by.items()):
        small = {n: r for n, (t, r) in rows.items() if n <= 32 and not t.get('probe')}
        fm = frames_model(small)
        steps = {}
        for n, (t, r) in sorted(rows.items()):
            desc = dict(family=fam, n=n, source=t['src'] if len(t['src']) < 6000 else t['src'][:6000] + '...', query='infer at the last line')
            ctx.count('scaling', (fam, n))
            if not r.get('ok'):
                # classifier computed from the input: the per-scope cap stops a chain of definitions after
                # cap/2 links (two counted inferences per link); the measured frame cost per link times
                # min(chain length, cap/2) exceeds the interpreter's recursion limit
                pred = None
                if fm is not None:
                    pred = fm[1] + fm[0] * min(t['links'], DOCUMENTED['infer_cap'] // 2)
                overflow_predicted = pred is not None and pred > DOCUMENTED['setrecursionlimit'] * FRAME_MARGIN
                classify_crash(ctx, 'scaling', desc, r,
                               extra=dict(cls='deep-acyclic-chain' if overflow_predicted else 'unpredicted'))
                continue
            for p in r.get('problems', []):
                report(ctx, dict(stream='scaling', cls='budget', what=p.split(' (')[0][:60]), dict(input=desc, problem=p),
                              'bound of the budget violated: ' + p)
            S = count_scopes(t['src'])
            bound = DOCUMENTED['infer_cap'] * S
            if r['steps'] > bound:
                report(ctx, dict(stream='scaling', cls='steps-above-linear-bound'), dict(input=desc, steps=r['steps'], bound=bound),
                              '%d node-inference steps > 300*S = %d' % (r['steps'], bound))
            if not t.get('probe'):
                steps[n] = r['steps']
        # polynomial growth: doubling ratio on the upper half
        worst = 0.0
        for n in sorted(steps):
            if n >= 8 and 2 * n in steps and steps[n] >= 20:
                ratio = steps[2 * n] / steps[n]
                worst = max(worst, ratio)
                if ratio > 4.6:
                    report(ctx, dict(stream='scaling', cls='super-polynomial-growth'),
                                  dict(family=fam, n=n, steps_n=steps[n], steps_2n=steps[2 * n], all=steps),
                                  'node-inference steps grow by x%.1f from n=%d to n=%d (more than quadratic)' % (ratio, n, 2 * n))
        table[fam] = dict(steps={str(k): v for k, v in sorted(steps.items()) if k in (1, 4, 16, 32, 64)},
                          worst_doubling_ratio=round(worst, 2),
                          frames_per_link=None if fm is None else round(fm[0], 1))
    ctx.stat('scaling', table)
    ctx.sample(dict(stream='scaling', family='diamond', steps=table.get('diamond')))


# =============================================================================
def stream_limits(ctx):
    """Constants from the sources = documented constants (generated Coq assertion)."""
    src, notes = read_limits()
    from jedi.inference import recursion
    runtime = {k: getattr(recursion, k, None) for k in LNAMES[:4]}
    ctx.stat('limits_from_source', src)
    L = model_limits(src)
    ok = True
    for n in notes:
        ok = False
        ctx.violation('obligation', dict(what='per-scope inference cap: ' + n, stream='limits'), nofail=True)
    for k in LNAMES[:4]:
        if runtime[k] != src[k]:
            ok = False
            ctx.violation('obligation', dict(what='recursion.%s is %r at run time but %r in the source text' % (k, runtime[k], src[k]),
                                             stream='limits'), nofail=True)
    ctx.count('limits', tuple(sorted((k, str(v)) for k, v in src.items())))
    absent = [k for k in DOCUMENTED if not isinstance(src.get(k), int)]
    case = '(%s, %s)' % (g_limits(L), g_bool(not absent and src['setrecursionlimit'] == DOCUMENTED['setrecursionlimit']))
    fails, err = coqf("(fun c => let '(L, rest) := c in limits_eqb L documented_limits && rest)", [case])
    if err:
        raise RuntimeError('coq evaluation failed (limits): ' + err)
    differ = bool(fails)
    if differ:
        ok = False
    return L, src, differ, ok


def run(ctx):
    common.setup_jedi(os.path.join(ctx.tmp, 'cache'))
    ctx.proofs()
    ctx.cov['fingerprints'] = common.fingerprint(FP)
    ctx.cov['rule'] = (
        'limits: constants parsed from recursion.py/syntax_tree.py/api/__init__.py; '
        'direct: exhaustive op sequences (5 ops x length 4, 3 ops x length 6; longer in thorough; three small limit sets) + long random walks at the real limits + '
        'random small limits on the real ExecutionRecursionDetector; scripted call trees through execution_recursion_decorator; '
        'exhaustive well-bracketed enter/exit/exit-with-exception sequences (length 5 quick / 7 thorough) + random ones on execution_allowed; '
        'scripted re-entrant call trees on every _memoize_default variant; scripted self-consuming generators on the generator cache; '
        'counter sequences across the cap (300, 30000 for builtins) on _limit_value_infers; '
        'queries: seeded cyclic definition graphs (3..40 definitions, 22 kinds of edges) x sampled uses x 5 queries, fresh Script each; '
        'scaling: 12 families, n in {1..64}; non-trivial = at least one guard consulted; distinct by input')
    ctx.assumptions += [
        'the guards are the only modelled mechanism: recursion that bypasses them (e.g. klass.get_filters <-> py__mro__, K1) is found only by the query stream',
        'traces of real queries are compared decision by decision; memo traces are reconstructed from the dict operations of inference_state.memoize_cache',
        'the per-scope cap bounds the NUMBER of node inferences, not their nesting depth: deep acyclic chains exhaust the interpreter stack first (known finding)',
        'work = number of node-inference steps (_infer_node / infer_expr_stmt bodies entered); wall-clock only under the watchdog']
    t = time.time()
    L, src, differ, ok = stream_limits(ctx)
    ctx.stat('wall_limits', round(time.time() - t, 1))
    changed = any(BASE_FP.get(k) != v for k, v in ctx.cov['fingerprints'].items())
    ctx.cov['fingerprints_changed'] = sorted(k for k, v in ctx.cov['fingerprints'].items() if BASE_FP.get(k) != v)
    ctx.cov['intensified'] = bool(changed or differ)
    ctx.jobs = Jobs()
    n_quick = ctx.n
    if changed or differ:
        # a modelled definition (or a limit) changed: three times the random volume for the direct streams
        # (small numbers are enumeration depths: those stay)
        ctx.n = lambda q, t: q if t <= 8 else min(t, 3 * q)
    for name, f in (('direct_exec', lambda: direct_exec(ctx, L)), ('direct_decorator', lambda: direct_decorator(ctx, L)),
                    ('direct_stmt', lambda: direct_stmt(ctx)), ('direct_memo', lambda: direct_memo(ctx)),
                    ('direct_gen', lambda: direct_gen(ctx)), ('direct_infer', lambda: direct_infer(ctx, L, None))):
        t = time.time()
        try:
            f()
        except (AttributeError, TypeError, AssertionError, KeyError, ValueError, IndexError) as e:
            ctx.violation('obligation', dict(what='direct stream %s is broken: the anchored internals changed shape (%r); '
                                                  'the query stream still decides the property' % (name, e), stream=name,
                                             traceback=__import__('traceback').format_exc()[-1500:]), nofail=True)
        ctx.stat('wall_' + name, round(time.time() - t, 1))
    ctx.n = n_quick
    t = time.time()
    stream_queries(ctx, L)
    ctx.stat('wall_queries', round(time.time() - t, 1))
    t = time.time()
    stream_scaling(ctx, L, intensify=differ)
    ctx.stat('wall_scaling', round(time.time() - t, 1))
    t = time.time()
    ctx.jobs.run(ctx)
    ctx.stat('wall_coq_evaluation', round(time.time() - t, 1))
    if differ:
        # the limits in the sources are not the documented ones: the concrete theorems no longer speak about this
        # tree. The scaling/query streams above checked the DOCUMENTED bounds on real queries (blow-up search);
        # whatever they found was reported as an input. Report the broken obligation itself as well.
        ctx.violation('obligation', dict(
            what='limits_from_source <> documented_limits: the constants read from the sources (%s) are not the '
                 'documented ones (%s); C15_exec_budget_documented / C15_infer_cap_linear_documented do not apply' % (
                     {k: src[k] for k in DOCUMENTED}, DOCUMENTED), stream='limits'), nofail=True)


def replay(ctx, path):
    rec = json.load(open(path))
    print(json.dumps(rec, indent=1, ensure_ascii=False)[:4000])
    common.setup_jedi(os.path.join(ctx.tmp, 'cache'))
    inp = rec.get('input') or {}
    src, notes = read_limits()
    L = model_limits(src)
    if isinstance(inp, dict) and inp.get('source') is not None:
        d = os.path.join(ctx.tmp, 'replay')
        os.makedirs(d, exist_ok=True)
        for fn, txt in (inp.get('files') or {}).items():
            open(os.path.join(d, fn), 'w').write(txt)
        source = inp['source']
        if inp.get('family'):
            source = FAMILIES[inp['family']](inp['n'])[0]
            q, line, col = 'infer', len(source.split('\n')), 0
        else:
            q, line, col = inp['query'], inp['line'], inp['column']
        T = install_tracers()
        r = traced_query(T, source, os.path.join(d, 'main.py'), q, line, col, d if inp.get('files') else None, timeout=60)
        dg = digest_query(r, L)
        case = dg.pop('case')
        print('implementation now:', json.dumps({k: dg[k] for k in dg if k != 'st'}, default=repr)[:1500])
        print('guard statistics  :', json.dumps(dg['st']))
        fails, err = coqf(QUERY_FN, [case])
        print('model accepts the recorded trace:', (not fails) if not err else err)
    elif rec.get('case'):
        print('model evaluation of the recorded case is part of the stream; re-run ./check C15 with the same seed')
    return 0
