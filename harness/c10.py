"""C10 — import statements resolve to what Python's import system would load.

Streams
  dotted     sys_path.transform_path_to_dotted on generated (sys.path strings, file path) pairs vs the
             model `transform_path_to_dotted` (string level: suffix removal, __init__, folder boundary,
             -stubs, shortest candidate) and vs an independent pathlib oracle (the answer must be the
             component-wise relative path from a sys.path entry that is a real ancestor folder)
  jedi       generated directory trees on disk (modules / regular packages / namespace folders, sibling
             and cross-root clashes, 2-3 sys.path roots in random order, sometimes a nested root) x
             import forms (import a.b, import a.b as c, from a import b, from . import x, from ..p import q,
             star) issued from scripts and from modules inside packages: Script.infer and
             Script.goto(follow_imports=True) vs the model `jedi_query` evaluated by Coq on the same tree;
             Script._get_module() names vs model `script_module`
  python     the same queries executed by a real CPython subprocess with exactly that sys.path (real imports
             of the side-effect-free files) vs the model `py_query` (both models validated: four corners)
  oracle     the property itself: jedi's answer == CPython's answer for every query (nothing when the import
             fails); relative imports beyond the top-level package carry no claim
  roundtrip  the dotted name jedi derives for every generated file imports back to that file in CPython
             (importlib.util.find_spec); model hypothesis `unshadowed` => imports back
"""
import json
import os
import subprocess
import time

import common
from common import g_str, g_bool, g_list, g_opt, g_nat

IMPORTS = 'From JV Require Import Base.Str Model.C10_Imports.\n'

FP = [('jedi/inference/imports.py', 'Importer.__init__'), ('jedi/inference/imports.py', 'Importer.follow'),
      ('jedi/inference/imports.py', '_level_to_base_import_path'),
      ('jedi/inference/imports.py', 'import_module_by_names'), ('jedi/inference/imports.py', 'import_module'),
      ('jedi/inference/imports.py', 'infer_import'), ('jedi/inference/imports.py', 'goto_import'),
      ('jedi/inference/imports.py', '_prepare_infer_import'),
      ('jedi/inference/sys_path.py', 'transform_path_to_dotted'),
      ('jedi/inference/sys_path.py', 'remove_python_path_suffix'),
      ('jedi/inference/compiled/subprocess/functions.py', 'get_module_info'),
      ('jedi/inference/compiled/subprocess/functions.py', '_find_module'),
      ('jedi/inference/compiled/subprocess/functions.py', '_find_module_py33'),
      ('jedi/inference/compiled/subprocess/functions.py', '_iter_module_names'),
      ('jedi/inference/value/module.py', 'ModuleValue.py__package__'),
      ('jedi/inference/value/module.py', 'ModuleValue.py__path__'),
      ('jedi/inference/value/module.py', 'SubModuleDictMixin.sub_modules_dict'),
      ('jedi/inference/value/module.py', 'ModuleMixin.star_imports'),
      ('jedi/inference/value/namespace.py', 'ImplicitNamespaceValue'),
      ('jedi/inference/names.py', 'ImportName'),
      ('jedi/inference/gradual/typeshed.py', 'import_module_decorator'),
      ('jedi/api/__init__.py', 'Script._get_module')]

NAMES = ['a', 'b', 'c', 'p', 'q']
ATTRS = ['a', 'b', 'p', 'f', 'g']

DEFS = '''
Fixpoint paths_eqb (a b : list path) : bool :=
  match a, b with
  | [], [] => true
  | x :: a', y :: b' => strs_eqb x y && paths_eqb a' b'
  | _, _ => false
  end.
Definition res_eqb (a b : res) : bool :=
  match a, b with
  | RFile x, RFile y => strs_eqb x y
  | RNs x, RNs y => paths_eqb x y
  | RAttr f n d, RAttr f' n' d' => strs_eqb f f' && str_eqb n n' && Bool.eqb d d'
  | RVal, RVal => true
  | RUnres, RUnres => true
  | RNone, RNone => true
  | RBeyond, RBeyond => true
  | _, _ => false
  end.
Definition mval_eqb (a b : mval) : bool :=
  match a, b with
  | VMod f p n, VMod f' p' n' => strs_eqb f f' && Bool.eqb p p' && strs_eqb n n'
  | VNs n ps, VNs n' ps' => strs_eqb n n' && paths_eqb ps ps'
  | _, _ => false
  end.
Inductive chk :=
| CQ (self_file : path) (q : query) (ei eg : res) (py : option (option (list str * bool) * res))
| CSelf (file : path) (names : list str) (is_pkg : bool)
| CU (r : path) (names : list str) (is_pkg : bool) (valid : bool).
(* 0 = agrees; bit 1: infer, 2: goto, 4: python model, 8: script module, 16: unshadowed => imports back *)
Definition run_chk (fs : node) (roots : list path) (c : chk) : N :=
  match c with
  | CQ sf q ei eg py =>
      let self := script_module roots sf in
      (if res_eqb (obs false (jedi_query false fs roots self q)) ei then 0 else 1) +
      (if res_eqb (obs true (jedi_query true fs roots self q)) eg then 0 else 2) +
      match py with
      | Some (D, e) => if res_eqb (py_query fs roots D q) e then 0 else 4
      | None => 0
      end
  | CSelf f names is_pkg => if mval_eqb (script_module roots f) (VMod f is_pkg names) then 0 else 8
  | CU r names is_pkg valid => if implb (unshadowed fs roots r names is_pkg) valid then 0 else 16
  end%N.
Definition Q (l : nat) (p : list str) (n pr : option str) (al : bool) : query :=
  {| q_level := l; q_path := p; q_name := n; q_probe := pr; q_alias := al |}.
Definition opt_strs_eqb (a b : option (list str)) : bool :=
  match a, b with
  | None, None => true
  | Some x, Some y => strs_eqb x y
  | _, _ => false
  end.
Definition run_dotted (c : list str * path * option (list str) * bool) : bool :=
  let '(sp, mp, names, is_pkg) := c in
  let '(n', p') := transform_path_to_dotted sp mp in
  opt_strs_eqb n' names && Bool.eqb p' is_pkg.
'''


# ------------------------------------------------------------------ trees
def gen_file(rng, st):
    st['k'] += 1
    attrs = []
    for n in rng.sample(ATTRS, rng.choice([0, 1, 1, 2, 3])):
        attrs.append([n, rng.random() < 0.6])
    return ['F', attrs, st['k']]


def gen_dir(rng, depth, st, maxdepth=4):
    ch = {}
    k = rng.choice([1, 2, 2, 3, 3]) if depth < 3 else rng.choice([0, 1, 2])
    for name in rng.sample(NAMES, k):
        kind = rng.choice(['mod', 'mod', 'mod', 'pkg', 'pkg', 'pkg', 'ns', 'ns', 'mod+pkg', 'mod+ns'])
        if depth >= maxdepth:
            kind = 'mod'
        if 'mod' in kind:
            ch[name + '.py'] = gen_file(rng, st)
        if 'pkg' in kind:
            d = gen_dir(rng, depth + 1, st, maxdepth)
            d[1]['__init__.py'] = gen_file(rng, st)
            ch[name] = d
        if 'ns' in kind:
            ch[name] = gen_dir(rng, depth + 1, st, maxdepth)
    return ['D', ch]


def walk(node, pre=()):
    yield list(pre), node
    if node[0] == 'D':
        for n in sorted(node[1]):
            yield from walk(node[1][n], pre + (n,))


def lookup(tree, comps):
    n = tree
    for c in comps:
        if n[0] != 'D' or c not in n[1]:
            return None
        n = n[1][c]
    return n


def gen_tree(rng):
    st = {'k': 0}
    nroots = rng.choice([2, 2, 3])
    top = {}
    roots = []
    for i in range(nroots):
        rn = 'r%d' % (i + 1)
        top[rn] = gen_dir(rng, 1, st)
        if rng.random() < 0.5:
            top[rn][1]['main.py'] = gen_file(rng, st)
        roots.append([rn])
    if rng.random() < 0.4:
        # directed family: ONE namespace package spread over several roots whose portions hold the same
        # child names (module in one portion, module / nested namespace / package in another): which
        # portion wins depends on the order of the portions = the order of sys.path, not on their names
        nsname = rng.choice(NAMES)
        shared = rng.sample([x for x in NAMES if x != nsname], 3)
        grand = rng.choice(NAMES)
        for rn in list(top):
            if rng.random() < 0.85:
                ch = {}
                for c in shared:
                    r = rng.random()
                    if r < 0.45:
                        ch[c + '.py'] = gen_file(rng, st)
                    elif r < 0.7:
                        ch[c] = ['D', {grand + '.py': gen_file(rng, st)}]
                    elif r < 0.8:
                        ch[c] = ['D', {'__init__.py': gen_file(rng, st), grand + '.py': gen_file(rng, st)}]
                top[rn][1].pop(nsname + '.py', None)
                top[rn][1][nsname] = ['D', ch]
    top['scr'] = ['D', {'main.py': gen_file(rng, st)}]
    if rng.random() < 0.5:
        top['scr'][1][rng.choice(NAMES) + '.py'] = gen_file(rng, st)
    rng.shuffle(roots)
    if rng.random() < 0.15:
        # a nested root: some directory inside a root is on sys.path as well
        cands = [p for p, n in walk(['D', top]) if n[0] == 'D' and len(p) >= 2 and p[0] != 'scr']
        if cands:
            roots.insert(rng.randint(0, len(roots)), rng.choice(cands))
    return dict(tree=['D', top], roots=roots)


def file_text(node):
    out = ['# generated']
    for (a, is_def) in node[1]:
        k = node[2] * 100 + ATTRS.index(a)
        out.append('def %s():\n    return %d' % (a, k) if is_def else '%s = %d' % (a, k))
    return '\n'.join(out) + '\n'


def materialise(tree, base):
    for comps, n in walk(tree):
        p = os.path.join(base, *comps)
        if n[0] == 'D':
            os.makedirs(p, exist_ok=True)
        else:
            with open(p, 'w') as f:
                f.write(file_text(n))


# ---------------------------------------------------------------- queries
def rand_path(rng, t, start_dirs, maxlen=3):
    """a dotted path that mostly follows existing things below start_dirs"""
    path = []
    dirs = list(start_dirs)
    for _ in range(rng.randint(1, maxlen)):
        avail = []
        for d in dirs:
            n = lookup(t, d)
            if n and n[0] == 'D':
                for c, cn in n[1].items():
                    if cn[0] == 'D':
                        avail.append(c)
                    elif c.endswith('.py') and c != '__init__.py':
                        avail.append(c[:-3])
        if avail and rng.random() < 0.88:
            nm = rng.choice(sorted(avail))
        else:
            nm = rng.choice(NAMES + ['zz'])
        path.append(nm)
        dirs = [d + [nm] for d in dirs]
    return path


def gen_queries(rng, T, n_importers, per):
    t, roots = T['tree'], T['roots']
    files = [p for p, n in walk(t) if n[0] == 'F']
    inner = [p for p in files if len(p) >= 3]
    importers = rng.sample(files, min(n_importers, len(files)))
    if inner and not any(len(p) >= 3 for p in importers):
        importers[0] = rng.choice(inner)
    out = []
    for imp in importers:
        d = imp[:-1]
        own = lookup(t, imp)
        own_attrs = {a for a, _ in own[1]}
        own_dir = lookup(t, d)[1]
        for _ in range(per):
            form = rng.choice(['abs', 'abs', 'from', 'from', 'rel', 'rel', 'rel', 'star'])
            level = 0
            if form == 'rel' or (form == 'star' and rng.random() < 0.4):
                level = rng.choice([1, 1, 1, 2, 2, 3, 4])
            if level:
                up = d[:len(d) - (level - 1)] if level - 1 <= len(d) else []
                start = [up]
            else:
                start = roots
            if form == 'abs':
                q = dict(level=0, path=rand_path(rng, t, start), name=None, probe=None)
            elif form == 'star':
                path = rand_path(rng, t, start, 2)
                if level and rng.random() < 0.3:
                    path = []
                # the probe must not be a name of the analysed file itself (or of its own package folder)
                cands = [x for x in ATTRS + NAMES if x not in own_attrs
                         and not (imp[-1] == '__init__.py' and (x in own_dir or x + '.py' in own_dir))]
                if not cands:
                    continue
                q = dict(level=level, path=path, name=None, probe=rng.choice(cands))
            else:
                path = rand_path(rng, t, start, 3)
                if level and rng.random() < 0.35:
                    path = path[:1]
                r = rng.random()
                if r < 0.55 and len(path) >= 1 and (level or len(path) >= 2) and path[-1] not in own_attrs:
                    q = dict(level=level, path=path[:-1], name=path[-1], probe=None)
                elif r < 0.85:
                    q = dict(level=level, path=path, name=rng.choice(ATTRS), probe=None)
                    if q['name'] in own_attrs:
                        continue
                else:
                    q = dict(level=level, path=path, name=None, probe=None)
            if q['name'] is None and q['probe'] is None and not q['path']:
                continue
            q['importer'] = imp
            q['surface'] = rng.randint(0, 3)
            out.append(q)
    return out


def surface(q, text=''):
    """(code, line, col): the query in one of several surface forms, appended to the file's own text"""
    dots = '.' * q['level']
    dp = '.'.join(q['path'])
    s = q['surface']
    l0 = text.count('\n')
    if q['probe'] is not None:
        return text + 'from %s%s import *\n%s\n' % (dots, dp, q['probe']), l0 + 2, 0
    if q['name'] is not None:
        if s == 0:
            code = 'from %s%s import %s\n' % (dots, dp, q['name'])
            return text + code, l0 + 1, len(code) - 2
        if s == 1:
            code = 'from %s%s import %s as zq\n' % (dots, dp, q['name'])
            return text + code, l0 + 1, len(code) - 2
        if s == 2:
            code = 'from %s%s import (zy, %s)\n' % (dots, dp, q['name'])
            return text + code, l0 + 1, len(code) - 3
        code = 'x = 1\nfrom %s%s import %s, zy\n' % (dots, dp, q['name'])
        return text + code, l0 + 2, len('from %s%s import ' % (dots, dp))
    if q['level'] == 0:
        if s == 0:
            code = 'import %s\n' % dp
            return text + code, l0 + 1, len(code) - 2
        if s == 1:
            code = 'import %s as zq\n' % dp
            return text + code, l0 + 1, len(code) - 2
        if s == 2:
            return text + 'import %s.zy.zx\n' % dp, l0 + 1, len('import ' + dp) - 1
        return text + 'from %s.zy import zx\n' % dp, l0 + 1, len('from ' + dp) - 1
    # relative, cursor on the last name of the from-part
    if s % 2 == 0:
        code = 'from %s%s.zy import zx\n' % (dots, dp)
    else:
        code = 'from %s%s import zx\n' % (dots, dp)
    return text + code, l0 + 1, len('from ' + dots + dp) - 1


# ----------------------------------------------------------------- jedi
def canon_defs(ds, base):
    out = []
    for d in ds:
        mp = d.module_path
        rel = os.path.relpath(str(mp), base) if mp is not None else None
        if d.type == 'module':
            # a sub-module name that does not resolve shows the module_path of its parent package
            out.append(['file', rel if d._name.infer() else None])
        elif d.type == 'namespace':
            ps = []
            for v in d._name.infer():
                ps += [os.path.relpath(str(p), base) for p in v.py__path__()]
            out.append(['ns', ps])
        elif d.type in ('function', 'class', 'statement') and rel is not None:
            out.append(['attr', rel, d.name, d.type != 'statement'])
        elif d.type == 'instance' and d.full_name == 'builtins.int':
            out.append(['val'])
        else:
            out.append(['other', d.type, rel, d.full_name])
    return sorted(out, key=repr)


def run_jedi(base, T, queries):
    import jedi
    from parso.cache import parser_cache
    roots = [os.path.join(base, *r) for r in T['roots']]
    proj = jedi.Project(base, sys_path=roots, smart_sys_path=False)
    res = []
    for q in queries:
        text = file_text(lookup(T['tree'], q['importer']))
        code, line, col = surface(q, text)
        path = os.path.join(base, *q['importer'])
        r = dict(code=code, line=line, col=col)
        try:
            # every query as in a fresh process: no parse tree of an earlier buffer for the same path
            parser_cache.clear()
            s = jedi.Script(code, path=path, project=proj)
            m = s._get_module()
            r['self'] = [list(m.string_names), bool(m.is_package())]
            r['infer'] = canon_defs(s.infer(line, col), base)
            r['goto'] = canon_defs(s.goto(line, col, follow_imports=True), base)
        except Exception as e:
            r['exc'] = common.exc_sig(e)
        res.append(r)
    return res


# ----------------------------------------------------------------- oracle
ORACLE = r'''
import sys, json, os, types, importlib, importlib.util
req = json.load(sys.stdin)
base = req['base']
roots = req['roots']
sys.path[:] = roots + [p for p in sys.path if p]
sys.dont_write_bytecode = True
baseline = set(sys.modules)

def purge():
    for k in list(sys.modules):
        if k not in baseline:
            del sys.modules[k]
    importlib.invalidate_caches()

def rel(p):
    return os.path.relpath(p, base)

def describe(o):
    if isinstance(o, types.ModuleType):
        f = getattr(o, '__file__', None)
        if f:
            return ['file', rel(f)]
        return ['ns', [rel(p) for p in o.__path__]]
    if isinstance(o, types.FunctionType):
        return ['attr', rel(o.__code__.co_filename), o.__name__, True]
    if isinstance(o, int):
        return ['int', o]
    return ['other', repr(o)]

def classify(e):
    if isinstance(e, ModuleNotFoundError):
        return ['none', 'notfound', str(e)]
    if isinstance(e, ImportError):
        m = str(e)
        if 'beyond top-level' in m or 'no known parent' in m:
            return ['none', 'beyond', m]
        if 'cannot import name' in m:
            return ['none', 'cannot', m]
        return ['none', 'importerror', m]
    return ['error', type(e).__name__, str(e)]

out = {'names': {}, 'res': [], 'target': []}
# which dotted names import back to which file
for key, cands in req['names'].items():
    ok = []
    for nm in cands:
        purge()
        try:
            spec = importlib.util.find_spec(nm)
            if spec is not None and spec.origin and \
                    os.path.realpath(spec.origin) == os.path.realpath(os.path.join(base, key)):
                ok.append(nm)
        except Exception as e:
            pass
    out['names'][key] = ok

for q in req['queries']:
    purge()
    D = q['D']
    valid = D is not None and D in out['names'].get(q['file'], [])
    target = None
    if D is not None and not valid and q['level'] > 0:
        out['res'].append(['skip', 'importer-name-does-not-import-back'])
        out['target'].append(None)
        continue
    try:
        fn = os.path.join(base, q['file'])
        if D is None or not valid:
            g = {'__name__': '__main__', '__package__': None, '__spec__': None, '__file__': fn}
        else:
            P = D.rpartition('.')[0]
            if P:
                importlib.import_module(P)
            m = types.ModuleType(D)
            m.__file__ = fn
            m.__package__ = D if q['is_pkg'] else P
            m.__spec__ = None
            if q['is_pkg']:
                m.__path__ = [os.path.dirname(fn)]
            sys.modules[D] = m
            g = m.__dict__
        exec(compile(open(fn).read(), fn, 'exec'), g)
        dots = '.' * q['level']
        dp = '.'.join(q['path'])
        if q['level'] and not g.get('__package__'):
            raise ImportError('attempted relative import with no known parent package')
        absname = importlib.util.resolve_name(dots + dp, g.get('__package__')) if q['level'] else dp
        if q['probe'] is not None:
            exec('from %s%s import *' % (dots, dp), g)
            target = describe(sys.modules[absname])
            if q['probe'] in g:
                r = describe(g[q['probe']])
            else:
                r = ['none', 'unbound', '']
        elif q['name'] is not None:
            try:
                exec('from %s%s import %s' % (dots, dp, q['name']), g)
            finally:
                if absname in sys.modules:
                    target = describe(sys.modules[absname])
            r = describe(g[q['name']])
        elif q['level'] == 0:
            exec('import ' + dp, g)
            r = describe(sys.modules[dp])
        else:
            r = describe(importlib.import_module(dots + dp, g['__package__']))
    except BaseException as e:
        r = classify(e)
    out['res'].append(r)
    out['target'].append(target)
json.dump(out, sys.stdout)
'''


def candidates(T, imp):
    """dotted names under which the file could be imported: one per sys.path root above it"""
    out = []
    stem = imp[:-1] + [imp[-1][:-3]]
    is_pkg = stem[-1] == '__init__'
    if is_pkg:
        stem = stem[:-1]
    for r in T['roots']:
        if len(r) < len(stem) and stem[:len(r)] == r:
            out.append(('.'.join(stem[len(r):]), r))
    return out, is_pkg


def run_oracle(base, T, queries, jres, all_files):
    t = T['tree']
    names = {}
    for f in all_files:
        names['/'.join(f)] = [n for n, _ in candidates(T, f)[0]]
    qs = []
    for q, jr in zip(queries, jres):
        D, is_pkg = None, False
        if 'self' in jr and jr['self'][0] != ['__main__']:
            D, is_pkg = '.'.join(jr['self'][0]), jr['self'][1]
        qs.append(dict(D=D, is_pkg=is_pkg, file='/'.join(q['importer']), level=q['level'], path=q['path'],
                       name=q['name'], probe=q['probe']))
    req = dict(base=base, roots=[os.path.join(base, *r) for r in T['roots']], names=names, queries=qs)
    env = dict(os.environ)
    env.pop('PYTHONPATH', None)
    env['PYTHONDONTWRITEBYTECODE'] = '1'
    p = subprocess.run([common.PY, '-c', ORACLE], input=json.dumps(req), text=True, capture_output=True,
                       timeout=600, env=env)
    if p.returncode != 0:
        raise RuntimeError('oracle failed: ' + p.stderr[-2000:])
    out = json.loads(p.stdout)
    kmap = {}
    for comps, n in walk(t):
        if n[0] == 'F':
            for (a, is_def) in n[1]:
                kmap[n[2] * 100 + ATTRS.index(a)] = ('/'.join(comps), a)
    res = []
    for r in out['res']:
        if r[0] == 'int':
            f, a = kmap[r[1]]
            r = ['attr', f, a, False]
        res.append(r)
    return out['names'], res, out['target']


def _tree_task(task):
    idx, T, queries, tmp = task
    base = os.path.join(tmp, 't%d' % idx)
    os.makedirs(base)
    materialise(T['tree'], base)
    files = [p for p, n in walk(T['tree']) if n[0] == 'F']
    try:
        jres = run_jedi(base, T, queries)
        # the name jedi derives for every file of the tree (round trip)
        from jedi.inference.sys_path import transform_path_to_dotted
        from pathlib import Path
        roots = [os.path.join(base, *r) for r in T['roots']]
        dotted = {}
        for f in files:
            try:
                names, is_pkg = transform_path_to_dotted(roots, Path(os.path.join(base, *f)))
                dotted['/'.join(f)] = [list(names) if names is not None else None, bool(is_pkg)]
            except Exception as e:
                dotted['/'.join(f)] = dict(exc=common.exc_sig(e))
        valid, ores, targets = run_oracle(base, T, queries, jres, files)
        return dict(base=base, jres=jres, valid=valid, ores=ores, targets=targets, dotted=dotted)
    except Exception as e:
        import traceback
        return dict(base=base, fail=traceback.format_exc()[-2000:])


# ------------------------------------------------------------- Coq literals
def g_path(comps):
    return g_list(comps, g_str, 'str')


class Lit:
    """Gallina literals for one tree with interned strings (elaborating list literals is the
    expensive part of a case file; every distinct string is written once)."""

    def __init__(self, k, base):
        self.pre = 't%d_' % k
        self.base = base
        self.strs = {}
        self.bcomps = [c for c in base.split('/') if c]

    def s(self, x):
        if x not in self.strs:
            self.strs[x] = '%ss%d' % (self.pre, len(self.strs))
        return self.strs[x]

    def names(self, comps):
        return '[' + '; '.join(self.s(c) for c in comps) + ']' if comps else '(@nil str)'

    def path(self, rel):
        """path (string or component list) below base -> absolute component list"""
        comps = [c for c in rel.split('/') if c and c != '.'] if isinstance(rel, str) else list(rel)
        return '(%sB ++ %s)' % (self.pre, self.names(comps)) if comps else '%sB' % self.pre

    def node(self, n):
        if n[0] == 'F':
            return '(File %s)' % g_list(n[1], lambda a: '(%s, %s)' % (self.s(a[0]), g_bool(a[1])), 'str * bool')
        return '(Dir %s)' % g_list(sorted(n[1].items()), lambda kv: '(%s, %s)' % (self.s(kv[0]), self.node(kv[1])),
                                   'str * node')

    def fs(self, tree):
        n = tree
        for c in reversed(self.bcomps):
            n = ['D', {c: n}]
        return self.node(n)

    def query(self, q):
        return '(Q %s %s %s %s %s)' % (g_nat(q['level']), self.names(q['path']), g_opt(q['name'], self.s),
                                       g_opt(q['probe'], self.s),
                                       g_bool(q['name'] is not None and q.get('surface') == 1))

    def res(self, r):
        """canonical observation -> Gallina res (None if it has no counterpart)"""
        if r == []:
            return 'RNone'
        if len(r) != 1:
            return None
        r = r[0]
        if r[0] == 'file':
            return 'RUnres' if r[1] is None else '(RFile %s)' % self.path(r[1])
        if r[0] == 'ns':
            return '(RNs %s)' % g_list(r[1], self.path, 'path')
        if r[0] == 'attr':
            return '(RAttr %s %s %s)' % (self.path(r[1]), self.s(r[2]), g_bool(r[3]))
        if r[0] == 'val':
            return 'RVal'
        return None

    def header(self, T):
        fs = self.fs(T['tree'])
        roots = g_list(T['roots'], self.path, 'path')
        B = self.names(self.bcomps)
        out = ['Definition %s : str := %s.' % (v, g_str(k)) for k, v in self.strs.items()]
        out.append('Definition %sB : path := %s.' % (self.pre, B))
        out.append('Definition %sfs : node := %s.' % (self.pre, fs))
        out.append('Definition %sroots : list path := %s.' % (self.pre, roots))
        return '\n'.join(out) + '\n'


def oracle_expect(o):
    """(expected infer, expected goto) canonical lists for an oracle answer; None = no claim"""
    if o[0] == 'file':
        return [['file', o[1]]], [['file', o[1]]]
    if o[0] == 'ns':
        return [['ns', o[1]]], [['ns', o[1]]]
    if o[0] == 'attr':
        g = [['attr', o[1], o[2], o[3]]]
        return (g if o[3] else [['val']]), g
    if o[0] == 'none' and o[1] in ('notfound', 'cannot', 'unbound', 'importerror'):
        return [], []
    return None


def oracle_res(L, o):
    if o[0] == 'none' and o[1] == 'beyond':
        return 'RBeyond'
    e = oracle_expect(o)
    return None if e is None else L.res(e[1])


def coq_trees(items, per_shard):
    """items: list of (Lit, T, [chk terms]).  Returns {tree index: [code per check]}."""
    import re
    from concurrent.futures import ThreadPoolExecutor
    shards = [list(enumerate(items))[i:i + per_shard] for i in range(0, len(items), per_shard)]

    def one(sh):
        body = [common._EVAL_HDR, IMPORTS, DEFS]
        for k, (L, T, chks) in sh:
            hdr_chks = g_list(chks, lambda c: c, 'chk')      # interns the remaining strings
            body.append(L.header(T))
            body.append('Definition %schks : list chk := %s.' % (L.pre, hdr_chks))
            body.append('Eval vm_compute in (%d%%N, map (run_chk %sfs %sroots) %schks).' % (k, L.pre, L.pre, L.pre))
        rc, out = common._coqc_text('\n'.join(body) + '\n', 'c10_%d' % sh[0][0], 1200)
        if rc != 0:
            return None, out[-3000:]
        res = {}
        for m in re.finditer(r'=\s*\((\d+)%N,\s*(\[[^\]]*\]|nil)\)\s*:\s*N \* list N', out, flags=re.S):
            res[int(m.group(1))] = [int(x) for x in re.findall(r'(\d+)%N', m.group(2))]
        if len(res) != len(sh):
            return None, 'unparsable coqc output: ' + out[-2000:]
        return res, None

    allres = {}
    with ThreadPoolExecutor(max_workers=common.NPROC) as ex:
        for res, e in ex.map(one, shards):
            if e:
                raise RuntimeError('coq evaluation failed (trees): ' + e)
            allres.update(res)
    return allres


def abs_target(selfn, self_pkg, is_main, q):
    """absolute dotted path of the from-part after level rewriting (None beyond the top level)"""
    if q['level'] == 0:
        return list(q['path'])
    pkg = [] if is_main else (selfn if self_pkg else selfn[:-1])
    if q['level'] > len(pkg):
        return None
    return pkg[:len(pkg) - (q['level'] - 1)] + list(q['path'])


# ------------------------------------------------------------- tree streams
def stream_trees(ctx):
    ntrees = ctx.n(36, 240)
    tasks = []
    for i in range(ntrees):
        T = gen_tree(ctx.rng)
        qs = gen_queries(ctx.rng, T, ctx.rng.choice([4, 5, 6]), 7)
        tasks.append((i, T, qs, ctx.tmp))
    t0 = time.time()
    results = common.pmap(_tree_task, tasks, chunksize=1)
    ctx.stat('wall_trees_jedi_and_cpython', round(time.time() - t0, 1))
    dist = dict(forms={}, oracle_kinds={}, self_kinds={}, roots={}, nested_roots=0, beyond=0, skipped_rel=0,
                heuristic=0)
    items, metas = [], []
    pending = []          # property deviations waiting for the model's prediction
    for (idx, T, qs, _), R in zip(tasks, results):
        if 'fail' in R:
            raise RuntimeError('tree task failed: ' + R['fail'])
        base = R['base']
        L = Lit(idx, base)
        rel_roots = ['/'.join(r) for r in T['roots']]
        dist['roots'][len(T['roots'])] = dist['roots'].get(len(T['roots']), 0) + 1
        dist['nested_roots'] += any(len(r) > 1 for r in T['roots'])
        chks, cmeta = [], []
        treekey = json.dumps([T['tree'], T['roots']], sort_keys=True)

        # ---- round trip for every file of the tree
        for f, dv in sorted(R['dotted'].items()):
            if isinstance(dv, dict):
                ctx.deviation(dict(stream='roundtrip', exc=dv['exc']['exc'], site=dv['exc']['site']),
                              dict(tree=T, file=f, error=dv['exc']), 'transform_path_to_dotted raised')
                continue
            names, is_pkg = dv
            cands, _ = candidates(T, f.split('/'))
            valid = R['valid'].get(f, [])
            ctx.count('roundtrip', (treekey, f), nontrivial=names is not None)
            chks.append('(CSelf %s %s %s)' % (L.path(f), L.names(names if names is not None else ['__main__']),
                                             g_bool(is_pkg)))
            cmeta.append(dict(kind='self', tree=T, file=f, jedi=dv))
            if names is None:
                if cands:
                    ctx.deviation(dict(stream='roundtrip', cls='no-name-for-file-under-root'),
                                  dict(tree=T, file=f, candidates=[c for c, _ in cands]),
                                  'file lies under a sys.path entry but jedi derives no dotted name')
                continue
            dn = '.'.join(names)
            best = None                 # the sys.path entry the name is relative to: first of the shortest
            for c, r in cands:
                if best is None or len(c.split('.')) < len(best[0].split('.')):
                    best = (c, r)
            if best is None or best[0] != dn:
                ctx.deviation(dict(stream='roundtrip', cls='not-a-relative-name'),
                              dict(tree=T, file=f, jedi=dv, candidates=[c for c, _ in cands]),
                              'the derived dotted name is not the path of the file relative to a sys.path entry')
                continue
            chks.append('(CU %s %s %s %s)' % (L.path(best[1]), L.names(names), g_bool(is_pkg), g_bool(dn in valid)))
            cmeta.append(dict(kind='unshadowed', tree=T, file=f, name=dn, valid=dn in valid))
            if dn in valid:
                dist['self_kinds']['imports-back'] = dist['self_kinds'].get('imports-back', 0) + 1
            elif valid:
                dist['self_kinds']['other-name-imports-back'] = dist['self_kinds'].get('other-name-imports-back', 0) + 1
                pending.append(dict(tree=idx, chk=len(chks) - 2, bits=8, stream='roundtrip',
                                    cls='shortest-name-shadowed',
                                    data=dict(tree=T, file=f, jedi_name=dn, names_that_import_back=valid),
                                    what='jedi derives %r for %s, which CPython imports from another file; %r would '
                                         'import it' % (dn, f, valid)))
            else:
                dist['self_kinds']['unimportable'] = dist['self_kinds'].get('unimportable', 0) + 1

        # ---- queries
        for q, jr, o, tgt in zip(qs, R['jres'], R['ores'], R['targets']):
            form = ('star' if q['probe'] is not None else 'from' if q['name'] else 'module') + \
                   ('-rel%d' % q['level'] if q['level'] else '')
            imp = '/'.join(q['importer'])
            qdata = dict(tree=T, importer=imp, query={k: q[k] for k in ('level', 'path', 'name', 'probe', 'surface')},
                         code=jr.get('code'), line=jr.get('line'), column=jr.get('col'))
            if 'exc' in jr:
                ctx.deviation(dict(stream='jedi', exc=jr['exc']['exc'], site=jr['exc']['site']),
                              dict(error=jr['exc'], **qdata), 'Script.infer/goto raised %s' % jr['exc']['exc'])
                continue
            selfn, self_pkg = jr['self']
            is_main = selfn == ['__main__']
            x = q['name'] if q['name'] is not None else q['probe']
            at = abs_target(selfn, self_pkg, is_main, q)
            dist['forms'][form] = dist['forms'].get(form, 0) + 1
            heuristic = at is None
            dist['heuristic'] += heuristic
            gi, gg = L.res(jr['infer']), L.res(jr['goto'])
            ctx.count('jedi', (treekey, imp, q['level'], tuple(q['path']), q['name'], q['probe'], q['surface']),
                      nontrivial=bool(jr['infer'] or jr['goto']))
            if gi is None or gg is None:
                ctx.deviation(dict(stream='jedi', cls='unexpected-shape'), dict(jedi=jr, **qdata),
                              'infer/goto returned several definitions or a definition that is neither a module, '
                              'a namespace nor a name of a generated file')
                continue
            ci = len(chks)
            py = 'None'
            dn = '.'.join(selfn)
            d_valid = (not is_main) and dn in R['valid'].get(imp, [])
            meta = dict(kind='query', jedi=jr, cpython=o, importer_name=dn if d_valid else None, **qdata)
            if o[0] == 'skip':
                dist['skipped_rel'] += 1
            elif o[0] in ('error', 'other', 'int'):
                ctx.violation('obligation', dict(what='oracle subprocess could not classify the import', oracle=o,
                                                 **qdata), nofail=True)
            else:
                ok = o[0] + (':' + o[1] if o[0] == 'none' else '')
                dist['oracle_kinds'][ok] = dist['oracle_kinds'].get(ok, 0) + 1
                go = oracle_res(L, o)
                ctx.count('python', (treekey, imp, q['level'], tuple(q['path']), q['name'], q['probe']),
                          nontrivial=o[0] != 'none')
                if go is not None:
                    gD = '(Some (%s, %s))' % (L.names(selfn), g_bool(self_pkg)) if d_valid else 'None'
                    py = '(Some (%s, %s))' % (gD, go)
            chks.append('(CQ %s %s %s %s %s)' % (L.path(imp), L.query(q), gi, gg, py))
            cmeta.append(meta)
            # the property itself
            exp = oracle_expect(o) if o[0] not in ('skip', 'error', 'other', 'int') else None
            if exp is None:
                dist['beyond'] += o[0] == 'none'
                continue
            ctx.count('oracle', (treekey, imp, q['level'], tuple(q['path']), q['name'], q['probe'], q['surface']),
                      nontrivial=o[0] != 'none')
            if jr['infer'] != exp[0] or jr['goto'] != exp[1]:
                full = (at + ([x] if x is not None else [])) if at is not None else None
                if not is_main and not d_valid and q['level'] == 0 and full[:len(selfn)] == selfn:
                    cls = 'shadowed-self'
                elif q['probe'] is not None and tgt and tgt[0] == 'ns':
                    cls = 'star-namespace'
                elif d_valid and x is not None and o[0] in ('file', 'ns') and full is not None and \
                        len(full) < len(selfn) and selfn[:len(full)] == full:
                    cls = 'ancestor-submodule'
                else:
                    cls = 'unclassified'
                pending.append(dict(tree=idx, chk=ci, bits=3, stream='oracle', cls=cls,
                                    data=dict(jedi_infer=jr['infer'], jedi_goto=jr['goto'], cpython=o,
                                              importer_name=dn, sys_path=rel_roots, **qdata),
                                    what='%s in %s: jedi infer %r goto %r, CPython %r' % (
                                        jr['code'].split('\n')[-3 if q['probe'] is not None else -2], imp,
                                        jr['infer'], jr['goto'], o[:3])))
        items.append((L, T, chks))
        metas.append(cmeta)

    ctx.stat('trees', dist)
    # ---- both models on the same inputs
    t0 = time.time()
    codes = coq_trees(items, max(1, (len(items) + common.NPROC - 1) // common.NPROC))
    ctx.stat('wall_trees_coq', round(time.time() - t0, 1))
    reported = set()
    for p in pending:
        # predicted = the jedi model reproduces jedi's (wrong) answer on this input
        predicted = not (codes[p['tree']][p['chk']] & p['bits'])
        reported.add((p['tree'], p['chk']))
        ctx.deviation(dict(stream=p['stream'], cls=p['cls'], predicted=predicted), p['data'], p['what'])
    n_rep = 0
    for ti in sorted(codes):
        for ci, code in enumerate(codes[ti]):
            if not code:
                continue
            cm = metas[ti][ci]
            if (ti, ci) in reported and not (code & ~3 & ~8):
                continue      # already reported as a failing input of the property (predicted=False)
            n_rep += 1
            if n_rep > 6:
                break
            what = []
            if code & 1:
                what.append('correspondence jedi_query (infer): model and Script.infer differ; CPython agrees with jedi or makes no claim')
            if code & 2:
                what.append('correspondence jedi_query (goto): model and Script.goto(follow_imports=True) differ; CPython agrees with jedi or makes no claim')
            if code & 4:
                what.append('correspondence py_query: the model of importlib and the real CPython import differ')
            if code & 8:
                what.append('correspondence script_module: model transform_path_to_dotted and Script._get_module / transform_path_to_dotted differ')
            if code & 16:
                what.append('model hypothesis `unshadowed` holds but CPython does not import the derived name back to the file (theorem dotted_roundtrip would be false of reality)')
            ctx.violation('obligation', dict(what='; '.join(what), case=cm, model_code=code), nofail=True)
    for cmeta in metas[:1]:
        for cm in cmeta:
            if cm['kind'] == 'query' and cm['jedi']['infer']:
                ctx.sample(dict(stream='jedi/python/oracle', importer=cm['importer'], code=cm['code'][-60:],
                                infer=cm['jedi']['infer'], goto=cm['jedi']['goto'], cpython=cm['cpython']))
                break


# ------------------------------------------------------------ dotted stream
COMPS = ['foo', 'ba', 'bar', 'baz', 'b', 'r', 'foo-stubs', 'x.y', 'pkg', 'a b', 'é', 'stubs', '-stubs', 'x-stubs']
STEMS = ['baz', 'bar', 'b', '__init__', '__init__', 'x.y', 'foo-stubs', '.hid', 'a.', 'init', '__main__', 'é']
SUFFIXES = ['.py', '.py', '.py', '.pyi', '.pyc', '.so', '.cpython-312-x86_64-linux-gnu.so', '.abi3.so', '.txt', '',
            '.py.py', '.PY']


def _two_projects_task(t):
    """ONE environment (one helper process), two projects one after the other: project A has an explicit sys_path
    and analyses an import that does not exist; project B then uses the environment's own sys.path.  What B resolves
    must be what `python` started in B resolves: nothing of A's roots may have stayed behind in the helper."""
    import jedi
    from jedi.api.environment import create_environment
    base = t['base']
    ra, rb = os.path.join(base, 'ra'), os.path.join(base, 'rb')
    for d in (ra, rb):
        os.makedirs(d, exist_ok=True)
    with open(os.path.join(ra, t['name'] + '.py'), 'w') as f:
        f.write('zq_value = 1\n')
    with open(os.path.join(ra, 'zq_present_%d.py' % t['k']), 'w') as f:
        f.write('zq_other = 1\n')
    code_b = 'import %s\n' % t['name']
    with open(os.path.join(rb, 'main_b.py'), 'w') as f:
        f.write(code_b)
    env = create_environment(common.PY, safe=False)
    out = {}
    try:
        pa = jedi.Project(ra, sys_path=[ra], smart_sys_path=False)
        src_a = 'import zq_present_%d\nimport zq_no_such_module_%d\n' % (t['k'], t['k'])
        sa = jedi.Script(src_a, path=os.path.join(ra, 'main_a.py'), project=pa, environment=env)
        out['a_found'] = [str(d.module_path) for d in sa.infer(1, 8)]
        if t['order'] == 'goto':
            out['a_missing'] = [str(d.module_path) for d in sa.goto(2, 8, follow_imports=True) if str(d.module_path) != os.path.join(ra, 'main_a.py')]
        else:
            out['a_missing'] = [str(d.module_path) for d in sa.infer(2, 8)]
        pb = jedi.Project(rb) if t['k'] % 3 else jedi.Project(rb, smart_sys_path=False)
        sb = jedi.Script(code_b, path=os.path.join(rb, 'main_b.py'), project=pb, environment=env)
        out['b'] = [str(d.module_path) for d in sb.infer(1, 8)]
        out['b_goto'] = [str(d.module_path) for d in sb.goto(1, 8, follow_imports=True)
                         if d.module_path is not None and str(d.module_path) != os.path.join(rb, 'main_b.py')]
    except Exception as e:
        out['exc'] = common.exc_sig(e)
    # CPython started in rb with its own sys.path
    p = subprocess.run([common.PY, '-c', 'import importlib.util as u; print(u.find_spec(%r) is not None)' % t['name']],
                       cwd=rb, capture_output=True, text=True, env=common.jedi_env())
    out['python_finds'] = p.stdout.strip() == 'True'
    return out


def stream_two_projects(ctx):
    tasks = [dict(k=k, base=os.path.join(ctx.tmp, 'twoproj%d' % k), name='zq_only_in_ra_%d' % k, order=('goto' if k % 2 else 'infer'))
             for k in range(ctx.n(6, 30))]
    res = common.pmap(_two_projects_task, tasks, chunksize=1)
    for t, r in zip(tasks, res):
        ctx.count('two-projects', t['k'], nontrivial=True)
        if 'exc' in r:
            ctx.deviation(dict(stream='two-projects', exc=r['exc']['exc'], site=r['exc']['site']), dict(task=t, error=r['exc']),
                          'the two-project sequence raised')
            continue
        found_by_jedi = bool([x for x in r['b'] + r['b_goto'] if x != 'None'])
        if found_by_jedi != r['python_finds'] or not r['a_found'] or r['a_missing']:
            ctx.deviation(dict(stream='two-projects', cls='resolution-differs-from-python-after-another-project'),
                          dict(task=t, observed=r),
                          'project B (environment sys.path) resolves `import %s` to %r after project A (explicit sys_path=[ra]) was analysed '
                          'in the same environment; CPython started in B %s it' % (t['name'], r['b'], 'finds' if r['python_finds'] else 'does not find'))
    ctx.stat('two_project_sequences', len(tasks))


def stream_dotted(ctx):
    from jedi.inference.sys_path import transform_path_to_dotted
    from pathlib import Path, PurePosixPath
    n = ctx.n(1200, 12000)
    cases, metas = [], []
    kinds = dict(none=0, some=0, pkg=0, several_candidates=0)
    fixed = [(['/foo/ba'], '/foo/bar/baz.py'), (['/foo'], '/foo/bar/baz.py'), (['/foo/'], '/foo/bar/__init__.py'),
             ([''], '/foo/bar.py'), (['/'], '/foo/bar.py'), (['/foo', '/foo/bar'], '/foo/bar/baz/__init__.pyi'),
             (['/foo'], '/foo/x-stubs/y.py'), (['/foo'], '/foo/__init__.py'), (['/foo/bar/baz'], '/foo/bar/baz.py'),
             (['/foo//'], '/foo/a.py'), (['/fo', '/foo'], '/foo/a/b.py'), (['/foo/bar', '/foo'], '/foo/bar/b.py'),
             (['/foo', '/foo/bar'], '/foo/bar/b.py'), (['/foo/b'], '/foo/bar/__init__.py')]
    for it in range(n):
        if it < len(fixed):
            sp, p = fixed[it]
        else:
            rng = ctx.rng
            comps = [rng.choice(COMPS) for _ in range(rng.randint(0, 4))]
            p = '/' + '/'.join(comps + [rng.choice(STEMS) + rng.choice(SUFFIXES)])
            s = str(PurePosixPath(p))
            sp = []
            for _ in range(rng.randint(0, 4)):
                r = rng.random()
                cuts = [i for i, ch in enumerate(s) if ch == '/'] + [len(s)]
                if r < 0.45:
                    e = s[:rng.choice(cuts)]                      # a real ancestor folder
                elif r < 0.7:
                    e = s[:rng.randint(0, len(s))]                # an arbitrary string prefix
                elif r < 0.8:
                    e = s[:rng.choice(cuts)] + '/'                # trailing slash
                elif r < 0.9:
                    e = '/' + '/'.join(rng.choice(COMPS) for _ in range(rng.randint(1, 3)))
                else:
                    e = rng.choice(['', '/', '//', s, s + '/'])
                sp.append(e)
        pp = PurePosixPath(p)
        if pp.name in ('..py', '..pyi', '..pyc', '..so'):
            continue      # pathlib refuses with_name('.'): a crash outside this property's subject
        try:
            names, is_pkg = transform_path_to_dotted(list(sp), Path(p))
        except Exception as e:
            ctx.deviation(dict(stream='dotted', exc=type(e).__name__), dict(sys_path=sp, path=p, error=common.exc_sig(e)),
                          'transform_path_to_dotted raised %r' % e)
            continue
        names = list(names) if names is not None else None
        kinds['none' if names is None else 'some'] += 1
        kinds['pkg'] += bool(is_pkg)
        ctx.count('dotted', (tuple(sp), p), nontrivial=names is not None)
        # independent oracle: the name is the component-wise relative path from an ancestor ENTRY, the
        # shortest such, first in sys.path order (only for plain components: no -stubs, no empty entry)
        stem = pp.with_suffix('') if pp.suffix in ('.py', '.pyi', '.pyc', '.so') else pp
        hidden = stem.name.startswith('.')
        target = stem.parent if stem.name == '__init__' else stem
        rels = []
        for e in sp:
            pe = PurePosixPath(e) if e else PurePosixPath('/')
            if e.endswith('//') or (e.startswith('//') and not e.startswith('///')):
                rels = None
                break
            try:
                rel = target.relative_to(pe)
            except ValueError:
                continue
            if rel.parts:
                rels.append(list(rel.parts))
        if rels is not None and not hidden and not any('-stubs' in c for c in target.parts):
            kinds['several_candidates'] += len(rels) > 1
            exp = min(rels, key=len) if rels else None
            if names != exp or bool(is_pkg) != (exp is not None and stem.name == '__init__'):
                ctx.deviation(dict(stream='dotted', cls='not-relative-to-an-ancestor-entry'),
                              dict(sys_path=sp, path=p, jedi=[names, is_pkg], expected=exp),
                              'transform_path_to_dotted(%r, %r) = %r; the shortest path relative to an ancestor '
                              'sys.path entry is %r' % (sp, p, names, exp))
        comps_mp = [c for c in str(pp).split('/') if c]
        cases.append('(%s, %s, %s, %s)' % (g_list(sp, g_str, 'str'), g_path(comps_mp), g_opt(names, g_path), g_bool(is_pkg)))
        metas.append(dict(sys_path=sp, path=p, jedi=[names, bool(is_pkg)]))
    ctx.stat('dotted', kinds)
    fails, err = common.coq_failing(IMPORTS, 'run_dotted', cases, shard=max(50, (len(cases) + 15) // 16), defs=DEFS)
    if err:
        raise RuntimeError('coq evaluation failed (dotted): ' + err)
    for i in fails[:5]:
        model = common.coq_show(IMPORTS, ["let '(sp, mp, _, _) := %s in transform_path_to_dotted sp mp" % cases[i]], defs=DEFS)
        ctx.violation('obligation', dict(what='correspondence transform_path_to_dotted: model and implementation differ '
                                              '(the pathlib oracle accepted the answer or makes no claim)',
                                         input=metas[i], model=model[-800:]), nofail=True)
    ctx.sample(dict(stream='dotted', **metas[0]))


def run(ctx):
    common.setup_jedi(os.path.join(ctx.tmp, 'cache'))
    ctx.proofs()
    ctx.cov['fingerprints'] = common.fingerprint(FP)
    ctx.cov['rule'] = ('dotted: seeded (sys.path strings x file path) pairs, entries = ancestor folders / arbitrary string '
                       'prefixes / trailing slashes / unrelated; trees: seeded directory trees (depth<=4, 5 names, module / '
                       'package / namespace / module+package / module+namespace per node, 2-3 roots shuffled, 15% nested root) '
                       'x 4-6 importing files x 7 queries (import, from-import of sub-module/attribute/missing, relative '
                       'level 1-4, star with probe name) x 4 surface forms; non-trivial = jedi/CPython resolved to something; '
                       'distinct by (tree, importer, query, surface)')
    ctx.assumptions += [
        'the reduction of an import statement + cursor to (level, dotted path, imported name) is done by parso/jedi in reality '
        'and by the generator for the models; the four-way agreement checks it',
        'generated files bind names only by `x = <int>` and `def x()`; no .pyi stubs, no pkgutil/pkg_resources namespace '
        'packages, no sys.path modifications in sources, no __all__, no imports inside __init__ files',
        'Project(sys_path=roots, smart_sys_path=False): sys.path is exactly the listed roots on both sides',
        'each query runs with an empty in-memory parso cache (as in a fresh process); the buffer is the file on disk plus the import statement',
        'relative imports beyond the top-level package: CPython raises ImportError, jedi applies a directory heuristic; '
        'only the model<->jedi correspondence is checked there (no claim in the property)',
        'star-import probes avoid names bound by the analysed file itself or sub-modules of its own package folder']
    for f in (stream_dotted, stream_trees, stream_two_projects):
        t = time.time()
        f(ctx)
        ctx.stat('wall_' + f.__name__, round(time.time() - t, 1))


def replay(ctx, path):
    rec = json.load(open(path))
    flat = dict(rec)
    flat.update(rec.get('case') or {})
    print(json.dumps({k: v for k, v in flat.items() if k not in ('tree', 'case', 'jedi', 'traceback')},
                     indent=1, ensure_ascii=False)[:3000])
    if (rec.get('sig') or {}).get('stream') == 'two-projects' and rec.get('task'):
        common.setup_jedi(os.path.join(ctx.tmp, 'cache'))
        t = dict(rec['task'], base=os.path.join(ctx.tmp, 'twoproj_replay'))
        print('implementation now:', json.dumps(_two_projects_task(t), indent=1))
        return 0
    if 'traceback' in rec:
        print(rec['traceback'])
    common.setup_jedi(os.path.join(ctx.tmp, 'cache'))
    case = rec.get('case') or rec
    if 'input' in rec and 'sys_path' in rec['input'] and 'path' in rec['input']:
        from jedi.inference.sys_path import transform_path_to_dotted
        from pathlib import Path
        i = rec['input']
        print('implementation now returns:', transform_path_to_dotted(i['sys_path'], Path(i['path'])))
        return 0
    if 'sys_path' in case and 'path' in case and 'tree' not in case:
        from jedi.inference.sys_path import transform_path_to_dotted
        from pathlib import Path
        print('implementation now returns:', transform_path_to_dotted(case['sys_path'], Path(case['path'])))
        return 0
    T = case.get('tree')
    if T is None:
        return 0
    base = os.path.join(ctx.tmp, 't0')
    os.makedirs(base)
    materialise(T['tree'], base)
    files = [p for p, n in walk(T['tree']) if n[0] == 'F']
    if 'query' in case:
        q = dict(case['query'], importer=case['importer'].split('/'))
        jres = run_jedi(base, T, [q])
        valid, ores, targets = run_oracle(base, T, [q], jres, files)
        print('sys.path      :', T['roots'])
        print('jedi now      :', {k: jres[0].get(k) for k in ('self', 'infer', 'goto', 'exc')})
        print('CPython       :', ores[0], 'names importing the file back:', valid.get(case['importer']))
        L = Lit(0, base)
        sf, gq = L.path(case['importer']), L.query(q)
        hdr = L.header(T)
        print('models        :', common.coq_show(IMPORTS, [
            'obs false (jedi_query false t0_fs t0_roots (script_module t0_roots %s) %s)' % (sf, gq),
            'obs true (jedi_query true t0_fs t0_roots (script_module t0_roots %s) %s)' % (sf, gq),
            'py_query t0_fs t0_roots (match script_module t0_roots %s with VMod _ p n => '
            'if strs_eqb n [s_main] then None else Some (n, p) | _ => None end) %s' % (sf, gq)],
            defs=DEFS + hdr)[-3000:])
    elif 'file' in case:
        from jedi.inference.sys_path import transform_path_to_dotted
        from pathlib import Path
        roots = [os.path.join(base, *r) for r in T['roots']]
        print('jedi now      :', transform_path_to_dotted(roots, Path(os.path.join(base, case['file']))))
        valid, _, _ = run_oracle(base, T, [], [], files)
        print('names importing the file back in CPython:', valid.get(case['file']))
    return 0
