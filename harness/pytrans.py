"""Fail-closed translator from a small subset of Python (read with `ast` from $JEDI_REPO on every
run) to Gallina.  Second tie between model and code, next to the correspondence streams:

    /repo source --pytrans--> Gen/<unit>.v (generated, never committed)
    GenProofs/<unit>_Equiv.v (committed): Theorem gen_f_eq : forall x, gen_f x = Ok (model_f x)

so every theorem of Props/ about model_f is a theorem about the definition the code has NOW.  A change
of the code changes the generated definition; the equivalence proof then fails (or the translator
refuses a construct it does not know: it never guesses) and the check reports the property as no
longer shown, after searching for a failing input with the property's own correspondence streams.

Semantics of every supported operation = one definition of coq/Base/PyPrims.v (trusted, and compared
with CPython by `selftest`).  What is NOT translated: anything outside UNITS; exception messages
(`raise ValueError(msg)` becomes `Exc ValueErrorE`, the message expression is not evaluated);
decorators; *args/**kwargs that the unit declares as passed through.

Types are declared per unit (Python has none): 'Z' 'bool' 'str' ('list', T) ('set', T) ('opt', T)
('tuple', T1, ...).  Variables are single-assignment Gallina lets; control flow is translated in
continuation-passing style (an `if` duplicates the statements after it), for loops become `py_for`
over an explicit state tuple of the variables the body assigns.
"""
import ast
import os

REPO = os.environ.get('JEDI_REPO', '/repo')


class Unsupported(Exception):
    pass


def gty(t):
    if isinstance(t, str):
        return {'Z': 'Z', 'bool': 'bool', 'str': 'str', 'exc': 'pyexc'}[t]
    k = t[0]
    if k in ('list', 'set'):
        return '(list %s)' % gty(t[1])
    if k in ('opt', 'maybe'):
        return '(option %s)' % gty(t[1])
    if k == 'tuple':
        return '(%s)' % ' * '.join(gty(x) for x in t[1:])
    if k == 'rec':
        return '(%s)' % ' * '.join(gty(x) for (_, x) in t[1])
    raise Unsupported('type %r' % (t,))


def gdefault(t):
    if t == 'Z':
        return '0%Z'
    if t == 'bool':
        return 'false'
    if t == 'str':
        return '(@nil N)'
    if t[0] in ('list', 'set'):
        return '(@nil %s)' % gty(t[1])
    if t[0] in ('opt', 'maybe'):
        return '(@None %s)' % gty(t[1])
    if t[0] == 'tuple':
        return '(%s)' % ', '.join(gdefault(x) for x in t[1:])
    raise Unsupported('default %r' % (t,))


def gstr(s):
    return '(%s)' % ('[' + '; '.join(str(ord(c)) for c in s) + ']%N' if s else '@nil N')


def gz(n):
    return '(%d)%%Z' % n


def vname(n):
    return 'v_' + n.replace('.', '_').replace('()', '_call')


class Mode:
    """What return / raise / falling off the end mean where we are (function body or loop body)."""

    def __init__(self, kind, fn, state=None, tuple_code=None):
        self.kind, self.fn, self.state, self.tuple_code = kind, fn, state, tuple_code

    def ret(self, code):
        return '(Ok %s)' % code if self.kind == 'fn' else '(LRet %s)' % code

    def exc(self, e):
        return '(Exc %s)' % e if self.kind == 'fn' else '(LExc %s)' % e


class FnTrans:
    def __init__(self, unit, spec, node, all_specs):
        self.unit, self.spec, self.node, self.all = unit, spec, node, all_specs
        self.ret_t = spec['ret']
        self.is_gen = any(isinstance(n, (ast.Yield, ast.YieldFrom)) for n in ast.walk(node))
        self.counter = 0

    # ------------------------------------------------------------------ expressions
    def expr(self, e, env, short=False):
        """-> (code, type, guards); guards = [(bool code, exception constructor)] that must hold (in order)
        for the evaluation not to raise.  short=True: we are in a position Python may skip (right operand of
        and/or, arm of a conditional expression): partial operations are refused there."""
        code, t, g = self._expr(e, env, short)
        if short and g:
            raise Unsupported('operation that can raise inside a short-circuited operand (line %d)' % e.lineno)
        return code, t, g

    def _expr(self, e, env, short):
        if isinstance(e, ast.Constant):
            v = e.value
            if isinstance(v, bool):
                return ('true' if v else 'false'), 'bool', []
            if isinstance(v, int):
                return gz(v), 'Z', []
            if isinstance(v, str):
                return gstr(v), 'str', []
            if v is None:
                return 'None', ('opt', '?'), []
            raise Unsupported('constant %r' % (v,))
        if isinstance(e, ast.Name):
            return self.var(e.id, env, e)
        if isinstance(e, ast.Call) and not e.args and not e.keywords:
            key = (self.dotted(e.func) or '') + '()'
            if key in env:
                return self.var(key, env, e)
            # method of a declared record: field named 'meth()'
            if isinstance(e.func, ast.Attribute):
                try:
                    rc, rt, rg = self.expr(e.func.value, env, short)
                except Unsupported:
                    rt = None
                if isinstance(rt, tuple) and rt[0] == 'rec':
                    return self.project(rc, rt, e.func.attr + '()', e) + (rg,)
        if isinstance(e, ast.Attribute):
            key = self.dotted(e)
            if key and key in env:
                return self.var(key, env, e)
            if not (key and key in self.spec.get('consts', {})):
                try:
                    rc, rt, rg = self.expr(e.value, env, short)
                except Unsupported:
                    rt = None
                if isinstance(rt, tuple) and rt[0] == 'rec':
                    return self.project(rc, rt, e.attr, e) + (rg,)
            if key and key in self.spec.get('consts', {}):
                return self.spec['consts'][key]
            raise Unsupported('attribute %s (line %d)' % (ast.dump(e)[:60], e.lineno))
        if isinstance(e, ast.UnaryOp):
            if isinstance(e.op, ast.Not):
                c, t, g = self.expr(e.operand, env, short)
                return '(negb %s)' % self.truthy(c, t, e), 'bool', g
            if isinstance(e.op, ast.USub):
                c, t, g = self.expr(e.operand, env, short)
                self.need(t, 'Z', e)
                return '(- %s)%%Z' % c, 'Z', g
        if isinstance(e, ast.BinOp):
            a, ta, ga = self.expr(e.left, env, short)
            b, tb, gb = self.expr(e.right, env, short)
            if ta == 'Z' and tb == 'Z' and type(e.op) in (ast.Add, ast.Sub, ast.Mult):
                op = {ast.Add: '+', ast.Sub: '-', ast.Mult: '*'}[type(e.op)]
                return '(%s %s %s)%%Z' % (a, op, b), 'Z', ga + gb
            if ta == 'str' and tb == 'str' and isinstance(e.op, ast.Add):
                return '(%s ++ %s)' % (a, b), 'str', ga + gb
            if ta == 'bool' and tb == 'bool' and isinstance(e.op, ast.BitOr):
                return '(orb %s %s)' % (a, b), 'bool', ga + gb
            if ta == 'bool' and tb == 'bool' and isinstance(e.op, ast.BitAnd):
                return '(andb %s %s)' % (a, b), 'bool', ga + gb
            raise Unsupported('binary operator %s on %r, %r (line %d)' % (type(e.op).__name__, ta, tb, e.lineno))
        if isinstance(e, ast.BoolOp):
            parts = []
            guards = []
            for i, v in enumerate(e.values):
                c, t, g = self.expr(v, env, short or i > 0)
                if t != 'bool':
                    raise Unsupported('and/or on non-bool operands returns an operand, not a bool (line %d)' % v.lineno)
                parts.append(c)
                guards += g
            f = 'andb' if isinstance(e.op, ast.And) else 'orb'
            code = parts[-1]
            for p in reversed(parts[:-1]):
                code = '(%s %s %s)' % (f, p, code)
            return code, 'bool', guards
        if isinstance(e, ast.Compare):
            return self.compare(e, env, short)
        if isinstance(e, ast.IfExp):
            nar = self.narrowing(e.test, env)
            if nar:
                x, none_first = nar
                base = env[x][1]
                env2 = dict(env)
                env2[x] = base
                a_env, b_env = (env, env2) if none_first else (env2, env)
                a, ta, _ = self.expr(e.body, a_env, True)
                b, tb, _ = self.expr(e.orelse, b_env, True)
                t = self.join(ta, tb, e)
                none_code, some_code = (a, b) if none_first else (b, a)
                return '(match %s with None => %s | Some %s => %s end)' % (vname(x), none_code, vname(x), some_code), t, []
            c, tc, g = self.expr(e.test, env, short)
            self.need(tc, 'bool', e)
            a, ta, _ = self.expr(e.body, env, True)
            b, tb, _ = self.expr(e.orelse, env, True)
            return '(if %s then %s else %s)' % (c, a, b), self.join(ta, tb, e), g
        if isinstance(e, ast.Call):
            return self.call(e, env, short)
        if isinstance(e, ast.Subscript):
            v, tv, gv = self.expr(e.value, env, short)
            sl = e.slice
            if isinstance(sl, ast.Slice):
                if sl.step is not None:
                    raise Unsupported('slice step')
                if tv != 'str' and tv[0] != 'list':
                    raise Unsupported('slice of %r' % (tv,))
                code, g = v, gv
                if sl.upper is not None:
                    u, tu, gu = self.expr(sl.upper, env, short)
                    self.need(tu, 'Z', e)
                    if sl.lower is not None:
                        raise Unsupported('slice with both bounds')
                    return '(py_slice_to %s %s)' % (code, u), tv, g + gu
                if sl.lower is not None:
                    l, tl, gl = self.expr(sl.lower, env, short)
                    self.need(tl, 'Z', e)
                    return '(py_slice_from %s %s)' % (code, l), tv, g + gl
                return code, tv, g
            i, ti, gi = self.expr(sl, env, short)
            self.need(ti, 'Z', e)
            if tv == 'str':
                o = '(py_str_index %s %s)' % (v, i)
                return ('(match %s with Some x_ => x_ | None => %s end)' % (o, gdefault('str')), 'str',
                        gv + gi + [('(match %s with Some _ => true | None => false end)' % o, 'IndexErrorE')])
            if tv[0] == 'list':
                o = '(py_list_index %s %s)' % (v, i)
                return ('(match %s with Some x_ => x_ | None => %s end)' % (o, gdefault(tv[1])), tv[1],
                        gv + gi + [('(match %s with Some _ => true | None => false end)' % o, 'IndexErrorE')])
            raise Unsupported('subscript of %r (line %d)' % (tv, e.lineno))
        if isinstance(e, ast.Tuple):
            parts = [self.expr(x, env, short) for x in e.elts]
            return ('(%s)' % ', '.join(p[0] for p in parts), ('tuple',) + tuple(p[1] for p in parts),
                    [g for p in parts for g in p[2]])
        raise Unsupported('expression %s (line %d)' % (type(e).__name__, getattr(e, 'lineno', 0)))

    def truthy(self, c, t, node):
        """Python truth value of an expression of type t as a Gallina bool"""
        if t == 'bool':
            return c
        if t == 'Z':
            return '(negb (Z.eqb %s 0%%Z))' % c
        if t == 'str' or (isinstance(t, tuple) and t[0] in ('list', 'set')):
            return '(match %s with nil => false | cons _ _ => true end)' % c
        raise Unsupported('truth value of %r (line %d)' % (t, getattr(node, 'lineno', 0)))

    def var(self, name, env, node):
        if name not in env:
            raise Unsupported('name %s is not bound here (line %d)' % (name, node.lineno))
        t = env[name]
        if isinstance(t, tuple) and t[0] == 'maybe':
            # a variable first assigned inside a loop: unbound if the loop never ran
            return ('(match %s with Some x_ => x_ | None => %s end)' % (vname(name), gdefault(t[1])), t[1],
                    [('(match %s with Some _ => true | None => false end)' % vname(name), 'UnboundE')])
        return vname(name), t, []

    def project(self, code, rt, field, node):
        names = [f for (f, _) in rt[1]]
        if field not in names:
            raise Unsupported('field %s of a record %r (line %d)' % (field, names, node.lineno))
        i = names.index(field)
        n = len(names)
        # right-nested pairs are not used: (a, b, c) is ((a, b), c) in Gallina
        c = code
        for _ in range(n - 1 - i):
            c = '(fst %s)' % c
        if i > 0:
            c = '(snd %s)' % c
        return c, rt[1][i][1]

    def dotted(self, e):
        parts = []
        while isinstance(e, ast.Attribute):
            parts.append(e.attr)
            e = e.value
        if isinstance(e, ast.Name):
            parts.append(e.id)
            return '.'.join(reversed(parts))
        return None

    def need(self, t, want, node):
        if t != want:
            raise Unsupported('expected %r, found %r (line %d)' % (want, t, getattr(node, 'lineno', 0)))

    def join(self, a, b, node):
        if a == b:
            return a
        if isinstance(a, tuple) and a[0] == 'opt' and a[1] == '?' and isinstance(b, tuple) and b[0] == 'opt':
            return b
        if isinstance(b, tuple) and b[0] == 'opt' and b[1] == '?' and isinstance(a, tuple) and a[0] == 'opt':
            return a
        raise Unsupported('branches of different types %r / %r (line %d)' % (a, b, node.lineno))

    def narrowing(self, test, env):
        """`x is None` -> (x, True); `x is not None` -> (x, False) for a variable of option type."""
        if isinstance(test, ast.Compare) and len(test.ops) == 1 and isinstance(test.ops[0], (ast.Is, ast.IsNot)) \
                and isinstance(test.comparators[0], ast.Constant) and test.comparators[0].value is None:
            key = test.left.id if isinstance(test.left, ast.Name) else self.dotted(test.left)
            if key in env and isinstance(env[key], tuple) and env[key][0] == 'opt':
                return key, isinstance(test.ops[0], ast.Is)
        return None

    def compare(self, e, env, short):
        lefts = [e.left] + list(e.comparators[:-1])
        out, guards = [], []
        operands = {}

        def ev(node, pos):
            if id(node) not in operands:
                operands[id(node)] = self.expr(node, env, short or pos > 1)
            return operands[id(node)]
        for k, (l, op, r) in enumerate(zip(lefts, e.ops, e.comparators)):
            a, ta, ga = ev(l, k)
            b, tb, gb = ev(r, k + 1)
            guards += [g for g in ga + gb if g not in guards]
            if isinstance(op, (ast.Is, ast.IsNot)):
                if not (isinstance(r, ast.Constant) and r.value is None and isinstance(ta, tuple) and ta[0] == 'opt'):
                    raise Unsupported('`is` other than `x is None` on an optional (line %d)' % e.lineno)
                c = '(match %s with None => true | Some _ => false end)' % a
                out.append(c if isinstance(op, ast.Is) else '(negb %s)' % c)
            elif isinstance(op, (ast.In, ast.NotIn)):
                if ta == 'str' and tb == 'str':
                    c = '(py_str_in %s %s)' % (a, b)
                elif ta == 'str' and isinstance(tb, tuple) and tb[0] in ('set', 'list') and tb[1] == 'str':
                    c = '(py_mem_str %s %s)' % (a, b)
                elif ta == 'str' and isinstance(tb, tuple) and tb[0] in ('set', 'list') and tb[1] == ('opt', 'str'):
                    c = '(py_mem_optstr %s %s)' % (a, b)
                elif isinstance(r, ast.Tuple) and all(x == ta for x in tb[1:]) and ta in ('Z', 'str'):
                    eq = 'Z.eqb' if ta == 'Z' else 'str_eqb'
                    items = [self.expr(x, env, short)[0] for x in r.elts]
                    c = 'false'
                    for it in reversed(items):
                        c = '(orb (%s %s %s) %s)' % (eq, a, it, c)
                else:
                    raise Unsupported('`in` on %r / %r (line %d)' % (ta, tb, e.lineno))
                out.append(c if isinstance(op, ast.In) else '(negb %s)' % c)
            elif ta == 'Z' and tb == 'Z':
                f = {ast.Lt: 'Z.ltb %s %s', ast.LtE: 'Z.leb %s %s', ast.Gt: 'Z.ltb %s %s', ast.GtE: 'Z.leb %s %s',
                     ast.Eq: 'Z.eqb %s %s', ast.NotEq: 'negb (Z.eqb %s %s)'}.get(type(op))
                if f is None:
                    raise Unsupported('comparison %s' % type(op).__name__)
                x, y = (b, a) if isinstance(op, (ast.Gt, ast.GtE)) else (a, b)
                out.append('(' + f % (x, y) + ')')
            elif ta == 'str' and tb == 'str' and isinstance(op, (ast.Eq, ast.NotEq)):
                c = '(str_eqb %s %s)' % (a, b)
                out.append(c if isinstance(op, ast.Eq) else '(negb %s)' % c)
            elif ta == 'str' and tb == ('opt', 'str') and isinstance(op, (ast.Eq, ast.NotEq)):
                c = '(match %s with Some k_ => str_eqb %s k_ | None => false end)' % (b, a)
                out.append(c if isinstance(op, ast.Eq) else '(negb %s)' % c)
            elif ta == 'bool' and tb == 'bool' and isinstance(op, (ast.Eq, ast.NotEq)):
                c = '(Bool.eqb %s %s)' % (a, b)
                out.append(c if isinstance(op, ast.Eq) else '(negb %s)' % c)
            else:
                raise Unsupported('comparison of %r and %r (line %d)' % (ta, tb, e.lineno))
        code = out[-1]
        for p in reversed(out[:-1]):
            code = '(andb %s %s)' % (p, code)
        return code, 'bool', guards

    def call(self, e, env, short):
        if e.keywords:
            raise Unsupported('keyword arguments in a call (line %d)' % e.lineno)
        f = e.func
        if isinstance(f, ast.Name):
            args = [self.expr(a, env, short) for a in e.args]
            g = [x for a in args for x in a[2]]
            if f.id == 'len' and len(args) == 1 and (args[0][1] == 'str' or args[0][1][0] in ('list', 'set')):
                return '(zlen %s)' % args[0][0], 'Z', g
            if f.id in ('max', 'min') and len(args) == 2 and args[0][1] == args[1][1] == 'Z':
                return '(Z.%s %s %s)' % (f.id, args[0][0], args[1][0]), 'Z', g
            if f.id == 'set' and not args:
                return '[]', ('set', '?'), []
            if f.id in self.all:
                raise Unsupported('call of %s in expression position: only `return f(..)` / `x = f(..)` (line %d)'
                                  % (f.id, e.lineno))
            raise Unsupported('call of %s (line %d)' % (f.id, e.lineno))
        if isinstance(f, ast.Attribute):
            recv, tr, gr = self.expr(f.value, env, short)
            args = [self.expr(a, env, short) for a in e.args]
            g = gr + [x for a in args for x in a[2]]
            if tr == 'str' and len(args) == 1 and args[0][1] == ('opt', 'str') and f.attr == 'startswith':
                # str.startswith(None) raises TypeError
                return ('(match %s with Some k_ => starts_with %s k_ | None => false end)' % (args[0][0], recv), 'bool',
                        g + [('(match %s with Some _ => true | None => false end)' % args[0][0], 'TypeErrorE')])
            if tr == 'str' and len(args) == 1 and args[0][1] == 'str':
                m = {'startswith': 'starts_with', 'endswith': 'py_endswith'}.get(f.attr)
                if m:
                    return '(%s %s %s)' % (m, recv, args[0][0]), 'bool', g
                if f.attr == 'find':
                    return '(py_find %s %s)' % (recv, args[0][0]), 'Z', g
            raise Unsupported('method %s on %r (line %d)' % (f.attr, tr, e.lineno))
        raise Unsupported('call (line %d)' % e.lineno)

    # ------------------------------------------------------------------ statements
    def guarded(self, guards, body, mode):
        for (c, exc) in reversed(guards):
            body = '(if %s then %s else %s)' % (c, body, mode.exc(exc))
        return body

    def unit_call(self, e):
        """`f(args)` where f is a translated function of this unit (or the pass-through target)."""
        if isinstance(e, ast.Call) and isinstance(e.func, ast.Name) and e.func.id in self.all:
            return e.func.id
        return None

    def stmts(self, body, env, mode):
        if not body:
            return self.fall_off(env, mode)
        s, rest = body[0], body[1:]
        if isinstance(s, ast.Expr) and isinstance(s.value, ast.Constant) and isinstance(s.value.value, str):
            return self.stmts(rest, env, mode)          # docstring
        if isinstance(s, ast.Pass):
            return self.stmts(rest, env, mode)
        if isinstance(s, ast.Return):
            return self.do_return(s, env, mode)
        if isinstance(s, ast.Raise):
            exc = s.exc.func.id if isinstance(s.exc, ast.Call) and isinstance(s.exc.func, ast.Name) else \
                (s.exc.id if isinstance(s.exc, ast.Name) else None)
            m = {'ValueError': 'ValueErrorE', 'IndexError': 'IndexErrorE', 'TypeError': 'TypeErrorE'}.get(exc)
            if not m:
                raise Unsupported('raise of %r (line %d)' % (exc, s.lineno))
            return mode.exc(m)
        if isinstance(s, ast.Continue):
            if mode.kind != 'loop':
                raise Unsupported('continue outside a loop')
            return '(LNext %s)' % mode.tuple_code(env)
        if isinstance(s, ast.Break):
            if mode.kind != 'loop':
                raise Unsupported('break outside a loop')
            return '(LBreak %s)' % mode.tuple_code(env)
        if isinstance(s, ast.Assign):
            if len(s.targets) != 1 or not isinstance(s.targets[0], ast.Name):
                raise Unsupported('assignment target (line %d)' % s.lineno)
            x = s.targets[0].id
            callee = self.unit_call(s.value)
            if callee:
                if mode.kind != 'fn':
                    raise Unsupported('call of a translated function inside a loop (line %d)' % s.lineno)
                code, t = self.emit_unit_call(s.value, env, mode)
                env2 = dict(env)
                env2[x] = t
                return '(match %s with Ok %s => %s | Exc e_ => Exc e_ | OutOfFuel => OutOfFuel end)' % (
                    code, vname(x), self.stmts(rest, env2, mode))
            c, t, g = self.expr(s.value, env)
            if isinstance(t, tuple) and t[0] in ('set', 'opt') and t[1] == '?':
                decl = self.spec.get('locals', {}).get(x)
                if not decl:
                    raise Unsupported('type of %s must be declared in the unit (line %d)' % (x, s.lineno))
                t = decl
                if c == '[]':
                    c = gdefault(t)
            if x in env and env[x] != t and mode.kind != 'fn':
                # a let shadows, so a rebinding may change the type (`line = ... if line is None else line`);
                # inside a loop the state tuple fixes the type
                raise Unsupported('%s changes type %r -> %r inside a loop (line %d)' % (x, env[x], t, s.lineno))
            env2 = dict(env)
            env2[x] = t
            return self.guarded(g, '(let %s := %s in %s)' % (vname(x), c, self.stmts(rest, env2, mode)), mode)
        if isinstance(s, ast.AugAssign):
            if not isinstance(s.target, ast.Name):
                raise Unsupported('augmented assignment target (line %d)' % s.lineno)
            fake = ast.BinOp(left=ast.Name(id=s.target.id, ctx=ast.Load(), lineno=s.lineno), op=s.op, right=s.value,
                             lineno=s.lineno)
            c, t, g = self.expr(fake, env)
            if env.get(s.target.id) != t:
                raise Unsupported('augmented assignment changes the type (line %d)' % s.lineno)
            return self.guarded(g, '(let %s := %s in %s)' % (vname(s.target.id), c, self.stmts(rest, env, mode)), mode)
        if isinstance(s, ast.Expr) and isinstance(s.value, ast.Yield):
            if s.value.value is None:
                raise Unsupported('bare yield')
            c, t, g = self.expr(s.value.value, env)
            yt = env['%yield']
            if yt[1] != t:
                raise Unsupported('yield of %r in a generator of %r (line %d)' % (t, yt[1], s.lineno))
            return self.guarded(g, '(let v__yield := (v__yield ++ [%s]) in %s)' % (c, self.stmts(rest, env, mode)), mode)
        if isinstance(s, ast.Expr) and isinstance(s.value, ast.Call) and isinstance(s.value.func, ast.Attribute) \
                and s.value.func.attr == 'add' and isinstance(s.value.func.value, ast.Name) \
                and len(s.value.args) == 1 and not s.value.keywords:
            x = s.value.func.value.id
            if x not in env or env[x][0] != 'set':
                raise Unsupported('.add on something that is not a declared set (line %d)' % s.lineno)
            c, t, g = self.expr(s.value.args[0], env)
            if t != env[x][1]:
                raise Unsupported('set element type %r, declared %r (line %d)' % (t, env[x][1], s.lineno))
            return self.guarded(g, '(let %s := (%s :: %s) in %s)' % (vname(x), c, vname(x), self.stmts(rest, env, mode)), mode)
        if isinstance(s, ast.If):
            nar = self.narrowing(s.test, env)
            if nar:
                x, none_first = nar
                env2 = dict(env)
                env2[x] = env[x][1]
                none_body, some_body = (s.body, s.orelse) if none_first else (s.orelse, s.body)
                return '(match %s with None => %s | Some %s => %s end)' % (
                    vname(x), self.stmts(list(none_body) + rest, env, mode),
                    vname(x), self.stmts(list(some_body) + rest, env2, mode))
            c, t, g = self.expr(s.test, env)
            c = self.truthy(c, t, s)
            return self.guarded(g, '(if %s\n then %s\n else %s)' % (
                c, self.stmts(list(s.body) + rest, env, mode), self.stmts(list(s.orelse) + rest, env, mode)), mode)
        if isinstance(s, ast.For):
            return self.for_loop(s, rest, env, mode)
        raise Unsupported('statement %s (line %d)' % (type(s).__name__, s.lineno))

    def fall_off(self, env, mode):
        if mode.kind == 'loop':
            return '(LNext %s)' % mode.tuple_code(env)
        if self.is_gen:
            return '(Ok v__yield)'
        if isinstance(self.ret_t, tuple) and self.ret_t[0] == 'opt':
            return '(Ok None)'
        raise Unsupported('%s can fall off its end (returns None) but its declared result is %r'
                          % (self.spec['name'], self.ret_t))

    def do_return(self, s, env, mode):
        if self.is_gen:
            if s.value is not None:
                raise Unsupported('return with a value in a generator')
            return mode.ret('v__yield')
        if s.value is None:
            raise Unsupported('bare return')
        pt = self.spec.get('passthrough')
        if pt and isinstance(s.value, ast.Call) and isinstance(s.value.func, ast.Name) and s.value.func.id == pt['callee']:
            # `return func(self, line, column, *args, **kwargs)`: the wrapped function is not part of the unit;
            # the translated wrapper returns the arguments it hands over
            picked = [s.value.args[i] for i in pt['args']]
            parts = [self.expr(a, env) for a in picked]
            code = '(%s)' % ', '.join(p[0] for p in parts)
            t = ('tuple',) + tuple(p[1] for p in parts)
            if t != self.ret_t:
                raise Unsupported('pass-through arguments have type %r, declared %r' % (t, self.ret_t))
            return self.guarded([g for p in parts for g in p[2]], mode.ret(code), mode)
        callee = self.unit_call(s.value)
        if callee:
            if mode.kind != 'fn':
                raise Unsupported('return of a translated call inside a loop (line %d)' % s.lineno)
            code, t = self.emit_unit_call(s.value, env, mode)
            if t != self.ret_t:
                raise Unsupported('%s returns %r, %s is declared %r' % (callee, t, self.spec['name'], self.ret_t))
            return code
        c, t, g = self.expr(s.value, env)
        if isinstance(self.ret_t, tuple) and self.ret_t[0] == 'opt':
            if t == self.ret_t[1]:
                c, t = '(Some %s)' % c, self.ret_t
            elif isinstance(t, tuple) and t[0] == 'opt' and t[1] == '?':
                t = self.ret_t
        if t != self.ret_t:
            raise Unsupported('return of %r in %s declared %r (line %d)' % (t, self.spec['name'], self.ret_t, s.lineno))
        return self.guarded(g, mode.ret(c), mode)

    def emit_unit_call(self, call, env, mode):
        callee = self.all[call.func.id]
        args = [self.expr(a, env) for a in call.args]
        if any(a[2] for a in args):
            raise Unsupported('argument of a translated call can raise (line %d)' % call.lineno)
        want = [t for (_, t) in callee['args']]
        got = [a[1] for a in args]
        # defaults
        if len(got) < len(want):
            for (n, t) in callee['args'][len(got):]:
                d = callee.get('defaults', {}).get(n)
                if d is None:
                    raise Unsupported('missing argument %s' % n)
                args.append((d, t, []))
                got.append(t)
        if got != want:
            raise Unsupported('arguments of %s: %r, declared %r (line %d)' % (call.func.id, got, want, call.lineno))
        fuel = ' fuel' if callee['_fuel'] else ''
        return '(%s%s %s)' % (callee['_gname'], fuel, ' '.join(a[0] for a in args)), callee['ret']

    # ------------------------------------------------------------------ for loops
    def for_loop(self, s, rest, env, mode):
        if s.orelse:
            raise Unsupported('for/else')
        if mode.kind != 'fn':
            raise Unsupported('nested loops')
        it = s.iter
        if isinstance(it, ast.Call) and isinstance(it.func, ast.Name) and it.func.id == 'enumerate' and len(it.args) == 1:
            c, t, g = self.expr(it.args[0], env)
            if not (isinstance(t, tuple) and t[0] == 'list'):
                raise Unsupported('enumerate over %r' % (t,))
            iter_code, elem_t = '(py_enumerate %s)' % c, ('tuple', 'Z', t[1])
        else:
            c, t, g = self.expr(it, env)
            if not (isinstance(t, tuple) and t[0] == 'list'):
                raise Unsupported('iteration over %r (line %d)' % (t, s.lineno))
            iter_code, elem_t = c, t[1]
        # variables written by the body
        written = []
        for n in ast.walk(ast.Module(body=s.body, type_ignores=[])):
            if isinstance(n, ast.Assign):
                for tg in n.targets:
                    if isinstance(tg, ast.Name) and tg.id not in written:
                        written.append(tg.id)
            elif isinstance(n, ast.AugAssign) and isinstance(n.target, ast.Name) and n.target.id not in written:
                written.append(n.target.id)
            elif isinstance(n, ast.Call) and isinstance(n.func, ast.Attribute) and n.func.attr == 'add' \
                    and isinstance(n.func.value, ast.Name) and n.func.value.id not in written:
                written.append(n.func.value.id)
            elif isinstance(n, ast.Yield) and '%yield' not in written:
                written.append('%yield')
            elif isinstance(n, (ast.For, ast.While)):
                raise Unsupported('nested loops')
        targets = self.target_names(s.target)
        used_after = {n.id for st in rest for n in ast.walk(st) if isinstance(n, ast.Name) and isinstance(n.ctx, ast.Load)}
        # initialised before the loop (a loop target that already exists is rebound by every iteration)
        carried = [x for x in written if x in env] + [x for x in targets if x in env and x not in written]
        leak = [x for x in list(targets) + written if x not in env and x in used_after and x not in carried]
        leak = list(dict.fromkeys(leak))
        self.counter += 1
        st_types = [env[x] for x in carried]
        leak_types = {}
        # types of leaking variables: targets from the element type, others must be declared
        tt = dict(self.bind_target_types(s.target, elem_t))
        for x in leak:
            leak_types[x] = tt.get(x) or self.spec.get('locals', {}).get(x)
            if leak_types[x] is None:
                raise Unsupported('type of %s (first assigned in a loop, used after it) must be declared' % x)
        state_names = carried + leak
        if not state_names:
            raise Unsupported('loop without effect')

        def sname(x):
            return 'v__yield' if x == '%yield' else vname(x)

        def is_maybe(t):
            return isinstance(t, tuple) and t[0] == 'maybe'

        def pack(names_env):
            parts = []
            for x in carried + leak:
                st_maybe = x in leak or is_maybe(env.get(x))
                if st_maybe and x in names_env and not is_maybe(names_env[x]):
                    parts.append('(Some %s)' % sname(x))
                else:
                    parts.append(sname(x))
            return '(%s)' % ', '.join(parts) if len(parts) > 1 else parts[0]
        pat = '(%s)' % ', '.join(sname(x) for x in state_names) if len(state_names) > 1 else sname(state_names[0])
        st_t = ' * '.join([gty(t) for t in st_types] + ['option %s' % gty(leak_types[x]) for x in leak])
        # a carried loop target must keep its type
        for x, t in tt.items():
            if x in carried and (env[x][1] if is_maybe(env[x]) else env[x]) != t:
                raise Unsupported('loop target %s changes type (line %d)' % (x, s.lineno))
        body_env = dict(env)
        for x in leak:
            body_env[x] = ('maybe', leak_types[x])
        for x, t in tt.items():
            body_env[x] = t
        loop_mode = Mode('loop', self, state_names, lambda e: pack(e))
        body_code = self.stmts(list(s.body), body_env, loop_mode)
        tpat = self.target_pattern(s.target)
        ret_g = gty(self.ret_t) if not self.is_gen else gty(env['%yield'])
        init = '(%s)' % ', '.join([sname(x) for x in carried] + ['(@None %s)' % gty(leak_types[x]) for x in leak]) \
            if len(state_names) > 1 else ([sname(x) for x in carried] + ['(@None %s)' % gty(leak_types[x]) for x in leak])[0]
        env_after = dict(env)
        for x in leak:
            env_after[x] = ('maybe', leak_types[x])
        after = self.stmts(rest, env_after, mode)
        code = ('(match py_for (S:=%s) (R:=%s) (fun st_ el_ => let \'%s := st_ in let \'%s := el_ in %s) %s %s with\n'
                ' | LNext %s | LBreak %s => %s\n | LRet r_ => Ok r_\n | LExc e_ => Exc e_ end)') % (
            st_t, ret_g, pat, tpat, body_code, iter_code, init, '%s' % pat, '%s' % pat, after)
        return self.guarded(g, code, mode)

    def target_names(self, t):
        if isinstance(t, ast.Name):
            return [t.id]
        if isinstance(t, ast.Tuple):
            return [n for x in t.elts for n in self.target_names(x)]
        raise Unsupported('loop target')

    def target_pattern(self, t):
        if isinstance(t, ast.Name):
            return vname(t.id)
        return '(%s)' % ', '.join(self.target_pattern(x) for x in t.elts)

    def bind_target_types(self, t, ty):
        if isinstance(t, ast.Name):
            return [(t.id, ty)]
        if not (isinstance(ty, tuple) and ty[0] == 'tuple' and len(ty) - 1 == len(t.elts)):
            raise Unsupported('loop target does not match the element type %r' % (ty,))
        return [p for x, tx in zip(t.elts, ty[1:]) for p in self.bind_target_types(x, tx)]

    # ------------------------------------------------------------------ whole function
    def translate(self):
        spec = self.spec
        a = self.node.args
        declared = [n for (n, _) in spec['args']]
        real = [x.arg for x in a.posonlyargs + a.args]
        via = spec.get('arg_map') or {n: n for n in declared}
        for n in declared:
            src = via[n].split('.')[0]
            if src not in real and src not in spec.get('externals', ('settings',)):
                raise Unsupported('%s: parameter %s not found (has %r)' % (spec['name'], src, real))
        extra = [x for x in real if x not in {via[n].split('.')[0] for n in declared}]
        if extra:
            raise Unsupported('%s: undeclared parameters %r' % (spec['name'], extra))
        if a.kwonlyargs or (a.vararg and not spec.get('passthrough')) or (a.kwarg and not spec.get('passthrough')):
            raise Unsupported('%s: parameter kinds' % spec['name'])
        # defaults must be what the unit says
        defaults = dict(zip(real[len(real) - len(a.defaults):], a.defaults))
        for n, d in defaults.items():
            want = spec.get('py_defaults', {}).get(n, '<none>')
            if ast.dump(d) != ast.dump(ast.parse(want, mode='eval').body) if want != '<none>' else True:
                raise Unsupported('%s: default of %s is %s, unit says %s' % (spec['name'], n, ast.unparse(d), want))
        env = {via[n]: t for (n, t) in spec['args']}
        pre = ''
        if self.is_gen:
            env['%yield'] = spec['ret']
            pre = 'let v__yield := %s in ' % gdefault(spec['ret'])
        body = self.stmts(list(self.node.body), env, Mode('fn', self))
        params = ' '.join('(%s : %s)' % (vname(via[n]), gty(t)) for (n, t) in spec['args'])
        g = spec['_gname']
        if spec['_fuel']:
            kw = 'Fixpoint' if spec['_rec'] else 'Definition'
            return ('%s %s (fuel : nat) %s %s: res %s :=\n  match fuel with\n  | O => OutOfFuel\n  | S fuel =>\n  %s%s\n  end.\n'
                    % (kw, g, params, '{struct fuel} ' if spec['_rec'] else '', gty(spec['ret']), pre, body))
        return 'Definition %s %s : res %s :=\n  %s%s.\n' % (g, params, gty(spec['ret']), pre, body)


def find_def(tree, qual):
    node = tree
    for part in qual.split('.'):
        for n in ast.iter_child_nodes(node):
            if isinstance(n, (ast.FunctionDef, ast.ClassDef)) and n.name == part:
                node = n
                break
        else:
            raise Unsupported('definition %s not found' % qual)
    return node


def const_value(tree, name):
    """Module-level `name = <literal>` (int, str, or tuple/list/set of them, possibly `A + B` of such)."""
    consts = {}
    for n in tree.body:
        if isinstance(n, ast.Assign) and len(n.targets) == 1 and isinstance(n.targets[0], ast.Name):
            consts[n.targets[0].id] = n.value
    seen = set()

    def ev(e):
        if isinstance(e, ast.Constant) and isinstance(e.value, (int, str)) and not isinstance(e.value, bool):
            return e.value
        if isinstance(e, (ast.Tuple, ast.List, ast.Set)):
            return [ev(x) for x in e.elts]
        if isinstance(e, ast.Name) and e.id in consts and e.id not in seen:
            seen.add(e.id)
            return ev(consts[e.id])
        if isinstance(e, ast.BinOp) and isinstance(e.op, ast.Add):
            a, b = ev(e.left), ev(e.right)
            if isinstance(a, list) and isinstance(b, list):
                return a + b
        if isinstance(e, ast.Call) and isinstance(e.func, ast.Attribute) and e.func.attr == 'split' and not e.args \
                and not e.keywords and isinstance(e.func.value, ast.Constant) and isinstance(e.func.value.value, str):
            return e.func.value.value.split()
        if isinstance(e, ast.Call) and isinstance(e.func, ast.Name) and e.func.id in ('set', 'frozenset', 'tuple', 'list') \
                and len(e.args) == 1 and not e.keywords:
            v = ev(e.args[0])
            if isinstance(v, list):
                return v
        raise Unsupported('constant %s is not a literal (%s)' % (name, ast.dump(e)[:80]))
    if name not in consts:
        raise Unsupported('constant %s not found' % name)
    return ev(consts[name])


def gconst(v):
    if isinstance(v, int):
        return gz(v), 'Z'
    if isinstance(v, str):
        return gstr(v), 'str'
    items = [gconst(x) for x in v]
    ts = {t for (_, t) in items}
    if len(ts) > 1:
        raise Unsupported('heterogeneous constant')
    t = ts.pop() if ts else 'str'
    return '[%s]' % '; '.join(c for (c, _) in items), 'list %s' % t


# ---------------------------------------------------------------------------------------- units
S = 'str'
UNITS = {
    # C04: the matchers behind completion filtering
    'C04_match': dict(
        file='jedi/api/helpers.py',
        funcs=[
            dict(name='_start_match', args=[('string', S), ('like_name', S)], ret='bool'),
            dict(name='_fuzzy_match', args=[('string', S), ('like_name', S)], ret='bool'),
            dict(name='match', args=[('string', S), ('like_name', S), ('fuzzy', 'bool')], ret='bool',
                 py_defaults={'fuzzy': 'False'}),
        ]),
    # C04: what a completion inserts
    'C04_complete': dict(
        file='jedi/api/classes.py',
        funcs=[
            dict(name='Completion._complete', gname='gen_complete',
                 args=[('add_bracket', 'bool'), ('type', S), ('public_name', S), ('like_len', 'Z'), ('like_name', 'bool')],
                 arg_map={'add_bracket': 'settings.add_bracket_after_function', 'type': 'self.type',
                          'public_name': 'self._name.get_public_name()', 'like_len': 'self._like_name_length',
                          'like_name': 'like_name'},
                 ret=S),
        ]),
    'C04_prefixlen': dict(
        file='jedi/api/classes.py',
        funcs=[
            dict(name='Completion.get_completion_prefix_length', gname='gen_prefix_length',
                 args=[('like_len', 'Z')], arg_map={'like_len': 'self._like_name_length'}, ret='Z'),
        ]),
    # C01: the position contract
    'C01_validate': dict(
        file='jedi/api/helpers.py',
        funcs=[
            dict(name='validate_line_column.wrapper', gname='gen_validate',
                 args=[('code_lines', ('list', S)), ('line', ('opt', 'Z')), ('column', ('opt', 'Z'))],
                 arg_map={'code_lines': 'self._code_lines', 'line': 'line', 'column': 'column'},
                 py_defaults={'line': 'None', 'column': 'None'},
                 passthrough=dict(callee='func', args=[1, 2]),
                 ret=('tuple', 'Z', 'Z')),
        ]),
    # C11: the parameter index of a call prefix
    'C11_index': dict(
        file='jedi/api/helpers.py',
        funcs=[
            dict(name='CallDetails.calculate_index', gname='gen_calculate_index',
                 # _list_arguments() yields (star_count, key_start, had_equal)
                 args=[('args_in', ('list', ('tuple', 'Z', ('opt', S), 'bool'))),
                       ('param_names', ('list', ('rec', (('string_name', S), ('get_kind()', 'Z')))))],
                 arg_map={'args_in': 'self._list_arguments()', 'param_names': 'param_names'},
                 locals={'used_names': ('set', ('opt', S))},
                 # inspect._ParameterKind is an IntEnum; the numbers are compared with the interpreter by selftest()
                 consts={'Parameter.POSITIONAL_ONLY': ('(0)%Z', 'Z', []), 'Parameter.POSITIONAL_OR_KEYWORD': ('(1)%Z', 'Z', []),
                         'Parameter.VAR_POSITIONAL': ('(2)%Z', 'Z', []), 'Parameter.KEYWORD_ONLY': ('(3)%Z', 'Z', []),
                         'Parameter.VAR_KEYWORD': ('(4)%Z', 'Z', [])},
                 ret=('opt', 'Z')),
        ]),
    # C06: the parent types in which inline parenthesises the replacement
    'C06_rule': dict(
        file='jedi/api/refactoring/__init__.py',
        consts=['EXPRESSION_PARTS', '_INLINE_NEEDS_PARENTHESES'],
        funcs=[]),
    # C19: the fixed ignore list and the two search limits
    'C19_consts': dict(
        file='jedi/inference/references.py',
        consts=['_IGNORE_FOLDERS', '_OPENED_FILE_LIMIT', '_PARSED_FILE_LIMIT'],
        funcs=[]),
    # C20: sys.path de-duplication
    'C20_dedupe': dict(
        file='jedi/api/project.py',
        funcs=[
            dict(name='_remove_duplicates_from_path', args=[('path', ('list', S))], ret=('list', S),
                 locals={'used': ('set', S)}),
        ]),
    # C15: the give-up limits
    'C15_limits': dict(
        file='jedi/inference/recursion.py',
        consts=['recursion_limit', 'total_function_execution_limit', 'per_function_execution_limit',
                'per_function_recursion_limit'],
        funcs=[]),
}


def translate_unit(uname, repo=None):
    """-> Gallina text of Gen/<uname>.v; raises Unsupported (fail closed)."""
    u = UNITS[uname]
    path = os.path.join(repo or REPO, u['file'])
    src = open(path, encoding='utf8').read()
    tree = ast.parse(src)
    out = ['(* GENERATED by harness/pytrans.py from %s -- do not edit, never committed *)' % u['file'],
           'From JV Require Import Base.Str Base.PyPrims.', 'Import ListNotations.', 'Open Scope Z_scope.', '']
    for c in u.get('consts', []):
        code, t = gconst(const_value(tree, c))
        out.append('Definition gen_%s : %s := %s.' % (c, t, code))
    specs = {}
    for f in u['funcs']:
        f = dict(f)
        f['_gname'] = f.get('gname') or 'gen_' + f['name'].lstrip('_').replace('.', '_')
        specs[f['name'].split('.')[-1] if '.' not in f['name'] else f['name']] = f
    by_simple = {f['name']: f for f in specs.values() if '.' not in f['name']}
    # recursion / fuel
    nodes = {}
    for f in specs.values():
        nodes[f['name']] = find_def(tree, f['name'])
    calls = {n: {c.func.id for c in ast.walk(nodes[n]) if isinstance(c, ast.Call) and isinstance(c.func, ast.Name)
                 and c.func.id in by_simple} for n in nodes}
    for f in specs.values():
        f['_rec'] = f['name'] in calls[f['name']]
    changed = True
    for f in specs.values():
        f['_fuel'] = f['_rec']
    while changed:
        changed = False
        for f in specs.values():
            if not f['_fuel'] and any(by_simple[c]['_fuel'] for c in calls[f['name']]):
                f['_fuel'] = True
                changed = True
    # mutual recursion is refused
    for f in specs.values():
        for c in calls[f['name']]:
            if c != f['name'] and f['name'] in calls.get(c, ()):
                raise Unsupported('mutual recursion %s <-> %s' % (f['name'], c))
    # emit in source order (callees first is guaranteed only if defined first: check)
    order = sorted(specs.values(), key=lambda f: nodes[f['name']].lineno)
    done = set()
    for f in order:
        for c in calls[f['name']]:
            if c != f['name'] and c not in done:
                raise Unsupported('%s calls %s which is defined later' % (f['name'], c))
        for d in nodes[f['name']].decorator_list:
            if not (isinstance(d, ast.Call) and isinstance(d.func, ast.Name) and d.func.id == 'wraps'):
                raise Unsupported('decorator on %s' % f['name'])
        out.append(FnTrans(uname, f, nodes[f['name']], by_simple).translate())
        done.add(f['name'])
    return '\n'.join(out) + '\n'


if __name__ == '__main__':
    import sys
    for name in (sys.argv[1:] or sorted(UNITS)):
        print(translate_unit(name))
