"""C08 - answers do not depend on the editing history of a buffer.

Streams
  history   whole edit sessions (1..30 steps; insert/delete/replace lines and characters,
            indent/dedent blocks, paste, undo, unchanged text; one or two buffers; with path,
            with a path whose file is on disk, path-less) run in ONE process, ONE Script per
            step; after every step every query method at sampled positions is compared with a
            FRESH process (a child forked from a process that never parsed anything) that is
            given only the current text.  The proviso (incrementally parsed tree == from-scratch
            parse) is checked per step on parso alone (same sequence of DiffParser updates on a tree
            of our own); steps where parso violates it are counted, not reported.  A Script whose
            module node is not the parse of its text although parso alone is right is reported.
            A difference is a failing history; it is shrunk by deleting steps.
  fresh-sub a sample of the fresh answers is recomputed in a brand-new interpreter process
            (validates the fork short-cut).
  trace     the real module-level caches are driven and observed: filters._get_definition_names,
            parser_utils.get_cached_parent_scope, helpers.cache_signatures (with an explicit clock
            substituted for jedi.cache.time), the parso cache item per key, the per-Script memo.
            Every lookup is checked directly (returned object == recomputation from the current
            tree) and the whole hit/miss/version/size trace is compared with the Coq model
            (Model/C08_History.v: run_obs real_config) by vm_compute.
"""
import hashlib
import json
import os
import random
import re
import select
import signal
import subprocess
import sys
import time
import traceback

import common
from common import g_N, g_bool, g_list

IMPORTS = 'From JV Require Import Model.C08_History.\n'

FP = [('jedi/api/__init__.py', 'Script.__init__'),
      ('jedi/inference/__init__.py', 'InferenceState.__init__'),
      ('jedi/inference/__init__.py', 'InferenceState.parse_and_get_code'),
      ('jedi/inference/filters.py', '_get_definition_names'),
      ('jedi/inference/filters.py', '_AbstractUsedNamesFilter.__init__'),
      ('jedi/parser_utils.py', '_get_parent_scope_cache'),
      ('jedi/parser_utils.py', 'get_parso_cache_node'),
      ('jedi/cache.py', 'clear_time_caches'),
      ('jedi/cache.py', 'signature_time_cache'),
      ('jedi/cache.py', 'memoize_method'),
      ('jedi/api/helpers.py', 'cache_signatures'),
      ('jedi/inference/cache.py', '_memoize_default'),
      ('jedi/inference/cache.py', 'inference_state_method_generator_cache')]

VALIDITY_UNITS = 6      # call_signatures_validity = 3.0 s, clock unit 0.5 s
UNIT = 0.5

class _Clock:
    """Stands in for the `time` module inside jedi.cache."""

    def __init__(self):
        self.units = 0

    def time(self):
        return 1000.0 + self.units * UNIT


# --------------------------------------------------------------------------- programs
WORDS = ['alpha', 'beta', 'gamma', 'delta', 'omega', 'kappa', 'sigma', 'theta', 'zeta', 'iota']


def gen_program(rng):
    """A builtin-light module: user classes, functions, instances, calls, attribute reads."""
    L = []
    w = rng.sample(WORDS, len(WORDS))
    classes, funcs, insts = [], [], []
    for ci in range(rng.randint(1, 3)):
        cname = w[ci].capitalize()
        base = rng.choice(classes) if classes and rng.random() < 0.5 else None
        L.append('class %s(%s):' % (cname, base) if base else 'class %s:' % cname)
        if rng.random() < 0.6:
            L.append('    """class %s doc"""' % cname)
        for a in rng.sample(w, rng.randint(1, 2)):
            L.append('    c_%s = %d' % (a, rng.randint(0, 9)))
        ps = rng.sample(['p', 'q', 'r'], rng.randint(0, 2))
        L.append('    def __init__(self%s):' % ''.join(', ' + p for p in ps))
        for a in rng.sample(w, rng.randint(1, 2)):
            L.append('        self.f_%s = %s' % (a, rng.choice(ps + ["'s'", '1'])))
        for m in rng.sample(w, rng.randint(1, 2)):
            ps = rng.sample(['x', 'y', 'z'], rng.randint(0, 2))
            L.append('    def m_%s(self%s):' % (m, ''.join(', ' + p for p in ps)))
            if rng.random() < 0.5:
                L.append('        """method m_%s doc"""' % m)
            if ps and rng.random() < 0.6:
                L.append('        loc = %s' % ps[0])
                L.append('        return loc')
            else:
                L.append('        return self.%s' % rng.choice([l.split('=')[0].strip()[5:] for l in L
                                                                 if l.startswith('        self.f_')] or ['f_x']))
        L.append('')
        classes.append(cname)
    for fi in range(rng.randint(1, 3)):
        f = 'fn_' + w[3 + fi]
        ps = rng.sample(['a', 'b', 'c', 'd'], rng.randint(0, 3))
        if rng.random() < 0.3 and ps:
            ps[-1] += '=1'
        L.append('def %s(%s):' % (f, ', '.join(ps)))
        if rng.random() < 0.6:
            L.append('    """function %s doc"""' % f)
        k = rng.random()
        if k < 0.35 and classes:
            L.append('    tmp = %s(%s)' % (rng.choice(classes), ''))
            L.append('    return tmp')
        elif k < 0.6 and ps:
            L.append('    if %s:' % ps[0].split('=')[0])
            L.append('        res = 1')
            L.append('    else:')
            L.append("        res = 'one'")
            L.append('    return res')
        elif k < 0.8:
            L.append('    def inner(u):')
            L.append('        return u')
            L.append('    return inner(2)')
        else:
            L.append('    return %s' % (ps[0].split('=')[0] if ps else '3'))
        L.append('')
        funcs.append((f, len(ps)))
    for i, c in enumerate(classes):
        if rng.random() < 0.85:
            v = 'obj_' + w[6 + i]
            L.append('%s = %s()' % (v, c))
            insts.append(v)
    for i in range(rng.randint(1, 3)):
        k = rng.random()
        if k < 0.4 and funcs:
            f, n = rng.choice(funcs)
            L.append('v_%s = %s(%s)' % (w[i], f, ', '.join(rng.choice(insts + ['1', "'t'"]) for _ in range(min(n, 2)))))
        elif k < 0.7 and insts:
            L.append('v_%s = %s.%s' % (w[i], rng.choice(insts), rng.choice(['f_' + w[0], 'c_' + w[1], 'm_' + w[2]])))
        else:
            L.append('v_%s = %d' % (w[i], rng.randint(0, 99)))
    if insts and rng.random() < 0.7:
        L.append('%s.' % rng.choice(insts))
    if funcs and rng.random() < 0.7:
        L.append('%s(' % rng.choice(funcs)[0])
    return '\n'.join(L) + ('\n' if rng.random() < 0.8 else '')


CORPUS = [
    '''def deco(fn):
    def wrapper(*args, **kwargs):
        return fn(*args, **kwargs)
    return wrapper


class Base:
    shared = 1

    def __init__(self, value):
        self.value = value

    @property
    def prop(self):
        """prop doc"""
        return self.value

    @staticmethod
    def make(n):
        return Base(n)


class Child(Base):
    def __init__(self, value, extra):
        super().__init__(value)
        self.extra = extra

    @deco
    def run(self, times, step=2):
        total = 0
        for i in (1, 2, 3):
            total = total + i * step
        return total


inst = Child(1, 'e')
first = inst.prop
second = inst.run(3)
third = Base.make(4)
inst.run(
''',
    '''counter = 0


def outer(a, b):
    """outer doc"""
    scale = 2

    def middle(c):
        def innermost(d):
            return a + c + d + scale
        return innermost
    return middle(b)(1)


def bump():
    global counter
    counter = counter + 1
    return counter


square = lambda n: n * n
pairs = [(x, y) for x in (1, 2) for y in ('a', 'b')]
squares = {k: square(k) for k in (1, 2, 3)}
try:
    risky = outer(1, 2)
except ValueError as err:
    risky = err
else:
    risky = 0
finally:
    done = 1
with open('f') as handle:
    data = handle
result = bump()
outer(
''',
    '''class Node:
    """Node doc"""
    kind = 'node'

    def __init__(self, parent, label):
        self.parent = parent
        self.label = label
        self.children = []

    def add(self, child):
        self.children.append(child)
        child.parent = self
        return child

    def walk(self, depth=0):
        yield depth, self
        for c in self.children:
            yield from c.walk(depth + 1)


class Leaf(Node):
    kind = 'leaf'

    def add(self, child):
        raise TypeError(self.label)


async def fetch(node, retries=3):
    async with node as n:
        return n


root = Node(0, 'root')
leaf = root.add(Leaf(root, 'l'))
label = leaf.label
root.
''',
]


def _corpus_chunks():
    """Chunks (class / def blocks) of parso's own sources with the import lines removed."""
    out = []
    try:
        import parso
        base = os.path.dirname(parso.__file__)
        for rel in ('tree.py', 'utils.py', 'python/prefix.py'):
            txt = open(os.path.join(base, rel), encoding='utf8').read()
            lines = [l for l in txt.split('\n') if not re.match(r'\s*(from \S+ )?import ', l)]
            starts = [i for i, l in enumerate(lines) if re.match(r'(class|def) ', l)] + [len(lines)]
            for a, b in zip(starts, starts[1:]):
                if 8 <= b - a <= 70:
                    out.append('\n'.join(lines[a:b]).rstrip() + '\n')
    except Exception:
        pass
    return out


# --------------------------------------------------------------------------- edits
STMTS = ['{n} = {m}', '{n} = {m}.f_{w}', '{n} = {m}()', 'def {n}({m}, extra):', 'class {n}({m}):', 'return {m}',
         '{n} = 1', "{n} = 'txt'", '{m}.', '{m}(', 'if {m}:', 'else:', 'for {n} in {m}:', 'pass', '{m}.{w}',
         'self.f_{w} = {m}', 'del {m}', 'import {w}', '"""doc {w}"""', '{n}, other = {m}', '@{m}', '    ']
CHARS = list('abcxyz_') + list(' ().:,=\n') + ['    ', '#', "'", '1', '[', ']', '\t']

EDIT_KINDS = ['ins_line', 'ins_line', 'del_lines', 'rep_line', 'ins_char', 'ins_char', 'del_char', 'rep_char',
              'indent', 'dedent', 'paste', 'undo', 'same', 'rename', 'params', 'type_dot', 'type_call', 'move_block',
              'append_def', 'cut_tail']


def _idents(text):
    return [m for m in re.finditer(r'[A-Za-z_][A-Za-z_0-9]*', text)
            if m.group(0) not in ('def', 'class', 'return', 'self', 'if', 'else', 'for', 'in', 'import', 'pass',
                                  'del', 'try', 'except', 'finally', 'with', 'as', 'lambda', 'yield', 'from',
                                  'global', 'async', 'await', 'raise', 'not', 'and', 'or', 'is', 'while')]


def _stmt(rng, text):
    ids = sorted({m.group(0) for m in _idents(text)}) or ['x']
    return rng.choice(STMTS).format(n=rng.choice(ids + ['fresh_' + rng.choice(WORDS)]), m=rng.choice(ids),
                                    w=rng.choice(WORDS))


def _indent_of(line):
    return len(line) - len(line.lstrip(' '))


def apply_edit(rng, text, kind, stack):
    """One editor action.  Returns the new text (possibly equal to the old one)."""
    lines = text.split('\n')
    n = len(lines)
    i = rng.randrange(n)
    if kind == 'ins_line':
        ind = _indent_of(lines[min(i, n - 1)]) if rng.random() < 0.8 else rng.choice([0, 4, 8])
        lines.insert(i, ' ' * ind + _stmt(rng, text))
    elif kind == 'del_lines':
        k = rng.randint(1, 3)
        del lines[i:i + k]
    elif kind == 'rep_line':
        lines[i] = ' ' * _indent_of(lines[i]) + _stmt(rng, text)
    elif kind in ('ins_char', 'del_char', 'rep_char'):
        if not text:
            return rng.choice(CHARS)
        # mostly inside or next to an identifier: that is where caches can go stale
        ids = _idents(text)
        if ids and rng.random() < 0.6:
            m = rng.choice(ids)
            off = rng.randint(m.start(), m.end())
        else:
            off = rng.randrange(len(text) + 1)
        if kind == 'ins_char':
            return text[:off] + rng.choice(CHARS) + text[off:]
        if kind == 'del_char':
            k = rng.randint(1, 3)
            return text[:max(0, off - k)] + text[off:]
        return text[:off] + rng.choice(CHARS) + text[off + 1:]
    elif kind in ('indent', 'dedent'):
        j = min(n, i + rng.randint(1, 6))
        for k in range(i, j):
            if kind == 'indent':
                if lines[k].strip():
                    lines[k] = '    ' + lines[k]
            elif lines[k].startswith('    '):
                lines[k] = lines[k][4:]
    elif kind == 'paste':
        j = min(n, i + rng.randint(1, 8))
        block = lines[i:j]
        at = rng.randrange(n + 1)
        lines[at:at] = block
    elif kind == 'move_block':
        j = min(n, i + rng.randint(1, 8))
        block = lines[i:j]
        del lines[i:j]
        at = rng.randrange(len(lines) + 1)
        lines[at:at] = block
    elif kind == 'undo':
        if len(stack) >= 2:
            return stack[-2] if rng.random() < 0.7 else rng.choice(stack[:-1])
        return text
    elif kind == 'same':
        return text
    elif kind == 'rename':
        # change the spelling of ONE occurrence (often a definition) - classic stale-name maker
        heads = [m for m in re.finditer(r'(?:def|class) ([A-Za-z_]\w*)|^(\w+) =', text, flags=re.M)]
        if heads and rng.random() < 0.7:
            m = rng.choice(heads)
            g = 1 if m.group(1) else 2
            s, e = m.span(g)
        else:
            ids = _idents(text)
            if not ids:
                return text
            m = rng.choice(ids)
            s, e = m.span()
        new = rng.choice([text[s:e] + '2', text[s:e][:-1] or 'q', 'r_' + text[s:e], rng.choice(WORDS)])
        return text[:s] + new + text[e:]
    elif kind == 'params':
        defs = [k for k, l in enumerate(lines) if re.match(r'\s*def \w+\(', l)]
        if not defs:
            return text
        k = rng.choice(defs)
        m = re.match(r'(\s*def \w+\()(.*?)(\):?.*)$', lines[k])
        if not m:
            return text
        ps = [p.strip() for p in m.group(2).split(',') if p.strip()]
        act = rng.random()
        if act < 0.4 or not ps:
            ps.insert(rng.randint(1 if ps[:1] == ['self'] else 0, len(ps)), rng.choice(['n1', 'n2', 'kw=0', '*rest']))
        elif act < 0.7 and len(ps) > (1 if ps[0] == 'self' else 0):
            del ps[-1]
        else:
            ps[-1] = rng.choice(['renamed', 'other=5'])
        lines[k] = m.group(1) + ', '.join(ps) + m.group(3)
    elif kind in ('type_dot', 'type_call'):
        ids = sorted({m.group(0) for m in _idents(text)}) or ['x']
        tail = rng.choice(ids) + ('.' if kind == 'type_dot' else '(')
        if rng.random() < 0.5:
            lines.insert(i, ' ' * _indent_of(lines[i]) + tail)
        else:
            lines[i] = lines[i] + ('' if not lines[i].strip() else '; ') + tail if rng.random() < 0.3 else \
                ' ' * _indent_of(lines[i]) + tail
    elif kind == 'append_def':
        nm = 'late_' + rng.choice(WORDS)
        lines += ['def %s(u, v):' % nm, '    """%s doc"""' % nm, '    return u', '%s(' % nm]
    elif kind == 'cut_tail':
        del lines[max(1, n - rng.randint(1, 5)):]
    return '\n'.join(lines)


def changed_lines(old, new):
    a, b = old.split('\n'), new.split('\n')
    i = 0
    while i < min(len(a), len(b)) and a[i] == b[i]:
        i += 1
    j = 0
    while j < min(len(a), len(b)) - i and a[-1 - j] == b[-1 - j]:
        j += 1
    return i + 1, max(i + 1, len(b) - j)     # 1-based inclusive range in the new text


def sample_positions(rng, text, region, n_pos):
    """(line, column) pairs: identifiers (biased to the edited region and to names whose spelling
    also occurs elsewhere), positions after '.', inside call brackets, and one random."""
    lines = text.split('\n')
    starts = [0]
    for l in lines:
        starts.append(starts[-1] + len(l) + 1)

    def lc(off):
        lo, hi = 0, len(lines) - 1
        while lo < hi:
            mid = (lo + hi + 1) // 2
            if starts[mid] <= off:
                lo = mid
            else:
                hi = mid - 1
        return lo + 1, off - starts[lo]

    ids = _idents(text)
    near = [m for m in ids if region[0] - 1 <= lc(m.start())[0] <= region[1] + 1]
    out = []
    for pool, k in ((near, max(1, n_pos // 3)), (ids, max(1, n_pos // 3))):
        for m in rng.sample(pool, min(k, len(pool))):
            out.append(lc(rng.randint(m.start(), m.end())))
    dots = [m.end() for m in re.finditer(r'\w\.', text)]
    calls = [m.end() for m in re.finditer(r'\w\(|, ', text)]
    # the end of the line after a line that leaves a call bracket open (multi-line call)
    opened = [starts[i + 1] + rng.choice([0, len(lines[i + 1])]) for i in range(len(lines) - 1)
              if lines[i].count('(') > lines[i].count(')') and re.search(r'\w\(', lines[i])]
    for pool in (dots, calls, opened):
        if pool:
            out.append(lc(rng.choice(pool)))
    if text:
        out.append(lc(rng.randrange(len(text) + 1)))
    seen, res = set(), []
    for p in out:
        if p not in seen:
            seen.add(p)
            res.append(p)
    return res[:n_pos + 2]


def gen_session(rng, sid, corpus, max_len=30):
    """A session: 1 or 2 buffers, a list of steps (buffer index, text, positions, search word)."""
    mode = rng.choice(['path', 'path', 'disk', 'nopath', 'nopath', 'two-path', 'two-nopath', 'mixed'])
    nb = 1 if mode in ('path', 'disk', 'nopath') else 2
    bufs = []
    for b in range(nb):
        k = rng.random()
        text = rng.choice(CORPUS) if k < 0.2 else (rng.choice(corpus) if corpus and k < 0.35 else gen_program(rng))
        if mode in ('path', 'two-path'):
            bm = 'path'
        elif mode == 'disk':
            bm = 'disk'
        elif mode in ('nopath', 'two-nopath'):
            bm = 'nopath'
        else:
            bm = ['path', 'nopath'][b]
        bufs.append(dict(mode=bm, name='buf%d.py' % b, init=text))
    length = rng.choice([1, 2, 3, 5, 8, 12, 16, 20, 25, 30])
    length = min(length, max_len)
    stacks = [[b['init']] for b in bufs]
    steps = []
    for si in range(length + 1):         # step 0 opens the initial text
        b = 0 if nb == 1 or si == 0 else rng.randrange(nb)
        old = stacks[b][-1]
        if si == 0 or (len(stacks[b]) == 1 and b and not any(s['buf'] == b for s in steps)):
            new, kind = old, 'open'
        else:
            kind = rng.choice(EDIT_KINDS)
            try:
                new = apply_edit(rng, old, kind, stacks[b])
            except Exception:
                new = old
            if len(new) > 6000:
                new = old
        if kind != 'open':
            stacks[b].append(new)
        region = changed_lines(old, new) if kind != 'open' else (1, 3)
        pos = sample_positions(rng, new, region, 4)
        ids = sorted({m.group(0) for m in _idents(new)})
        word = rng.choice(ids) if ids else 'x'
        # the pause before this edit in clock units of 0.5 s (validity of the signature cache: 6)
        tick = rng.choice([0, 0, 0, 0, 1, 2, 6, 7, 20]) if si else 0
        steps.append(dict(buf=b, kind=kind, text=new, positions=pos, word=word, tick=tick))
    return dict(id=sid, mode=mode, buffers=bufs, steps=steps)


# --------------------------------------------------------------------------- running jedi
POS_METHODS = ['complete', 'infer', 'goto', 'get_references', 'get_signatures', 'get_context', 'help']


def _rel(p, root):
    if p is None:
        return None
    p = str(p)
    if root and p.startswith(root + os.sep):
        return '<root>/' + os.path.relpath(p, root)
    return p


def _name(n, root, full=True):
    try:
        r = [n.name, n.type, n.module_name, _rel(n.module_path, root), n.line, n.column]
        if full:
            r += [n.full_name, n.description, n.get_line_code(), n.is_definition()]
            try:
                r.append(n.docstring(raw=True)[:120])
            except Exception as e:
                r.append('EXC:' + type(e).__name__)
        return r
    except Exception as e:
        s = common.exc_sig(e)
        return 'EXC:%s@%s' % (s['exc'], s['site'])


def _canon(method, res, root):
    if method == 'complete':
        return [[c.name, c.type, c.complete, c.get_completion_prefix_length()] for c in res]
    if method == 'get_signatures':
        # the order of several signatures is the iteration order of a ValueSet (identity hashes)
        return sorted(([s.name, s.index, list(s.bracket_start), s.to_string(), _rel(s.module_path, root), s.line,
                        s.column] for s in res), key=json.dumps)
    if method == 'get_context':
        return _name(res, root, full=False) if res is not None else None
    if method == 'complete_search':
        return [[n.name, n.type] for n in res]
    if method in ('get_names', 'search', 'get_references'):
        return [[_name(n, root, full=False), _guard(n.is_definition)] for n in res]
    out = [_name(n, root) for n in res]
    if method in ('goto', 'help'):
        # goto returns list(set(...)): the order is the iteration order of a set of objects hashed
        # by identity (C16's subject, not C08's) - compare as a set
        out.sort(key=json.dumps)
    return out


def _dump(node):
    """type / value / prefix / positions of every node of a parso tree."""
    out = []
    stack = [node]
    while stack:
        n = stack.pop()
        ch = getattr(n, 'children', None)
        if ch is None:
            out.append((n.type, n.value, n.prefix, n.start_pos, n.end_pos))
        else:
            out.append((n.type, len(ch), n.start_pos, n.end_pos))
            stack.extend(reversed(ch))
    return out


def _guard(f):
    try:
        return f()
    except Exception as e:
        s = common.exc_sig(e)
        return 'EXC:%s@%s' % (s['exc'], s['site'])


def _script(jedi, text, path, env):
    kw = {}
    if path:
        kw['path'] = path
    if env == 'interpreter':
        # no helper process: compiled objects are inspected in this process (a documented choice of
        # environment; most sessions use it because starting a helper per fresh child dominates the cost)
        from jedi.api.environment import InterpreterEnvironment
        kw['environment'] = InterpreterEnvironment()
    return jedi.Script(text, **kw)


def eval_text(jedi, text, path, root, positions, word, proviso=False, env='default'):
    """All answers for one text through ONE new Script."""
    ans = {}
    info = {}
    try:
        script = _script(jedi, text, path, env)
    except Exception as e:
        s = common.exc_sig(e)
        return dict(answers={'Script': 'EXC:%s@%s' % (s['exc'], s['site'])}, tree_ok=None, _grammar=None)
    if proviso:
        # is the module node of this Script the parse of its text?
        try:
            fresh = script._inference_state.grammar.parse(text)
            info['tree_ok'] = _dump(script._module_node) == _dump(fresh) and script._module_node.get_code() == text
            info['grammar'] = script._inference_state.grammar
        except Exception as e:
            info['tree_ok'] = None
    for (l, c) in positions:
        for m in POS_METHODS:
            ans['%s@%d,%d' % (m, l, c)] = _guard(lambda: _canon(m, getattr(script, m)(l, c), root))
    ans['get_names'] = _guard(lambda: _canon('get_names', script.get_names(all_scopes=True, definitions=True,
                                                                             references=True), root))
    ans['get_names_top'] = _guard(lambda: _canon('get_names', script.get_names(), root))
    ans['search:' + word] = _guard(lambda: _canon('search', list(script.search(word, all_scopes=True)), root))
    ans['complete_search:' + word[:2]] = _guard(lambda: _canon('complete_search',
                                                                list(script.complete_search(word[:2])), root))
    ans['syntax_errors'] = _guard(lambda: [[e.line, e.column, e.until_line, e.until_column]
                                           for e in script.get_syntax_errors()])
    return dict(answers=ans, tree_ok=info.get('tree_ok'), _grammar=info.get('grammar'))


def _buf_path(root, buf):
    return None if buf['mode'] == 'nopath' else os.path.join(root, buf['name'])


def _prepare_root(root, bufs):
    os.makedirs(root, exist_ok=True)
    for b in bufs:
        if b['mode'] == 'disk':
            p = os.path.join(root, b['name'])
            if not os.path.exists(p):
                with open(p, 'w', encoding='utf8') as f:
                    f.write(b['init'])


def _child_setup(cwd):
    import jedi
    os.makedirs(cwd, exist_ok=True)
    os.chdir(cwd)
    return jedi


def _sig_key_parts(bracket_leaf, code_lines, user_pos):
    """The middle component of the time-cache key as the code computes it (a re.Match object or
    None) and as it is intended (the text from the bracket line up to the last bracket)."""
    line_index = user_pos[0] - 1
    before_cursor = code_lines[line_index][:user_pos[1]]
    coded = ''.join(code_lines[bracket_leaf.start_pos[0]:line_index] + [before_cursor])
    intended = ''.join(code_lines[bracket_leaf.start_pos[0] - 1:line_index] + [before_cursor])
    mi = re.match(r'.*\(', intended, re.DOTALL)
    return re.match(r'.*\(', coded, re.DOTALL) is None, (mi.group(0) if mi else None)


def _observe_signature_cache(state):
    """Wrap helpers.cache_signatures (observation only): for every call record the cursor, whether
    the key as coded has None in the middle, the bracket position, whether it was answered from
    the time cache and at which step the cached value was computed."""
    from jedi.api import helpers
    orig_cs, orig_infer = helpers.cache_signatures, helpers.infer
    ncalls = [0]
    origin = {}

    def w_infer(*a, **k):
        ncalls[0] += 1
        return orig_infer(*a, **k)

    def w_cs(inference_state, context, bracket_leaf, code_lines, user_pos):
        try:
            none_key, _ = _sig_key_parts(bracket_leaf, code_lines, user_pos)
        except Exception:
            none_key = None
        n0 = ncalls[0]
        res = orig_cs(inference_state, context, bracket_leaf, code_lines, user_pos)
        hit = ncalls[0] == n0
        k = (state.get('path'), tuple(bracket_leaf.start_pos), none_key)
        if not hit:
            origin[k] = (state['step'], list(user_pos))
        o = origin.get(k) if hit else None
        state['sig'].append(dict(pos=list(user_pos), none_key=none_key, bracket=list(bracket_leaf.start_pos), hit=hit,
                                 origin_step=o[0] if o else None, origin_pos=o[1] if o else None))
        return res

    helpers.cache_signatures = w_cs
    helpers.infer = w_infer


def session_child(arg):
    """Runs in a forked child that has never parsed anything: the whole history, one process."""
    sess, root, upto = arg
    jedi = _child_setup(os.path.join(root, 'cwd'))
    from jedi import cache as jcache
    clock = _Clock()
    jcache.time = clock              # explicit clock: the pauses between edits are part of the input
    state = dict(step=0, sig=[], path=None)
    _observe_signature_cache(state)
    out = []
    shadow = {}
    grammar = [None]
    steps = sess['steps'] if upto is None else sess['steps'][:upto + 1]
    for i, st in enumerate(steps):
        buf = sess['buffers'][st['buf']]
        clock.units += st.get('tick', 0)
        path = _buf_path(root, buf)
        state.update(step=i, sig=[], path=path)
        r = eval_text(jedi, st['text'], path, root, [tuple(p) for p in st['positions']], st['word'], proviso=True,
                      env=sess.get('env', 'default'))
        grammar[0] = r.pop('_grammar', None) or grammar[0]
        r['proviso'] = _shadow_step(shadow, path, grammar[0], st['text'])
        r['sig'] = state['sig']
        out.append(r)
    return out


def _shadow_step(shadow, slot, grammar, text):
    """The property's proviso, checked on parso ALONE: the same sequence of incremental parses that
    the cache slot `slot` (a path, or None for all path-less buffers) sees, performed with parso's
    diff parser on a tree of our own (no cache involved).  True = parso kept its promise at this step;
    False = it did not (the step is excluded); None = unknown (no grammar yet)."""
    if grammar is None:
        return None
    import parso
    lines = parso.split_lines(text, keepends=True)
    ent = shadow.get(slot)
    if ent == 'tainted':
        return False
    try:
        if ent is None:
            mod = grammar.parse(text)
        elif ent[1] == lines:
            mod = ent[0]
        else:
            mod = grammar._diff_parser(grammar._pgen_grammar, grammar._tokenizer, ent[0]).update(
                old_lines=ent[1], new_lines=lines)
        shadow[slot] = (mod, lines)
        return _dump(mod) == _dump(grammar.parse(text)) and mod.get_code() == text
    except Exception:
        shadow[slot] = 'tainted'
        return False


def fresh_child(arg):
    """Runs in a forked child that has never parsed anything: ONE text."""
    text, path, root, positions, word = arg[:5]
    env = arg[5] if len(arg) > 5 else 'default'
    jedi = _child_setup(os.path.join(root, 'cwd'))
    from jedi import cache as jcache
    jcache.time = _Clock()
    r = eval_text(jedi, text, path, root, [tuple(p) for p in positions], word, env=env)
    r.pop('_grammar', None)
    return r


FRESH_SUB = r'''
import sys, json, os
sys.path.insert(0, %(harness)r)
import common, c08
arg = json.loads(sys.stdin.read())
common.setup_jedi(arg['cache'])
r = c08.fresh_child((arg['text'], arg['path'], arg['root'], arg['positions'], arg['word'], arg['env']))
sys.stdout.write('\n@@RESULT@@' + json.dumps(r))
'''


def fresh_subprocess(text, path, root, positions, word, env, cache):
    p = subprocess.run([common.PY, '-c', FRESH_SUB % dict(harness=os.path.dirname(os.path.abspath(__file__)))],
                       input=json.dumps(dict(text=text, path=path, root=root, positions=positions, word=word,
                                             env=env, cache=cache)),
                       text=True, capture_output=True, timeout=1200, env=common.jedi_env(), cwd=root)
    if '@@RESULT@@' not in p.stdout:
        raise RuntimeError('fresh interpreter failed: ' + (p.stderr or p.stdout)[-800:])
    return json.loads(p.stdout.split('@@RESULT@@', 1)[1])


# --------------------------------------------------------------------------- fork helper
def survivor_child(arg):
    """All results of infer at one position BEFORE Script.infer's set(defs) de-duplication
    (observation only: the name `set` is shadowed in jedi.api's globals for this child)."""
    text, path, root, pos, env = arg
    jedi = _child_setup(os.path.join(root, 'cwd'))
    import jedi.api as japi
    japi.set = list
    script = _script(jedi, text, path, env)
    return _canon('infer', script.infer(pos[0], pos[1]), root)


def _survivor_explains(rows_all, hv, fv):
    """hv and fv are two choices of one survivor per Name.__eq__ class of the same enumeration, and
    some class has two members that look different (C16_infer_survivor_refuted)."""
    if not (isinstance(rows_all, list) and isinstance(hv, list) and isinstance(fv, list)):
        return False
    if any(not isinstance(r, list) for r in rows_all + hv + fv):
        return False
    ident = lambda r: json.dumps([r[0], r[3], r[4], r[5]])
    groups = {}
    for r in rows_all:
        groups.setdefault(ident(r), set()).add(json.dumps(r))
    if not any(len(g) > 1 for g in groups.values()):
        return False
    for out in (hv, fv):
        ks = [ident(r) for r in out]
        if sorted(ks) != sorted(groups) or any(json.dumps(r) not in groups[ident(r)] for r in out):
            return False
    return True


def forked_call(fn, arg, timeout=900):
    """Run fn(arg) in a forked child and return its JSON-able result.  The caller must never
    have parsed anything with parso/jedi, so the child starts from a pristine jedi."""
    r, w = os.pipe()
    sys.stdout.flush()
    pid = os.fork()
    if pid == 0:
        code = 0
        try:
            os.close(r)
            try:
                res = ['ok', fn(arg)]
            except BaseException as e:
                res = ['err', repr(e), traceback.format_exc()[-2000:]]
            data = json.dumps(res, default=repr).encode('utf8')
            with os.fdopen(w, 'wb') as f:
                f.write(data)
        except BaseException:
            code = 1
        finally:
            os._exit(code)
    os.close(w)
    chunks = []
    deadline = time.time() + timeout
    try:
        while True:
            left = deadline - time.time()
            if left <= 0:
                os.kill(pid, signal.SIGKILL)
                chunks = None
                break
            rd, _, _ = select.select([r], [], [], min(left, 5))
            if rd:
                b = os.read(r, 1 << 16)
                if not b:
                    break
                chunks.append(b)
    finally:
        os.close(r)
        try:
            os.waitpid(pid, 0)
        except ChildProcessError:
            pass
    if chunks is None:
        return ['timeout']
    try:
        return json.loads(b''.join(chunks).decode('utf8'))
    except Exception:
        return ['err', 'child died without a result', '']


_WARM = []


def _prewarm():
    """Text-independent start-up work done once in the process that forks the children: parso's
    grammar tables (a cache keyed by the grammar version; ~1/3 of the cost of a cold child).  Nothing
    here ever sees a buffer; the fresh-sub stream checks the short-cut against real new interpreters."""
    if not _WARM:
        _WARM.append(1)
        try:
            import parso
            for v in ('%d.%d' % sys.version_info[:2], '3.13'):
                parso.load_grammar(version=v)
        except Exception:
            pass


def _work(item):
    """pmap worker entry.  The worker itself never creates a Script; every job runs in its own child."""
    _prewarm()
    kind, arg = item
    fn = {'session': session_child, 'fresh': fresh_child, 'trace': trace_child, 'survivor': survivor_child}[kind]
    return forked_call(fn, arg)


# --------------------------------------------------------------------------- history stream
def _fresh_key(text, path, positions, word):
    return hashlib.sha1(json.dumps([text, path, positions, word]).encode('utf8', 'surrogatepass')).hexdigest()


def _diff_class(a, b):
    if isinstance(a, str) and a.startswith('EXC:') or isinstance(b, str) and b.startswith('EXC:'):
        return 'exception-differs'
    if isinstance(a, list) and isinstance(b, list):
        if sorted(map(json.dumps, a)) == sorted(map(json.dumps, b)):
            return 'order-differs'
        if len(a) > len(b):
            return 'extra-in-history'
        if len(a) < len(b):
            return 'missing-in-history'
    return 'value-differs'


def _compare_step(sres, fres):
    diffs = []
    for k, v in sres['answers'].items():
        fv = fres['answers'].get(k, '<missing>')
        if v != fv:
            if _both_crash_stack_dependent(v, fv):
                # neither side has an answer: both queries die, one of them by exhausting the
                # interpreter stack (the typeshed-less K1 cycle, C01's finding).  Where a stack
                # overflow surfaces - and which half-filled memo entries it leaves behind for the
                # next frame that catches it - depends on the depth the query started from, not on
                # the text; the crash itself is reported by C01 by call site.  Counted, not compared.
                sres.setdefault('_crash_pairs', []).append(k)
                continue
            diffs.append((k, v, fv))
    return diffs


K1_SIG = 'EXC:RecursionError@recursion-through:jedi/inference/value/klass.py:get_filters'


def _k1_vs_answer(a, b):
    ea = isinstance(a, str) and a.startswith('EXC:')
    eb = isinstance(b, str) and b.startswith('EXC:')
    return (ea != eb) and (a == K1_SIG or b == K1_SIG)


def _both_crash_stack_dependent(a, b):
    return (isinstance(a, str) and isinstance(b, str) and a.startswith('EXC:') and b.startswith('EXC:')
            and (a.startswith('EXC:RecursionError') or b.startswith('EXC:RecursionError')))


def _reproducible(sess, root, step_i, key, fresh_val, tries=2):
    """Does the identical history (in a process of its own) differ from the fresh answer every time?"""
    _prewarm()
    cur = dict(sess, steps=[dict(s) for s in sess['steps'][:step_i + 1]])
    for _ in range(tries):
        r = forked_call(session_child, (cur, root, None), timeout=1200)
        if r[0] != 'ok':
            return True
        last = r[1][-1]
        if last['answers'].get(key, '<missing>') == fresh_val:
            return False
    return True


def shrink_session(ctx, sess, root, step_i, key, fresh_val, budget=40):
    """Delete steps (then queries) while the last step still differs from the fresh answer on `key`."""
    cur = dict(sess, steps=[dict(s) for s in sess['steps'][:step_i + 1]])

    _prewarm()

    def fails(cand):
        r = forked_call(session_child, (cand, root, None), timeout=1200)
        if r[0] != 'ok':
            return False
        last = r[1][-1]
        return last['proviso'] is not False and last['answers'].get(key, '<missing>') != fresh_val

    runs = 0
    if not fails(cur):
        return None, 'not reproducible in a process of its own'
    changed = True
    while changed and runs < budget:
        changed = False
        for i in range(len(cur['steps']) - 2, -1, -1):
            cand = dict(cur, steps=cur['steps'][:i] + cur['steps'][i + 1:])
            runs += 1
            if fails(cand):
                cur = cand
                changed = True
            if runs >= budget:
                break
    # keep only the failing query in the last step, and as few queries as possible before
    m = re.match(r'(\w+)@(\d+),(\d+)$', key)
    if m:
        cand = dict(cur, steps=[dict(s) for s in cur['steps']])
        cand['steps'][-1]['positions'] = [[int(m.group(2)), int(m.group(3))]]
        if fails(cand):
            cur = cand
    return cur, None


def _scaled(n):
    """development aid: VERIF_C08_SCALE=0.2 runs a fifth of the sessions"""
    try:
        return max(1, int(n * float(os.environ.get('VERIF_C08_SCALE', '1'))))
    except ValueError:
        return n


def classify_known(sess, step_results, i, key, hv, fv):
    """Is this difference the stale answer the MODEL predicts for the real configuration
    (C08_history_dependent_multiline_call)?  That is: the query went through cache_signatures with
    a key whose middle component is None (cursor on a later line than the bracket, no bracket in
    between), the call was answered from the time cache, the cached value was computed at an earlier
    step j of this history - and the answer shown is the one computed at step j.
    Returns ('known', None), ('verify', obs) when only the two-Script reconstruction can tell, or None."""
    m = re.match(r'(get_signatures|complete)@(\d+),(\d+)$', key)
    if not m or not isinstance(hv, list) or not isinstance(fv, list):
        return None
    pos = [int(m.group(2)), int(m.group(3))]
    obs = [o for o in step_results[i].get('sig', ()) if o['pos'] == pos and o['hit'] and o['none_key']
           and o['origin_step'] is not None and o['origin_step'] < i]
    if not obs:
        return None
    if m.group(1) == 'get_signatures':
        o = obs[0]
        oa = step_results[o['origin_step']]['answers'].get('get_signatures@%d,%d' % tuple(o['origin_pos']))
        if isinstance(oa, list) and [(x[0], x[3]) for x in hv] == [(x[0], x[3]) for x in oa]:
            return 'known', None
        return 'verify', obs[0]
    # complete(): mostly the signatures only contribute the keyword-parameter completions `name=`
    h = {json.dumps(x) for x in hv}
    f = {json.dumps(x) for x in fv}
    if all(json.loads(x)[0].endswith('=') for x in h ^ f):
        return 'known', None
    return 'verify', obs[0]


def mini_session(sess, i, key, obs):
    """The model says the stale answer is a function of the current tree and of the signature value
    computed at the origin step only: [Script(text_j): ask at the origin cursor] then
    [Script(text_i): the failing query], nothing else, must reproduce it."""
    m = re.match(r'(\w+)@(\d+),(\d+)$', key)
    st_i, st_j = sess['steps'][i], sess['steps'][obs['origin_step']]
    steps = [dict(buf=st_j['buf'], kind='origin', text=st_j['text'], positions=[obs['origin_pos']], word=st_j['word'], tick=0),
             dict(buf=st_i['buf'], kind='stale', text=st_i['text'], positions=[[int(m.group(2)), int(m.group(3))]],
                  word=st_i['word'], tick=0)]
    return dict(mode=sess['mode'], env=sess.get('env', 'default'), buffers=sess['buffers'], steps=steps)


def stream_history(ctx):
    corpus = _corpus_chunks()
    ctx.stat('corpus_chunks', len(corpus))
    nsess = _scaled(ctx.n(28, 320))
    sessions = [gen_session(ctx.rng, i, corpus) for i in range(nsess)]
    # a few fixed, directed sessions first (seed independent): the classic stale-cache makers
    sessions = directed_sessions() + sessions
    for i, s in enumerate(sessions):
        s['id'] = i
        # the default environment (helper process) for the directed sessions and every fourth seeded one
        s['env'] = 'default' if i < len(directed_sessions()) or i % 4 == 0 else 'interpreter'
    root_of = {}
    items = []
    fresh_tasks = {}
    for s in sessions:
        root = os.path.join(ctx.tmp, 'h%d' % s['id'])
        _prepare_root(root, s['buffers'])
        os.makedirs(os.path.join(root, 'cwd'), exist_ok=True)
        root_of[s['id']] = root
        items.append(('session', (s, root, None)))
        for st in s['steps']:
            path = _buf_path(root, s['buffers'][st['buf']])
            fk = _fresh_key(st['text'], path, st['positions'], st['word'] + '/' + s['env'])
            st['_fk'] = fk
            if fk not in fresh_tasks:
                fresh_tasks[fk] = (st['text'], path, root, st['positions'], st['word'], s['env'])
    fkeys = sorted(fresh_tasks)
    items += [('fresh', fresh_tasks[k]) for k in fkeys]
    # longest jobs first
    order = sorted(range(len(items)), key=lambda i: -(len(items[i][1][0]['steps']) if items[i][0] == 'session' else 0))
    results = [None] * len(items)
    res = common.pmap(_work, [items[i] for i in order], chunksize=1, timeout=6000)
    for i, r in zip(order, res):
        results[i] = r
    sres = results[:len(sessions)]
    fres = dict(zip(fkeys, results[len(sessions):]))

    kinds, modes = {}, {}
    n_steps = n_excl = n_q = n_exc = n_sig_hits = n_crash_pairs = 0
    failing = []
    to_verify, unknown = [], {}

    def known_hit(s, i, key, hv, fv):
        # a finding the model predicts (Props: C08_history_dependent_multiline_call)
        ctx.deviation(dict(stream='history', cls='stale-signature-multiline-call', predicted=True),
                      dict(session=_strip(dict(s, steps=s['steps'][:i + 1])), step=i, query=key, in_history=hv, fresh=fv),
                      'stale answer of %s served from the signature time cache' % key)
    for s, r in zip(sessions, sres):
        modes[s['mode']] = modes.get(s['mode'], 0) + 1
        if r[0] != 'ok':
            ctx.deviation(dict(stream='history', cls='session-' + r[0]), dict(session=_strip(s), error=r[1:]),
                          'the session process did not finish: %s' % (r[1:2],))
            continue
        for i, (st, sr) in enumerate(zip(s['steps'], r[1])):
            kinds[st['kind']] = kinds.get(st['kind'], 0) + 1
            n_steps += 1
            fr = fres[st['_fk']]
            if fr[0] != 'ok':
                ctx.deviation(dict(stream='history', cls='fresh-' + fr[0]), dict(text=st['text'], error=fr[1:]),
                              'the fresh process did not finish')
                continue
            fr = fr[1]
            if sr['proviso'] is False:
                n_excl += 1
                continue
            if sr.get('tree_ok') is False:
                # parso alone parses this step correctly, yet the Script works on another tree
                ctx.deviation(dict(stream='history', cls='module-node-is-not-the-parse-of-the-text',
                                   mode=s['buffers'][st['buf']]['mode']),
                              dict(session=_strip(dict(s, steps=s['steps'][:i + 1])), step=i),
                              'Script._module_node after this history is not the tree of the current text although '
                              'parso\'s incremental parser, run alone on the same sequence, yields it')
            nq = len(sr['answers'])
            n_q += nq
            n_exc += sum(1 for v in sr['answers'].values() if isinstance(v, str) and v.startswith('EXC:'))
            n_sig_hits += sum(1 for o in sr.get('sig', ()) if o['hit'] and o['origin_step'] is not None
                              and o['origin_step'] < i)
            nontriv = i > 0 and any(v not in ([], None) and not (isinstance(v, str) and v.startswith('EXC:'))
                                    for v in sr['answers'].values())
            ctx.count('history', (s['mode'], st['text'], tuple(map(tuple, st['positions'])), i), nontrivial=nontriv, n=nq)
            cmp_ = _compare_step(sr, fr)
            n_crash_pairs += len(sr.get('_crash_pairs', ()))
            for (key, hv, fv) in cmp_:
                if _k1_vs_answer(hv, fv):
                    # one side dies in the typeshed-less get_filters cycle (K1, C01/C15's listed finding), the other
                    # answers: whether that cycle is entered depends on state earlier Scripts of the process left behind
                    ctx.deviation(dict(stream='history', cls='k1-recursion-vs-answer', predicted=False),
                                  dict(session=_strip(dict(s, steps=s['steps'][:i + 1])), step=i, query=key,
                                       in_history=hv if isinstance(hv, str) else '<answer>',
                                       fresh=fv if isinstance(fv, str) else '<answer>'),
                                  '%s: RecursionError through klass.get_filters on one side, an answer on the other' % key)
                    continue
                cls = classify_known(s, r[1], i, key, hv, fv)
                if cls and cls[0] == 'verify':
                    to_verify.append((s, i, key, hv, fv, cls[1]))
                elif cls:
                    known_hit(s, i, key, hv, fv)
                else:
                    unknown.setdefault(s['id'], []).append((i, key, hv, fv))
    # differences that only the two-Script reconstruction can attribute to the known finding
    if to_verify:
        vitems = [('session', (mini_session(s, i, key, obs), root_of[s['id']], None)) for (s, i, key, hv, fv, obs) in to_verify]
        vres = common.pmap(_work, vitems, chunksize=1, timeout=6000)
        for (s, i, key, hv, fv, obs), vr in zip(to_verify, vres):
            if vr[0] == 'ok' and len(vr[1]) == 2 and vr[1][1]['answers'].get(key, '<missing>') == hv:
                known_hit(s, i, key, hv, fv)
            else:
                unknown.setdefault(s['id'], []).append((i, key, hv, fv))
    ctx.stat('history_known_finding_verified_by_two_script_reconstruction', len(to_verify))
    for s in sessions:
        u = sorted(unknown.get(s['id'], []), key=lambda x: x[0])
        if u:
            i0 = u[0][0]
            failing.append((s, (i0, [(k, hv, fv) for (i, k, hv, fv) in u if i == i0])))
    ctx.stat('history_sessions', len(sessions))
    ctx.stat('history_modes', modes)
    ctx.stat('history_environments', {e: sum(1 for x in sessions if x['env'] == e) for e in ('default', 'interpreter')})
    ctx.stat('history_steps', n_steps)
    ctx.stat('history_edit_kinds', kinds)
    ctx.stat('history_steps_excluded_parso_proviso', n_excl)
    ctx.stat('history_queries', n_q)
    ctx.stat('history_queries_raising_same_exception_in_both', n_exc)
    ctx.stat('history_queries_crashing_in_both_with_a_stack_overflow_on_one_side_not_compared', n_crash_pairs)
    ctx.stat('history_signature_cache_hits_across_scripts', n_sig_hits)
    ctx.stat('history_distinct_fresh_evaluations', len(fkeys))
    # A difference is attributed to the HISTORY only if the same history reproduces it.  When a re-run
    # of the identical session (own process) gives the fresh answer, one history has produced both
    # answers: the cause is run-to-run nondeterminism (which duplicate of a value set survives
    # de-duplication depends on object addresses - C16's listed findings), and comparing with a fresh
    # process says nothing about staleness.  Counted, not reported here.
    kept, n_nondet = [], 0
    # infer differences that are two choices of the survivor of Script.infer's set(defs): the C16
    # defect (which equal-under-__eq__ result survives follows object addresses, i.e. what the process
    # allocated before).  Listed known finding, classified by re-enumerating the value set.
    for s, (i, diffs) in failing:
        st = s['steps'][i]
        for (k, hv, fv) in list(diffs):
            m = re.match(r'infer@(\d+),(\d+)$', k)
            if not m:
                continue
            path = _buf_path(root_of[s['id']], s['buffers'][st['buf']])
            r = _work(('survivor', (st['text'], path, root_of[s['id']], [int(m.group(1)), int(m.group(2))], s['env'])))
            if r[0] == 'ok' and _survivor_explains(r[1], hv, fv):
                diffs.remove((k, hv, fv))
                ctx.deviation(dict(stream='history', cls='infer-set-survivor', predicted=True),
                              dict(session=_strip(dict(s, steps=s['steps'][:i + 1])), step=i, query=k, in_history=hv,
                                   fresh=fv, enumeration_before_dedup=r[1]),
                              'infer at %s: history and fresh process keep different survivors of set(defs)' % k)
    failing = [(s, (i, d)) for (s, (i, d)) in failing if d]
    for s, (i, diffs) in failing:
        diffs2 = [(k, hv, fv) for (k, hv, fv) in diffs
                  if _reproducible(s, root_of[s['id']], i, k, fv)]
        n_nondet += len(diffs) - len(diffs2)
        if diffs2:
            kept.append((s, (i, diffs2)))
    failing = kept
    ctx.stat('history_differences_not_reproduced_by_the_same_history_nondeterministic_not_reported', n_nondet)
    for s, (i, diffs) in failing[:6]:
        key, hv, fv = diffs[0]
        root = root_of[s['id']]
        small, note = shrink_session(ctx, s, root, i, key, fv)
        method = key.split('@')[0].split(':')[0]
        sig = dict(stream='history', method=method, cls=_diff_class(hv, fv), mode=s['buffers'][s['steps'][i]['buf']]['mode'])
        ctx.deviation(sig, dict(session=_strip(small or dict(s, steps=s['steps'][:i + 1])), step=i, query=key,
                                in_history=hv, fresh=fv, other_differing_queries=[d[0] for d in diffs[1:8]],
                                shrink_note=note, root_layout=[b['mode'] for b in s['buffers']]),
                      'after the edit history the answer of %s differs from the answer of a fresh process for the same text'
                      % key)
    for s, (i, diffs) in failing[6:]:
        key, hv, fv = diffs[0]
        ctx.deviation(dict(stream='history', method=key.split('@')[0].split(':')[0], cls=_diff_class(hv, fv),
                           mode=s['buffers'][s['steps'][i]['buf']]['mode']),
                      dict(session=_strip(dict(s, steps=s['steps'][:i + 1])), step=i, query=key, in_history=hv, fresh=fv),
                      'after the edit history the answer of %s differs from a fresh process (not shrunk)' % key)
    if sessions and sres[0][0] == 'ok':
        s = sessions[len(directed_sessions())] if len(sessions) > len(directed_sessions()) else sessions[0]
        ctx.sample(dict(stream='history', mode=s['mode'], steps=[dict(kind=x['kind'], positions=x['positions'])
                                                                  for x in s['steps'][:6]],
                        first_text=s['steps'][0]['text'][:200]))

    # ---- a sample of the fresh answers recomputed in a brand-new interpreter
    nsub = ctx.n(6, 40)
    pick = ctx.rng.sample(fkeys, min(nsub, len(fkeys)))

    def one(k):
        t = fresh_tasks[k]
        try:
            return k, fresh_subprocess(t[0], t[1], t[2], t[3], t[4], t[5], os.path.join(ctx.tmp, 'subcache_' + k[:8])), None
        except Exception as e:
            return k, None, repr(e)
    from concurrent.futures import ThreadPoolExecutor
    with ThreadPoolExecutor(max_workers=6) as ex:
        for k, r, err in ex.map(one, pick):
            if err:
                raise RuntimeError(err)
            if fres[k][0] != 'ok':
                continue
            ctx.count('fresh-sub', k, nontrivial=True)
            d = _compare_step(dict(answers=fres[k][1]['answers']), r)
            if d:
                ctx.violation('obligation', dict(what='a forked never-parsed child and a brand-new interpreter disagree: '
                                                      'the fresh reference of the history stream is not trustworthy',
                                                 text=fresh_tasks[k][0], query=d[0][0], forked=d[0][1], interpreter=d[0][2]),
                              nofail=True)


def _strip(s):
    return dict(mode=s['mode'], env=s.get('env', 'default'), buffers=s['buffers'],
                steps=[{k: v for k, v in st.items() if not k.startswith('_')} for st in s['steps']])


def directed_sessions():
    """Seed-independent sessions that make a stale module-level cache visible at once."""
    base = ('class Alpha:\n    def m_one(self, x):\n        return x\n\n'
            'def fn_beta(a, b):\n    """beta doc"""\n    return a\n\n'
            'obj = Alpha()\nval = obj.m_one(1)\nres = fn_beta(val, 2)\nfn_beta(\nobj.\n')
    out = []
    for mode in ('path', 'nopath', 'disk'):
        texts = [base,
                 base.replace('def fn_beta(a, b)', 'def fn_beta(a, b, c_new)'),          # signature changes
                 base.replace('def fn_beta(a, b)', 'def fn_beta(a, b, c_new)').replace('m_one', 'm_two'),  # rename
                 base.replace('def fn_beta(a, b):', 'def fn_gamma(a):'),                 # definition disappears
                 base.replace('\ndef fn_beta', '\n    def fn_beta').replace('\n    """beta', '\n        """beta')
                     .replace('\n    return a\n\nobj', '\n        return a\n\nobj'),     # moved into the class
                 base,                                                                   # undo
                 base.replace('class Alpha:', 'class Alpha(object):'),                   # header changes, body is copied
                 'fn_beta = 3\n' + base,                                                 # everything shifts down
                 base]
        steps = []
        for t in texts:
            lines = t.split('\n')
            pos = []
            for i, l in enumerate(lines):
                for pat in ('fn_beta(', 'obj.', 'm_one', 'm_two', 'fn_gamma'):
                    c = l.find(pat)
                    if c >= 0 and len(pos) < 7:
                        pos.append([i + 1, c + len(pat) if pat[-1] in '(.' else c + 1])
            steps.append(dict(buf=0, kind='directed', text=t, positions=pos[:7], word='fn_beta'))
        out.append(dict(id=0, mode=mode + '-directed', buffers=[dict(mode=mode, name='buf0.py', init=base)], steps=steps))
    return out


# --------------------------------------------------------------------------- trace stream
def trace_child(arg):
    """Drive and observe the real caches; returns the list of (op, observed event)."""
    sess, root, tracked = arg
    jedi = _child_setup(os.path.join(root, 'cwd'))
    import parso
    from parso.cache import parser_cache
    from jedi import cache as jcache
    from jedi import parser_utils
    from jedi.api import helpers
    from jedi.inference import filters
    from jedi.inference.value import klass

    clock = _Clock()
    jcache.time = clock
    tracked = set(tracked)
    trace = []            # [op, event] as small lists
    problems = []
    keep = []             # strong references: identities stay unique
    text_ids, name_ids, node_ids, sig_ids = {}, {}, {}, {}
    cur = dict(script=None, text_id=0, key=0, path=None)
    istate_text = {}

    def ident(table, k):
        if k not in table:
            table[k] = len(table) + 1
        return table[k]

    sig_dct = lambda: jcache._time_caches.get('call_signatures_validity', {})

    def current_item():
        try:
            return parser_cache[cur['script']._inference_state.grammar._hashed][cur['script'].path]
        except KeyError:
            return None

    orig_defs = filters._get_definition_names

    def w_defs(parso_cache_node, used_names, name_key):
        sc = cur['script']
        mine = sc is not None and used_names is sc._module_node.get_used_names()
        if not mine or name_key not in tracked:
            return orig_defs(parso_cache_node, used_names, name_key)
        try:
            hit = parso_cache_node is not None and name_key in filters._definition_name_cache.get(parso_cache_node, {})
        except Exception as e:
            hit = None
            problems.append('cannot look into _definition_name_cache: %r' % (e,))
        res = orig_defs(parso_cache_node, used_names, name_key)
        exp = tuple(n for n in used_names.get(name_key, ()) if n.is_definition(include_setitem=True))
        ok = isinstance(res, tuple) and len(res) == len(exp) and all(a is b for a, b in zip(res, exp))
        right_item = (parso_cache_node is None) == (cur['key'] == 0) and \
            (parso_cache_node is None or parso_cache_node is current_item())
        ans = cur['text_id'] if ok else 0
        if not right_item:
            ans = None
        trace.append([['Q', 0, ident(name_ids, name_key)], ['A', False, bool(hit), ans]])
        if not ok:
            problems.append(dict(what='_get_definition_names returned names that are not the definitions of %r in the '
                                      'current tree' % name_key, text_id=cur['text_id'],
                                 returned=[(n.value, n.start_pos) for n in res] if isinstance(res, tuple) else repr(res),
                                 expected=[(n.value, n.start_pos) for n in exp]))
        return res

    cells = [c.cell_contents for c in (parser_utils.get_cached_parent_scope.__closure__ or ())]
    ps_cache = next((c for c in cells if hasattr(c, 'get') and not callable(c) or type(c).__name__ == 'WeakKeyDictionary'), None)
    orig_ps = parser_utils.get_cached_parent_scope

    def w_ps(parso_cache_node, node, include_flows=False):
        sc = cur['script']
        nm = None
        if node.type == 'name':
            nm = node.value
        elif node.type in ('classdef', 'funcdef'):
            nm = node.name.value
        mine = sc is not None and nm in tracked and node.get_root_node() is sc._module_node
        if not mine:
            return orig_ps(parso_cache_node, node, include_flows)
        try:
            hit = parso_cache_node is not None and node in ps_cache.get(parso_cache_node, {})
        except Exception as e:
            hit = None
            problems.append('cannot look into the parent-scope cache: %r' % (e,))
        res = orig_ps(parso_cache_node, node, include_flows)
        exp = parser_utils.get_parent_scope(node, include_flows)
        ok = res is exp
        right_item = (parso_cache_node is None) == (cur['key'] == 0) and \
            (parso_cache_node is None or parso_cache_node is current_item())
        ans = cur['text_id'] if ok else 0
        if not right_item:
            ans = None
        trace.append([['Q', 1, ident(node_ids, (node.type, nm, node.start_pos, include_flows))],
                      ['A', False, bool(hit), ans]])
        if not ok:
            problems.append(dict(what='get_cached_parent_scope returned a scope that is not the parent scope of the node '
                                      'in the current tree', node=(node.type, nm, node.start_pos),
                                 returned=(getattr(res, 'type', None), getattr(res, 'start_pos', None)),
                                 expected=(getattr(exp, 'type', None), getattr(exp, 'start_pos', None))))
        return res

    orig_cs = helpers.cache_signatures
    orig_infer = helpers.infer
    ncalls = [0]

    def w_infer(*a, **k):
        ncalls[0] += 1
        return orig_infer(*a, **k)

    match_serial = [0]

    def w_cs(inference_state, context, bracket_leaf, code_lines, user_pos):
        none_key, intended = _sig_key_parts(bracket_leaf, code_lines, user_pos)
        # as coded: None (0) or a re.Match object that is equal to nothing else (a fresh number)
        match_serial[0] += 1
        a_coded = 0 if none_key else ident(sig_ids, ('m', match_serial[0]))
        a_text = ident(sig_ids, ('t', intended))
        b = ident(sig_ids, ('p', tuple(bracket_leaf.start_pos)))
        n0 = ncalls[0]
        res = orig_cs(inference_state, context, bracket_leaf, code_lines, user_pos)
        hit = ncalls[0] == n0
        src = cur['text_id']
        if hit:
            owners = {istate_text.get(id(getattr(v, 'inference_state', None))) for v in res}
            owners.discard(None)
            if owners:
                src = min(owners)
            else:
                src = sig_origin.get((cur['key'], a_coded, b), src)
        else:
            sig_origin[(cur['key'], a_coded, b)] = src
        trace.append([['S', a_coded, b, a_text], ['A', False, hit, src]])
        return res

    sig_origin = {}
    filters._get_definition_names = w_defs
    filters.get_cached_parent_scope = w_ps
    klass.get_cached_parent_scope = w_ps
    helpers.cache_signatures = w_cs
    helpers.infer = w_infer

    seen_items = {}
    for st in sess['steps']:
        if st.get('tick'):
            clock.units += st['tick']
            trace.append([['T', st['tick']], ['N']])
        if st.get('evict') is not None:
            eb = sess['buffers'][st['evict']]
            ep = _buf_path(root, eb)
            import pathlib
            for g in list(parser_cache.values()):
                g.pop(pathlib.Path(ep) if ep else None, None)
            trace.append([['X', 0 if ep is None else st['evict'] + 1], ['N']])
        buf = sess['buffers'][st['buf']]
        path = _buf_path(root, buf)
        key = 0 if path is None else st['buf'] + 1
        tid = ident(text_ids, st['text'])
        try:
            script = jedi.Script(st['text'], path=path) if path else jedi.Script(st['text'])
        except Exception as e:
            problems.append('Script raised %r' % (e,))
            break
        keep.append(script)
        cur.update(script=script, text_id=tid, key=key, path=path)
        istate_text[id(script._inference_state)] = tid
        item = current_item()
        fresh = item is not None and id(item) not in seen_items.setdefault(key, set())
        if item is not None:
            seen_items[key].add(id(item))
            keep.append(item)
        memo = getattr(script._inference_state, 'memoize_cache', None)
        trace.append([['E', key, tid], ['E', bool(fresh), len(sig_dct()), len(memo) if memo is not None else 999]])
        if item is None:
            problems.append('no parso cache item under the key of the new Script (fast_parser off?)')
        # direct drive of the two derived caches for the tracked names
        mod = script._module_node
        try:
            used = mod.get_used_names()
            node = None if path is None else item
            for nm in sorted(tracked):
                for rep in range(2 if st.get('twice') else 1):
                    filters._get_definition_names(node, used, nm)
                for n in list(used.get(nm, ()))[:2]:
                    base = n.parent if n.parent.type in ('classdef', 'funcdef') else n
                    filters.get_cached_parent_scope(node, base)
        except Exception as e:
            problems.append('direct drive raised %r' % (e,))
        # the same caches through the public API
        for (m, l, c) in st['queries']:
            try:
                getattr(script, m)(l, c)
            except Exception:
                pass
    # closing observation: sizes after a last Script without any tick
    return dict(trace=trace, problems=problems[:10], n_texts=len(text_ids))


def g_event(e):
    if e[0] == 'E':
        return 'EvEdit %s %s %s' % (g_bool(e[1]), g_N(e[2]), g_N(e[3]))
    if e[0] == 'A':
        return 'EvAns %s %s %s' % (g_bool(e[1]), g_bool(e[2]), 'None' if e[3] is None else '(Some %s)' % g_N(e[3]))
    return 'EvNone'


def g_op(o, textual=False):
    if o[0] == 'E':
        return 'Edit %s %s' % (g_N(o[1]), g_N(o[2]))
    if o[0] == 'Q':
        return 'Query false (QD %s %s)' % (g_N(o[1]), g_N(o[2]))
    if o[0] == 'S':
        return 'Query false (QSig %s %s)' % (g_N(o[3] if textual else o[1]), g_N(o[2]))
    if o[0] == 'T':
        return '(@Tick N %s)' % g_N(o[1])
    return '(@Evict N %s)' % g_N(o[1])


def g_trace(tr, textual=False):
    return g_list(tr, lambda p: '(%s, %s)' % (g_op(p[0], textual), g_event(p[1])), '@op N * @event N')


def gen_trace_session(rng, sid, corpus):
    s = gen_session(rng, sid, corpus, max_len=rng.choice([6, 12, 20, 30]))
    ids = sorted({m.group(0) for st in s['steps'][:1] for m in _idents(st['text'])})
    tracked = rng.sample(ids, min(6, len(ids))) if ids else ['x']
    for i, st in enumerate(s['steps']):
        st['tick'] = rng.choice([0, 0, 0, 1, 2, 5, 6, 7, 13]) if i else 0
        st['twice'] = rng.random() < 0.3
        st['evict'] = st['buf'] if i and rng.random() < 0.06 else None
        qs = []
        for (l, c) in st['positions'][:3]:
            for m in rng.sample(['goto', 'infer', 'complete', 'get_signatures', 'get_references'], 2):
                qs.append((m, l, c))
        # a call position, asked twice, so that the signature cache is exercised
        calls = [mm.end() for mm in re.finditer(r'\w\(', st['text'])]
        if calls:
            off = rng.choice(calls)
            l = st['text'].count('\n', 0, off) + 1
            c = off - (st['text'].rfind('\n', 0, off) + 1)
            qs += [('get_signatures', l, c)] * rng.choice([1, 2])
            tl = st['text'].split('\n')
            if l < len(tl) and rng.random() < 0.8:      # cursor on the line after the bracket
                qs += [('get_signatures', l + 1, rng.choice([0, len(tl[l])]))] * rng.choice([1, 2])
        st['queries'] = qs
    return s, tracked


MODEL_CFGS = {
    'real': 'real_config',
    'textual-signature-key': '(mkConfig ByVersion SigTextual MemoPerScript 6%N)',
    'path-keyed': '(mkConfig ByPath SigAsCoded MemoPerScript 6%N)',
}


def stream_trace(ctx):
    corpus = _corpus_chunks()
    n = _scaled(ctx.n(14, 120))
    sessions = [gen_trace_session(ctx.rng, i, corpus) for i in range(n)]
    items = []
    for i, (s, tracked) in enumerate(sessions):
        root = os.path.join(ctx.tmp, 't%d' % i)
        _prepare_root(root, s['buffers'])
        os.makedirs(os.path.join(root, 'cwd'), exist_ok=True)
        items.append(('trace', (s, root, tracked)))
    res = common.pmap(_work, items, chunksize=1, timeout=6000)
    cases, metas = [], []
    n_ev = n_hit = n_fresh = n_samever = n_sig = 0
    for (s, tracked), r in zip(sessions, res):
        if r[0] != 'ok':
            ctx.deviation(dict(stream='trace', cls='session-' + r[0]), dict(session=_strip(s), error=r[1:]),
                          'the trace process did not finish')
            continue
        tr = r[1]['trace']
        for p in r[1]['problems']:
            if isinstance(p, dict):
                ctx.deviation(dict(stream='trace', cls='stale-derived-cache'),
                              dict(session=_strip(s), tracked=tracked, problem=p),
                              'a module-level derived cache returned data that were not computed from the current tree: ' + p['what'])
            else:
                ctx.violation('obligation', dict(what='trace stream cannot observe the caches: %s' % p, session=_strip(s)),
                              nofail=True)
        for op, ev in tr:
            n_ev += 1
            if ev[0] == 'A' and ev[2]:
                n_hit += 1
            if ev[0] == 'E':
                n_fresh += ev[1]
                n_samever += not ev[1]
            if op[0] == 'S':
                n_sig += 1
        ctx.count('trace', json.dumps(tr), nontrivial=len(tr) > 3, n=len(tr))
        cases.append(g_trace(tr))
        metas.append((s, tracked, tr))
    ctx.stat('trace_sessions', len(cases))
    ctx.stat('trace_events', n_ev)
    ctx.stat('trace_cache_hits', n_hit)
    ctx.stat('trace_new_versions', n_fresh)
    ctx.stat('trace_unchanged_text_same_version', n_samever)
    ctx.stat('trace_signature_lookups', n_sig)
    fails, err = common.coq_failing(IMPORTS, '(trace_ok real_config)', cases, shard=2, timeout=1500)
    if err:
        raise RuntimeError('coq evaluation failed (trace): ' + err)
    ctx.stat('signature_key_mode', 'as coded: (path, re.Match object or None, bracket position)')
    for i in fails[:4]:
        s, tracked, tr = metas[i]
        exprs = ['trace_first_diff real_config %s' % cases[i]]
        for name, c in MODEL_CFGS.items():
            exprs.append('trace_ok %s %s' % (c, g_trace(tr, textual=(name == 'textual-signature-key'))))
        shown = common.coq_show(IMPORTS, exprs, timeout=900)
        m = re.search(r'Some (\d+)', shown)
        at = int(m.group(1)) if m else None
        oks = re.findall(r'=\s*(true|false)\s*:\s*bool', shown)
        matches = [name for name, ok in zip(MODEL_CFGS, oks) if ok == 'true']
        if 'textual-signature-key' in matches:
            ctx.stat('signature_key_mode', 'textual (the key of cache_signatures is now compared as text)')
        ctx.violation('obligation', dict(
            what='correspondence trace_ok: the hit/miss/version/size trace of the real caches differs from the model '
                 '(real_config); the trace oracle found no lookup that returned stale data',
            first_differing_event=at, model_variants_that_match=matches,
            around=tr[max(0, (at or 0) - 3):(at or 0) + 2], session=_strip(s), tracked=tracked), nofail=True)
    if metas:
        s, tracked, tr = metas[0]
        ctx.sample(dict(stream='trace', tracked=tracked, first_events=tr[:8]))


# --------------------------------------------------------------------------- entry points
def run(ctx):
    common.setup_jedi(os.path.join(ctx.tmp, 'cache'))
    ctx.proofs()
    ctx.cov['fingerprints'] = common.fingerprint(FP)
    ctx.cov['rule'] = ('history: 3 directed + seeded sessions (1..30 edits of 20 kinds over generated programs, fixed '
                       'snippets and chunks of parso sources; path / file-on-disk / path-less / two buffers), every step x '
                       '7 positional methods at ~6 positions + get_names/search/complete_search/get_syntax_errors, each '
                       'compared with a never-parsed forked child given only the text; non-trivial = a step after the '
                       'first with at least one non-empty, non-exception answer; distinct by (mode, text, positions, step). '
                       'trace: seeded sessions with ticks/evictions, every lookup of a tracked name in the real derived '
                       'caches and every cache_signatures call, compared with run_obs real_config by vm_compute')
    ctx.assumptions += [
        'A1 (the property\'s proviso): parso\'s incremental parse equals the from-scratch parse - checked per step, '
        'violating steps are excluded and counted',
        'A2: definition names, parent scopes and inferred signatures are functions of the tree (engine not modelled)',
        'the fresh reference is a child forked from a process that never parsed; a sample is cross-checked against a '
        'brand-new interpreter',
        'the signature time cache is modelled with the key comparison of the code (identity: never hits); the intended '
        'textual key is a model variant (Props: C08_history_dependent_if_textual_sig_key)']
    import resource
    for f in (stream_history, stream_trace):
        t = time.time()
        c0 = resource.getrusage(resource.RUSAGE_CHILDREN)
        f(ctx)
        c1 = resource.getrusage(resource.RUSAGE_CHILDREN)
        ctx.stat('wall_' + f.__name__, round(time.time() - t, 1))
        ctx.stat('cpu_children_' + f.__name__, round(c1.ru_utime + c1.ru_stime - c0.ru_utime - c0.ru_stime, 1))


def replay(ctx, path):
    rec = json.load(open(path))
    print(json.dumps({k: v for k, v in rec.items() if k != 'session'}, indent=1, ensure_ascii=False)[:3000])
    common.setup_jedi(os.path.join(ctx.tmp, 'cache'))
    sess = rec.get('session')
    if not sess or 'query' not in rec:
        return 0
    root = os.path.join(ctx.tmp, 'replay')
    _prepare_root(root, sess['buffers'])
    os.makedirs(os.path.join(root, 'cwd'), exist_ok=True)
    print('--- history (%d steps):' % len(sess['steps']))
    for st in sess['steps']:
        print('    step buf=%d kind=%s  %d chars' % (st['buf'], st['kind'], len(st['text'])))
    print('--- final text:\n' + sess['steps'][-1]['text'])
    r = forked_call(session_child, (sess, root, None))
    last = sess['steps'][-1]
    f = forked_call(fresh_child, (last['text'], _buf_path(root, sess['buffers'][last['buf']]), root, last['positions'],
                                  last['word'], sess.get('env', 'default')))
    key = rec['query']
    if r[0] == 'ok' and f[0] == 'ok':
        print('query                   :', key)
        print('in one process (history):', r[1][-1]['answers'].get(key))
        print('fresh process           :', f[1]['answers'].get(key))
        print('proviso held at the last step:', r[1][-1]['proviso'])
        print('model (C08_history_independent): equal')
    else:
        print('replay failed:', r[:2], f[:2])
    return 0
