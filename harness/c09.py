"""C09 — changes to project files on disk are always seen.

Model: coq/Model/C09_DiskCache.v (file system with explicit mtimes, parso's in-memory and
pickle caches, importlib's FileFinder listing cache in the helper, per-Script module cache).

Streams
  hist-mono    generated projects + mutation histories, every timestamp strictly increasing
  hist-adv     same, with equal / older / not-after-pickle file mtimes and unchanged directory mtimes
  witness      the three refutation witnesses of Props/C09.v replayed on the implementation
  hist-stub    (round 2, ORACLE ONLY - not covered by the Coq model) stubs of sub-modules of a user
               package, in particular those jedi finds only through a listing of the package directory
               (sub.pyi next to a package / namespace directory sub/, stub package sub/__init__.pyi next
               to sub.py): created / rewritten / deleted / moved after an earlier Script of the same
               process resolved something below the package; monotone timestamps; every answer of the
               prescribed process is compared with the fresh empty-cache process
For every Script (= one model Query) three observations are taken:
  observed   the process the history prescribes (long-lived process 0, or a process that was
             just restarted and shares the pickle directory)
  oracle     a fresh process with an EMPTY cache directory on the current files (the property)
  model      run_hist (stateful) and fresh_import (spec), evaluated by vm_compute in Coq
observed == model(stateful)  and  oracle == model(fresh)   are the correspondence obligations;
observed != oracle is a failure of the property on the implementation: it is a KNOWN-FINDING iff
the model predicts exactly that stale answer and names the cause (classifier computed in Coq),
a VIOLATION otherwise.

All processes are forked from a worker that has imported jedi but never created a Script, a
helper or a parse tree; each starts its own helper process.  File, directory and pickle mtimes
are all set explicitly (os.utime) to BASE + the model's timestamp.
"""
import json
import os
import pickle
import random
import shutil
import signal
import struct
import sys
import tempfile
import time
import traceback

import common
from common import g_N, g_list, g_opt

IMPORTS = 'From JV Require Import Model.C09_DiskCache.\n'

FP = [('jedi/inference/imports.py', '_load_python_module'), ('jedi/inference/imports.py', 'ModuleCache'),
      ('jedi/inference/imports.py', 'import_module_by_names'), ('jedi/inference/imports.py', 'import_module'),
      ('jedi/inference/imports.py', 'Importer.follow'),
      ('jedi/inference/__init__.py', 'InferenceState.parse_and_get_code'),
      ('jedi/inference/__init__.py', 'InferenceState.reset_recursion_limitations'),
      ('jedi/inference/gradual/typeshed.py', 'import_module_decorator'),
      ('jedi/inference/gradual/typeshed.py', '_try_to_load_stub'),
      ('jedi/inference/gradual/typeshed.py', 'parse_stub_module'),
      ('jedi/inference/gradual/typeshed.py', '_load_from_typeshed'),
      ('jedi/inference/gradual/typeshed.py', '_create_stub_map'),
      ('jedi/inference/gradual/typeshed.py', '_merge_create_stub_map'),
      ('jedi/inference/gradual/typeshed.py', '_cache_stub_file_map'),
      ('jedi/inference/gradual/typeshed.py', 'try_to_load_stub_cached'),
      ('jedi/inference/gradual/typeshed.py', '_try_to_load_stub_from_file'),
      ('jedi/inference/compiled/subprocess/functions.py', 'get_module_info'),
      ('jedi/inference/compiled/subprocess/functions.py', '_find_module'),
      ('jedi/inference/compiled/subprocess/functions.py', '_from_loader'),
      ('jedi/file_io.py', 'FileIO'), ('jedi/file_io.py', 'KnownContentFileIO')]

BASE = 1_000_000_000          # model time t  <->  mtime BASE + t seconds (year 2001: far from "now")
NEW_PICKLE = 1_500_000_000    # a pickle with a larger mtime was written by the query that just ran
PY, PYI = 0, 1
INIT = 0                      # name code of __init__
F_ATTR, F_STAR, F_INFER, F_FROM = 0, 1, 2, 3
FORM_NAMES = {0: 'attr-complete', 1: 'star-complete', 2: 'infer-module', 3: 'from-goto'}
GARBLED = 9999


def nm(i):
    return '__init__' if i == INIT else 'zqn%d' % i


def relfile(d, n, e):
    return os.path.join(*([nm(x) for x in d] + [nm(n) + ('.pyi' if e == PYI else '.py')]))


def reldir(d):
    return os.path.join(*[nm(x) for x in d]) if d else ''


# ---------------------------------------------------------------------------------------------
# contents: code -> text.  py codes 1..; stub codes 101..  Every content has a marker definition
# that no other content has (zq_k<code> / zs_k<code>) plus shared definitions at varying lines.

PY_POOL = [('zq_a = 1', 'zq_a', 'statement'), ('zq_b = 2', 'zq_b', 'statement'),
           ('def zq_f(): pass', 'zq_f', 'function'), ('def zq_g(): pass', 'zq_g', 'function'),
           ('class Zq_C: pass', 'Zq_C', 'class'), ('class Zq_D: pass', 'Zq_D', 'class')]
ST_POOL = [('zs_a: int', 'zs_a', 'statement'), ('def zs_f() -> int: ...', 'zs_f', 'function'),
           ('class Zs_C: ...', 'Zs_C', 'class')]


def make_contents(rng, npy=7, nst=3):
    """code -> (text, signature) ; signature = sorted tuple of (name, type, line)."""
    out = {}
    for code in list(range(1, npy + 1)) + list(range(101, 101 + nst)):
        stub = code > 100
        pool = ST_POOL if stub else PY_POOL
        k = rng.randint(0, 3 if not stub else 2)
        defs = rng.sample(pool, min(k, len(pool)))
        marker = ('zs_k%d: int' % code, 'zs_k%d' % code, 'statement') if stub else \
                 ('zq_k%d = %d' % (code, code % 10), 'zq_k%d' % code, 'statement')
        defs.insert(rng.randint(0, len(defs)), marker)
        text = '\n'.join(d[0] for d in defs) + '\n'
        sig = tuple(sorted((d[1], d[2], i + 1) for i, d in enumerate(defs)))
        out[code] = (text, sig)
    return out


# ---------------------------------------------------------------------------------------------
# shadow file system: what the history prescribes (paths, contents, mtimes).  The same few
# assignments as the model's mutation ops; used only to issue the os.utime calls.

class Shadow:
    def __init__(self):
        self.files = {}          # (d, n, e) -> (t, code)
        self.dirs = {(): 1}      # d -> t

    def apply(self, op):
        k = op[0]
        if k == 'write':
            _, d, n, e, c, tf, td = op
            if d not in self.dirs:
                return False
            new = (d, n, e) not in self.files
            self.files[(d, n, e)] = (tf, c)
            if new:
                self.dirs[d] = td
        elif k == 'delete':
            _, d, n, e, td = op
            if (d, n, e) not in self.files:
                return False
            del self.files[(d, n, e)]
            self.dirs[d] = td
        elif k == 'mkdir':
            _, d, n, ts, td = op
            if d not in self.dirs or d + (n,) in self.dirs:
                return False
            self.dirs[d + (n,)] = ts
            self.dirs[d] = td
        elif k == 'rmdir':
            _, d, n, td = op
            sub = d + (n,)
            if sub not in self.dirs:
                return False
            for key in [key for key in self.files if key[0][:len(sub)] == sub]:
                del self.files[key]
            for dd in [dd for dd in self.dirs if dd[:len(sub)] == sub]:
                del self.dirs[dd]
            self.dirs[d] = td
        return True

    def tree_sig(self):
        return (tuple(sorted((k, v[1]) for k, v in self.files.items())), tuple(sorted(self.dirs)))

    def max_time(self):
        return max([t for t, _ in self.files.values()] + list(self.dirs.values()))


# ---------------------------------------------------------------------------------------------
# history generator.  A history is a list of steps; a step is
#   ('mut', real_action, [model ops])      real_action tells how the change is made on disk
#   ('newproc', pid)
#   ('query', pid, tq, script)             script = dict(kind, pkg, targets=[(chain, form, arg, style)])

TOP = (1, 2, 3, 4)
SUB = (5, 6, 1)      # zqn1 exists both as a top-level name and as a sub-module name


class Gen:
    def __init__(self, rng, regime, nsteps):
        self.rng, self.regime, self.nsteps = rng, regime, nsteps
        self.sh = Shadow()
        self.clock = 1
        self.steps = []
        self.last_tq = 1
        self.seen_codes = {}     # key -> codes it ever had

    def tick(self):
        self.clock += self.rng.choice((1, 1, 2, 3))
        return self.clock

    # -- timestamps
    def file_time(self, key):
        """mtime for a (re)written file."""
        if self.regime == 'mono' or self.rng.random() < 0.45:
            return self.tick()
        old = self.sh.files.get(key)
        r = self.rng.random()
        if old is not None and r < 0.4:
            return old[0]                                   # equal mtime
        if old is not None and r < 0.6:
            return self.rng.randint(1, old[0])              # older
        if old is not None and old[0] < self.last_tq and r < 0.9:
            return self.rng.randint(old[0] + 1, self.last_tq)   # newer than the file, not after the pickle
        return self.rng.randint(1, self.clock)              # anything already in the past

    def dir_time(self, d):
        if self.regime == 'mono' or self.rng.random() < 0.5:
            return self.tick()
        if self.rng.random() < 0.8:
            return self.sh.dirs.get(d, 1)                   # directory mtime does not advance
        return self.rng.randint(1, self.clock)

    def mut(self, real, ops):
        ops = [op for op in ops]
        ok = []
        for op in ops:
            if self.sh.apply(op):
                ok.append(op)
        if ok:
            self.steps.append(('mut', real, ok))
            for op in ok:
                if op[0] == 'write':
                    self.seen_codes.setdefault(op[1:4], []).append(op[4])
        return bool(ok)

    # -- mutations
    def pick_code(self, key, stub):
        codes = range(101, 104) if stub else range(1, 8)
        cur = self.sh.files.get(key)
        r = self.rng.random()
        if cur is not None and r < 0.12:
            return cur[1]                                   # rewrite with identical content
        return self.rng.choice([c for c in codes if cur is None or c != cur[1]])

    def m_write(self, d=None, n=None, e=PY):
        dirs = list(self.sh.dirs)
        d = self.rng.choice(dirs) if d is None else d
        if n is None:
            n = self.rng.choice(TOP if d == () else SUB + (INIT,))
        key = (d, n, e)
        c = self.pick_code(key, e == PYI)
        return self.mut(('write', key), [('write', d, n, e, c, self.file_time(key), self.dir_time(d))])

    def m_overwrite(self):
        keys = sorted(self.sh.files)
        if not keys:
            return False
        d, n, e = self.rng.choice(keys)
        return self.m_write(d, n, e)

    def m_delete(self):
        keys = sorted(self.sh.files)
        if not keys:
            return False
        d, n, e = self.rng.choice(keys)
        return self.mut(('delete', (d, n, e)), [('delete', d, n, e, self.dir_time(d))])

    def m_rename(self):
        """os.rename of a file onto another name (keeps the source's mtime)."""
        keys = sorted(k for k in self.sh.files)
        if not keys:
            return False
        d, n, e = src = self.rng.choice(keys)
        d2 = self.rng.choice(list(self.sh.dirs))
        n2 = self.rng.choice(TOP if d2 == () else (SUB + (INIT,) if e == PY else SUB))
        dst = (d2, n2, e)
        if dst == src:
            return False
        tf, c = self.sh.files[src]
        ops = [('delete', d, n, e, self.dir_time(d))]
        if dst in self.sh.files:
            ops.append(('delete', d2, n2, e, self.dir_time(d2)))
        # what rename really does: the old mtime travels along (adversarial regime); in the monotone
        # regime the harness gives the file the prescribed, larger mtime right after the rename
        tf_new = self.tick() if self.regime == 'mono' else tf
        ops.append(('write', d2, n2, e, c, tf_new, self.dir_time(d2)))
        return self.mut(('rename', src, dst), ops)

    def m_mod_to_pkg(self):
        mods = sorted(k for k in self.sh.files if k[0] == () and k[2] == PY and (k[1],) not in self.sh.dirs)
        if not mods:
            return False
        d, n, e = self.rng.choice(mods)
        tf, c = self.sh.files[(d, n, e)]
        keep = self.regime != 'mono' and self.rng.random() < 0.5
        ops = [('mkdir', (), n, self.dir_time((n,)), self.dir_time(())),
               ('delete', (), n, PY, self.dir_time(())),
               ('write', (n,), INIT, PY, c if self.rng.random() < 0.6 else self.pick_code(((n,), INIT, PY), False),
                tf if keep else self.tick(), self.dir_time((n,)))]
        if self.rng.random() < 0.5:
            ops.append(('write', (n,), self.rng.choice(SUB), PY, self.pick_code(((n,), 5, PY), False),
                        self.file_time(((n,), 5, PY)), self.dir_time((n,))))
        return self.mut(('ops',), ops)

    def m_pkg_to_mod(self):
        pk = sorted(d for d in self.sh.dirs if len(d) == 1)
        if not pk:
            return False
        (n,) = self.rng.choice(pk)
        init = self.sh.files.get(((n,), INIT, PY))
        ops = [('rmdir', (), n, self.dir_time(()))]
        key = ((), n, PY)
        c = init[1] if init and self.rng.random() < 0.6 else self.pick_code(key, False)
        ops.append(('write', (), n, PY, c, self.file_time(key), self.dir_time(())))
        return self.mut(('ops',), ops)

    def m_mkpkg(self):
        free = [n for n in TOP if (n,) not in self.sh.dirs]
        if not free:
            return False
        n = self.rng.choice(free)
        ops = [('mkdir', (), n, self.dir_time((n,)), self.dir_time(()))]
        if self.rng.random() < 0.7:
            ops.append(('write', (n,), INIT, PY, self.pick_code(((n,), INIT, PY), False),
                        self.file_time(((n,), INIT, PY)), self.dir_time((n,))))
        if self.rng.random() < 0.7:
            s = self.rng.choice(SUB)
            ops.append(('write', (n,), s, PY, self.pick_code(((n,), s, PY), False),
                        self.file_time(((n,), s, PY)), self.dir_time((n,))))
        return self.mut(('ops',), ops)

    def m_rmdir(self):
        pk = sorted(d for d in self.sh.dirs if len(d) == 1)
        if not pk:
            return False
        (n,) = self.rng.choice(pk)
        return self.mut(('ops',), [('rmdir', (), n, self.dir_time(()))])

    def m_init(self, add):
        pk = sorted(d for d in self.sh.dirs if len(d) == 1 and ((d, INIT, PY) in self.sh.files) != add)
        if not pk:
            return False
        d = self.rng.choice(pk)
        if add:
            return self.m_write(d, INIT, PY)
        return self.mut(('delete', (d, INIT, PY)), [('delete', d, INIT, PY, self.dir_time(d))])

    def m_stub(self):
        mods = sorted(k for k in self.sh.files if k[2] == PY and k[1] != INIT)
        if not mods or self.rng.random() < 0.15:
            d = self.rng.choice(list(self.sh.dirs))
            n = self.rng.choice(TOP if d == () else SUB)
        else:
            d, n, _ = self.rng.choice(mods)
        return self.m_write(d, n, PYI)

    def m_touch(self):
        """New mtime, same bytes."""
        keys = sorted(self.sh.files)
        if not keys:
            return False
        d, n, e = self.rng.choice(keys)
        c = self.sh.files[(d, n, e)][1]
        return self.mut(('write', (d, n, e)), [('write', d, n, e, c, self.file_time((d, n, e)), self.dir_time(d))])

    def mutate(self):
        table = [(self.m_write, 3), (self.m_overwrite, 6), (self.m_delete, 2), (self.m_rename, 2),
                 (self.m_mod_to_pkg, 1.5), (self.m_pkg_to_mod, 1.5), (self.m_mkpkg, 1.5), (self.m_rmdir, 0.7),
                 (lambda: self.m_init(True), 1), (lambda: self.m_init(False), 1), (self.m_stub, 1.5),
                 (self.m_touch, 0.7)]
        for _ in range(20):
            f = self.rng.choices([t[0] for t in table], [t[1] for t in table])[0]
            if f():
                return True
        return False

    # -- queries
    def targets(self):
        """Import targets, biased to what exists now or existed before."""
        rng = self.rng
        chains = set()
        for (d, n, e) in list(self.sh.files) + list(self.seen_codes):
            if n == INIT:
                chains.add(d)
            else:
                chains.add(d + (n,))
        for d in self.sh.dirs:
            if d:
                chains.add(d)
                chains.add(d + (rng.choice(SUB),))
        chains.add((rng.choice(TOP),))
        chains.add((rng.choice(TOP), rng.choice(SUB)))
        chains = sorted(c for c in chains if c)
        k = rng.randint(2, 4)
        return [rng.choice(chains) for _ in range(k)]

    def query(self, pid):
        rng = self.rng
        kind, pkg = 'abs', None
        # a Script inside package p gets p's directory appended to sys.path by jedi (C20); a namespace
        # directory zqn1 that contains zqn1.py would then lose against that module.  zqn1 is the only name
        # used at both levels, so relative-import Scripts are never placed in zqn1/.
        pk = sorted(d for d in self.sh.dirs if len(d) == 1 and d != (1,))
        if pk and rng.random() < 0.3:
            kind, pkg = 'rel', rng.choice(pk)[0]
        targets = []
        star_used = False
        for ch in self.targets():
            if kind == 'rel':
                # from . import k / from .k import * (same package) ; from .. import n (top level)
                if len(ch) == 2 and ch[0] != pkg:
                    ch = (pkg, ch[1])
            form = rng.choice((F_ATTR, F_ATTR, F_STAR, F_INFER, F_FROM))
            if form == F_STAR and star_used:
                form = F_ATTR
            star_used |= form == F_STAR
            arg = 0
            if form == F_FROM:
                key_codes = []
                d, n = ch[:-1], ch[-1]
                for key in ((d, n, PY), (ch, INIT, PY)):
                    key_codes += self.seen_codes.get(key, [])
                if key_codes and rng.random() < 0.85:
                    arg = rng.choice(key_codes[-3:])          # current or a recent version's marker
                else:
                    arg = rng.randint(1, 7)
            style = rng.randint(0, 1)
            targets.append((ch, form, arg, style))
        targets.sort(key=lambda t: t[1] != F_STAR)              # the star probe runs first
        tq = self.tick()
        self.last_tq = tq
        self.steps.append(('query', pid, tq, dict(kind=kind, pkg=pkg, targets=targets)))

    def build(self):
        rng = self.rng
        # initial project
        for _ in range(rng.randint(2, 4)):
            self.m_write((), None, PY)
        if rng.random() < 0.7:
            self.m_mkpkg()
        if rng.random() < 0.4:
            self.m_stub()
        self.query(0)
        if rng.random() < 0.5:
            self.steps.append(('newproc', 1))
            self.query(1)
        for _ in range(self.nsteps):
            for _ in range(rng.choice((1, 1, 1, 2))):
                self.mutate()
            r = rng.random()
            if r < 0.75:
                self.query(0)
            if r > 0.45:
                self.steps.append(('newproc', 1))
                self.query(1)
            if rng.random() < 0.06:
                self.steps.append(('newproc', 0))
        return self.steps


def gen_history(seed, regime, nsteps):
    rng = random.Random(seed)
    contents = make_contents(rng)
    g = Gen(rng, regime, nsteps)
    steps = g.build()
    return dict(seed=seed, regime=regime, contents={str(k): v[0] for k, v in contents.items()},
                sigs={str(k): [list(x) for x in v[1]] for k, v in contents.items()}, steps=steps)


# ---------------------------------------------------------------------------------------------
# Round 2: hist-stub.  Stubs of SUBMODULES of a user package (zqn2): jedi finds them either by a
# direct probe of the path derived from the python file (mod.py -> mod.pyi, sub/__init__.py ->
# sub/__init__.pyi, namespace dir -> sub/__init__.pyi, no python at all -> sub.pyi) or - typeshed.
# _load_from_typeshed - through a LISTING of the package's __path__ (_create_stub_map): sub.pyi next
# to a package directory sub/ or next to a namespace directory sub/, a stub package sub/__init__.pyi
# next to a module sub.py.  The Coq model knows only the direct probes and one directory level, so
# this stream is ORACLE-ONLY: the prescribed process vs a fresh process with empty caches on the
# same files, strictly monotone timestamps (every difference is an unpredicted failure).
# Files use the same (dir, name, ext) keys / ops / worker as the modelled streams.

S_PKG = 2                 # zqn2, the user package
S_SUBS = (5, 6)           # the sub-module names whose shape changes
S_SIB = 7                 # zqn2/zqn7.py: written once, never touched again (warm-up by a sibling)
S_MISSING = 8             # never exists (warm-up by a failing import below the package)
S_INNER = 6               # zqn2/zqn5/zqn6.py: a module inside the sub-directory
S_PYC = (201, 202, 203)   # python versions: zq_f() returns an instance of Zq_C<i>
S_STC = (301, 302, 303)   # stub versions: zq_f() -> Zs_R<i>, zs_only() -> Zs_R<i> (stub-only name)
S_P = (S_PKG,)


def stub_contents():
    out = {}
    for i, c in enumerate(S_PYC, 1):
        out[str(c)] = 'zq_a = 1\n' * (i - 1) + ('class Zq_C%d: pass\ndef zq_f():\n    return Zq_C%d()\nzq_k%d = %d\n' % (i, i, i, i))
    for i, c in enumerate(S_STC, 1):
        out[str(c)] = 'zs_a: int\n' * (i - 1) + ('class Zs_R%d: ...\ndef zq_f() -> Zs_R%d: ...\n'
                                                 'def zs_only() -> Zs_R%d: ...\nzs_k%d: int\n' % (i, i, i, i))
    return out


def stub_expect(sh, s):
    """(python kind, how the stub is found: direct | map | none, stub path) for zqn2.zqn<s> - bookkeeping
    for the statistics and the potency check only, never used to judge an answer."""
    D = S_P + (s,)
    has = lambda k: k in sh.files
    isdir = D in sh.dirs
    if isdir and has((D, INIT, PY)):
        py = 'pkg'
    elif has((S_P, s, PY)):
        py = 'mod'
    elif isdir:
        py = 'ns'
    else:
        py = 'none'
    mod_pyi, init_pyi = has((S_P, s, PYI)), isdir and has((D, INIT, PYI))
    direct = init_pyi if py in ('pkg', 'ns') else mod_pyi
    viamap = has((S_P, INIT, PY)) and (mod_pyi if py in ('pkg', 'ns') else (init_pyi and py == 'mod'))
    if direct:
        return (py, 'direct', relfile(D, INIT, PYI) if py in ('pkg', 'ns') else relfile(S_P, s, PYI))
    if viamap:
        return (py, 'map', relfile(S_P, s, PYI) if py in ('pkg', 'ns') else relfile(D, INIT, PYI))
    return (py, 'none', None)


FI = dict(follow_imports=True)


def stub_script(variant, subs):
    """One Script of the stub stream -> raw query dict (path, code, probes, labels)."""
    P = nm(S_PKG)
    imports, body = [], []
    path = 'zq_main.py'
    if variant == 'abs':
        for i, s in enumerate(subs):
            full = P + '.' + nm(s)
            imports += ['import %s' % full, 'from %s import zq_f as f%d' % (full, i),
                        'from %s import zs_only as s%d' % (full, i), 'from %s import %s as m%d' % (P, nm(s), i)]
            body += [('complete', full + '.z', None, {}, 'attr-complete', s), ('infer', 'f%d()' % i, None, {}, 'call-return', s),
                     ('infer', 's%d()' % i, None, {}, 'stub-only-call', s), ('goto', 's%d' % i, 0, FI, 'stub-only-goto', s),
                     ('goto', 'f%d' % i, 0, FI, 'func-goto', s), ('infer', 'm%d' % i, 0, {}, 'infer-module', s)]
    elif variant == 'rel':
        path = os.path.join(P, 'zq_rel.py')
        for i, s in enumerate(subs):
            imports += ['from .%s import zq_f as f%d' % (nm(s), i), 'from .%s import zs_only as s%d' % (nm(s), i),
                        'from . import %s as m%d' % (nm(s), i)]
            body += [('infer', 'f%d()' % i, None, {}, 'call-return', s), ('infer', 's%d()' % i, None, {}, 'stub-only-call', s),
                     ('complete', 'm%d.z' % i, None, {}, 'attr-complete', s), ('infer', 'm%d' % i, 0, {}, 'infer-module', s)]
    elif variant == 'star':
        s = subs[0]
        imports += ['from %s.%s import *' % (P, nm(s))]
        body += [('infer', 'zq_f()', None, {}, 'call-return', s), ('infer', 'zs_only()', None, {}, 'stub-only-call', s),
                 ('complete', 'zs_', None, {}, 'star-complete', s), ('goto', 'zq_f', 0, FI, 'func-goto', s)]
    else:                     # 'sibling' / 'missing': resolves something else below the package
        n = S_SIB if variant == 'sibling' else S_MISSING
        full = P + '.' + nm(n)
        imports += ['import %s' % full, 'from %s import zq_f as f0' % full]
        body += [('complete', full + '.z', None, {}, 'attr-complete', n), ('infer', 'f0()', None, {}, 'call-return', n)]
    probes, labels = [], []
    for j, (meth, txt, col, kw, kind, s) in enumerate(body):
        probes.append((meth, len(imports) + j + 1, len(txt) if col is None else col, dict(kw)))
        labels.append((kind, s))
    return dict(raw=True, kind=variant, pkg=None, targets=[], path=path,
                code='\n'.join(imports + [b[1] for b in body]) + '\n', probes=probes, labels=labels)


class StubGen:
    def __init__(self, rng):
        self.rng, self.sh, self.clock, self.steps = rng, Shadow(), 1, []
        self.pending, self.before = [], {}
        self.warm = set()        # processes that already ran a Script resolving something below zqn2
        self.map_new = {}        # sub -> processes that were warm when its listing-only stub appeared
        self.events = {}

    def tick(self):
        self.clock += self.rng.choice((1, 1, 2, 3))
        return self.clock

    # -- one mutation step = a few ops; every timestamp is a fresh tick (strictly monotone history)
    def begin(self):
        self.pending = []
        self.before = {s: stub_expect(self.sh, s) for s in S_SUBS}

    def op(self, *op):
        if self.sh.apply(op):
            self.pending.append(op)
            return True
        return False

    def write(self, key, code):
        d, n, e = key
        if d not in self.sh.dirs:
            self.mkdir(d[:-1], d[-1])
        return self.op('write', d, n, e, code, self.tick(), self.tick())

    def delete(self, key):
        return self.op('delete', key[0], key[1], key[2], self.tick())

    def mkdir(self, d, n):
        return self.op('mkdir', d, n, self.tick(), self.tick())

    def rmdir(self, d, n):
        return self.op('rmdir', d, n, self.tick())

    def commit(self):
        if not self.pending:
            return False
        self.steps.append(('mut', ('ops',), self.pending))
        for s in S_SUBS:
            a, b = self.before[s], stub_expect(self.sh, s)
            if a != b:
                ev = '%s/%s -> %s/%s' % (a[0], a[1], b[0], b[1])
                self.events[ev] = self.events.get(ev, 0) + 1
            elif a[2] is not None:
                key = next(k for k in self.sh.files if relfile(*k) == a[2])
                if any(op[0] == 'write' and op[1:4] == key for op in self.pending):
                    ev = '%s/%s rewritten' % (a[0], a[1])
                    self.events[ev] = self.events.get(ev, 0) + 1
            if b[1] == 'map' and (a[1] != 'map' or a[2] != b[2]):
                self.map_new[s] = set(self.warm)
            elif b[1] != 'map':
                self.map_new.pop(s, None)
        self.pending = []
        return True

    def code_for(self, key):
        pool = S_STC if key[2] == PYI else S_PYC
        cur = self.sh.files.get(key)
        return self.rng.choice([c for c in pool if cur is None or c != cur[1]])

    def put(self, key):
        """create or rewrite (another version); makes the directory when it is missing"""
        return self.write(key, self.code_for(key))

    def toggle(self, key):
        if key in self.sh.files and self.rng.random() < 0.5:
            return self.delete(key)
        return self.put(key)

    @staticmethod
    def k_mod(s, e):
        return (S_P, s, e)

    @staticmethod
    def k_init(s, e):
        return (S_P + (s,), INIT, e)

    def set_py(self, s, kind):
        if kind == 'mod':
            self.put(self.k_mod(s, PY))
        elif kind == 'pkg':
            self.put(self.k_init(s, PY))
            if self.rng.random() < 0.5:
                self.put((S_P + (s,), S_INNER, PY))
        elif kind == 'ns':
            self.put((S_P + (s,), S_INNER, PY))
        elif kind == 'moddir':        # module zqn5.py next to a plain directory zqn5/ (the module wins)
            self.put(self.k_mod(s, PY))
            self.put((S_P + (s,), S_INNER, PY))

    # -- steps
    def query(self, pid, variant, subs):
        q = stub_script(variant, list(subs))
        q['expect'] = {str(s): list(stub_expect(self.sh, s)) for s in S_SUBS}
        q['map_after_warm'] = sorted(s for s in subs if pid in self.map_new.get(s, ()))
        self.steps.append(('query', pid, self.tick(), q))
        self.warm.add(pid)

    def newproc(self, pid):
        self.steps.append(('newproc', pid))
        self.warm.discard(pid)
        for v in self.map_new.values():
            v.discard(pid)

    def project(self, kinds, regular=True):
        self.begin()
        self.mkdir((), S_PKG)
        if regular:
            self.put((S_P, INIT, PY))
        self.put((S_P, S_SIB, PY))
        for s, kind in kinds.items():
            self.set_py(s, kind)
        self.commit()

    def random_mutation(self):
        rng = self.rng
        for _ in range(20):
            s = rng.choice(S_SUBS)
            D = S_P + (s,)
            self.begin()
            r = rng.choices(('stub_mod', 'stub_init', 'py_mod', 'py_init', 'inner', 'rmdir', 'mkdir', 'top_init', 'move_stub'),
                            (4, 3, 2, 2, 0.7, 1, 0.7, 0.4, 1.5))[0]
            if r == 'stub_mod':
                self.toggle(self.k_mod(s, PYI))
            elif r == 'stub_init':
                self.toggle(self.k_init(s, PYI))
            elif r == 'py_mod':
                self.toggle(self.k_mod(s, PY))
            elif r == 'py_init':
                self.toggle(self.k_init(s, PY))
            elif r == 'inner':
                self.toggle((D, S_INNER, PY))
            elif r == 'rmdir':
                self.rmdir(S_P, s)
            elif r == 'mkdir':
                self.mkdir(S_P, s)
            elif r == 'top_init':
                self.toggle((S_P, INIT, PY))
            else:             # the stub changes place in one step (a stale listing would still name the old file)
                a, b = self.k_mod(s, PYI), self.k_init(s, PYI)
                if (a in self.sh.files) != (b in self.sh.files):
                    src, dst = (a, b) if a in self.sh.files else (b, a)
                    self.delete(src)
                    self.put(dst)
            if self.commit():
                return True
        return False


# directed family: (python side of zqn2.zqn5, where the stub goes, what the earlier Script resolved)
STUB_DIRECTED = [
    ('pkg', 'mod', 'same'), ('pkg', 'mod', 'sibling'),          # sub.pyi next to the package directory sub/
    ('ns', 'mod', 'same'), ('ns', 'mod', 'missing'),            # sub.pyi next to the namespace directory sub/
    ('mod', 'init', 'same'), ('mod', 'init', 'sibling'),        # stub package sub/__init__.pyi next to sub.py
    ('moddir', 'init', 'same'),                                 # ... the directory sub/ was there before (only sub/'s mtime moves)
    ('mod', 'mod', 'same'),                                     # the ordinary pair
    ('pkg', 'init', 'same'),                                    # sub/__init__.py + sub/__init__.pyi
    ('ns', 'init', 'sibling'),                                  # namespace directory + sub/__init__.pyi
    ('none', 'mod', 'same'),                                    # stub alone
]


def gen_stub_directed(idx, seed):
    py_kind, loc, warm = STUB_DIRECTED[idx]
    rng = random.Random(seed)
    g = StubGen(rng)
    s, ctl = S_SUBS
    here = g.k_mod(s, PYI) if loc == 'mod' else g.k_init(s, PYI)
    other = g.k_init(s, PYI) if loc == 'mod' else g.k_mod(s, PYI)
    g.project({s: py_kind, ctl: 'mod'})
    g.begin()
    g.put(g.k_mod(ctl, PYI))                  # control: zqn6.py + zqn6.pyi from the start
    g.commit()
    if warm == 'same':
        g.query(0, 'abs', (s, ctl))
    else:
        g.query(0, warm, ())
    g.begin(); g.put(here); g.commit()        # 1 the stub appears
    g.query(0, 'abs', (s, ctl))
    g.query(0, 'star', (s,))
    g.begin(); g.put(here); g.commit()        # 2 rewritten
    g.query(0, 'abs', (s, ctl))
    g.newproc(1)
    g.query(1, 'abs', (s, ctl))
    g.begin()                                 # 3 deleted (a stub package: the whole directory every other time)
    if loc == 'init' and py_kind == 'mod' and idx % 2 == 0:
        g.rmdir(S_P, s)
    else:
        g.delete(here)
    g.commit()
    g.query(0, 'abs', (s, ctl))
    g.query(0, 'rel', (s, ctl))
    g.begin(); g.put(here)                    # 4 back again, python side rewritten in the same step
    if py_kind in ('mod', 'moddir'):
        g.put(g.k_mod(s, PY))
    elif py_kind == 'pkg':
        g.put(g.k_init(s, PY))
    g.commit()
    g.query(0, 'rel', (s, ctl))
    g.query(0, 'abs', (s, ctl))
    g.query(1, 'star', (s,))
    g.begin(); g.delete(here); g.put(other); g.commit()     # 5 the stub moves to the other place
    g.query(0, 'abs', (s, ctl))
    g.query(1, 'abs', (s, ctl))
    return dict(seed='stub-directed-%d-%s-%s-%s' % (idx, py_kind, loc, warm), regime='stub', contents=stub_contents(),
                sigs={}, steps=g.steps, events=g.events)


def gen_stub_random(seed, nsteps):
    rng = random.Random(seed)
    g = StubGen(rng)
    g.project({s: rng.choice(('mod', 'pkg', 'ns', 'none', 'pkg', 'ns', 'moddir')) for s in S_SUBS}, regular=rng.random() < 0.9)
    if rng.random() < 0.4:
        g.random_mutation()
    g.query(0, rng.choice(('abs', 'abs', 'sibling', 'missing')), S_SUBS)
    if rng.random() < 0.4:
        g.newproc(1)
        g.query(1, 'abs', S_SUBS)
    for _ in range(nsteps):
        for _ in range(rng.choice((1, 1, 1, 2))):
            g.random_mutation()
        r = rng.random()
        if r < 0.85:
            v = rng.choice(('abs', 'abs', 'abs', 'rel', 'star'))
            g.query(0, v, S_SUBS if v != 'star' else (rng.choice(S_SUBS),))
            if rng.random() < 0.3:
                g.query(0, rng.choice(('rel', 'star', 'abs')), (rng.choice(S_SUBS),))
        if r > 0.6:
            if rng.random() < 0.7:
                g.newproc(1)
            g.query(1, rng.choice(('abs', 'abs', 'rel')), S_SUBS)
        if rng.random() < 0.05:
            g.newproc(0)
    return dict(seed=seed, regime='stub', contents=stub_contents(), sigs={}, steps=g.steps, events=g.events)


def evaluate_stub(ctx, hists, results):
    """Oracle only: every probe of the prescribed process against the fresh empty-cache process."""
    stats = dict(stub_histories=0, stub_queries=0, stub_probes=0, stub_stale_probes=0, stub_exceptions=0,
                 stub_helper_replaced=0, stub_oracle_answers_from_pyi=0, stub_listing_only_after_earlier_query=0,
                 stub_probe_kinds={}, stub_shapes_at_query={}, stub_transitions={}, stub_spawns=0)
    for hist, res in zip(hists, results):
        if 'error' in res:
            raise RuntimeError('history %r could not be executed: %s\n%s' % (hist['seed'], res['error'], res.get('tb')))
        stats['stub_spawns'] += res.get('spawns', 0)
        qs = [st for st in norm_steps(hist['steps']) if st[0] == 'query']
        assert len(qs) == len(res['results']), (len(qs), len(res['results']))
        if any(r['helper_replaced'] for r in res['results']):
            stats['stub_helper_replaced'] += 1
            continue
        stats['stub_histories'] += 1
        for ev, n in hist.get('events', {}).items():
            stats['stub_transitions'][ev] = stats['stub_transitions'].get(ev, 0) + n
        for qi, (st, rr) in enumerate(zip(qs, res['results'])):
            _, pid, tq, q = st
            stats['stub_queries'] += 1
            for s, e in q['expect'].items():
                k = '%s/%s' % (e[0], e[1])
                stats['stub_shapes_at_query'][k] = stats['stub_shapes_at_query'].get(k, 0) + 1
            for pi, (kind, s) in enumerate(q['labels']):
                stats['stub_probes'] += 1
                stats['stub_probe_kinds'][kind] = stats['stub_probe_kinds'].get(kind, 0) + 1
                pair, failed = [], False
                for which in ('obs', 'orc'):
                    rows = rr[which]
                    rows = rows[pi] if isinstance(rows, list) else rows
                    if isinstance(rows, dict):
                        stats['stub_exceptions'] += 1
                        sig = rows['exc']
                        ctx.deviation(dict(stream='stub', exc=sig['exc'], site=sig['site']),
                                      dict(history=hist, script=rr['code'], path=rr['path'], which=which, error=sig),
                                      'the API raised %s in the %s process' % (sig['exc'], which))
                        failed = True
                    else:
                        pair.append(canon_rows(rows, F_ATTR if kind.endswith('complete') else F_INFER))
                if failed:
                    ctx.count('hist-stub', (hist['seed'], qi, pi), nontrivial=False)
                    continue
                raw_o, raw_f = pair
                exp = q['expect'].get(str(s))
                from_pyi = any(r[3] is not None and str(r[3]).endswith('.pyi') for r in raw_f)
                stats['stub_oracle_answers_from_pyi'] += from_pyi
                if exp and exp[1] == 'map' and s in q['map_after_warm'] and any(r[3] == exp[2] for r in raw_f):
                    stats['stub_listing_only_after_earlier_query'] += 1
                ctx.count('hist-stub', (hist['seed'], qi, pi), nontrivial=bool(raw_f) or bool(raw_o))
                if raw_o != raw_f:
                    stats['stub_stale_probes'] += 1
                    obs_pyi = any(r[3] is not None and str(r[3]).endswith('.pyi') for r in raw_o)
                    where = dict(history_seed=hist['seed'], regime='stub', query=qi, probe=pi, pid=pid, probe_kind=kind,
                                 module='%s.%s' % (nm(S_PKG), nm(s)), shape=exp, script=rr['code'], script_path=rr['path'],
                                 observed=raw_o, fresh_empty_cache_process=raw_f)
                    ctx.deviation(dict(stream='stub-history', predicted_by_model=False, fresh_answers_from_stub=from_pyi,
                                       observed_answers_from_stub=obs_pyi),
                                  dict(where=where, history=hist),
                                  'a Script in process %d answers differently from a fresh process with an empty cache '
                                  '(%s of %s.%s, python side %s, stub found by %s); monotone timestamps, no model '
                                  'prediction for this stream' % (pid, kind, nm(S_PKG), nm(s), exp and exp[0], exp and exp[1]))
                elif len(ctx.cov['samples']) < 8 and exp and exp[1] == 'map' and s in q['map_after_warm'] and from_pyi:
                    ctx.sample(dict(stream='hist-stub', history=hist['seed'], probe=kind, process=pid, shape=exp,
                                    answer=[list(r) for r in raw_f][:4]), limit=8)
    return stats


# ---------------------------------------------------------------------------------------------
# script text for one query

def build_script(q):
    """-> (relative script path, code, probes) ; probe = (method, line, col, kwargs)."""
    if q.get('raw'):          # hist-stub stream: the generator wrote the Script itself
        return q['path'], q['code'], [(p[0], p[1], p[2], dict(p[3])) for p in q['probes']]
    kind, pkg = q['kind'], q['pkg']
    imports, probes_txt = [], []
    for i, (ch, form, arg, style) in enumerate(q['targets']):
        ch = tuple(ch)
        alias = 't%d' % i
        if kind == 'rel':
            if len(ch) == 2:          # sibling inside the package the script lives in
                dotted_pkg, last, full = '.', nm(ch[1]), '.' + nm(ch[1])
            else:                     # top-level module / package, two levels up
                dotted_pkg, last, full = '..', nm(ch[0]), '..' + nm(ch[0])
        else:
            dotted_pkg = '.'.join(nm(x) for x in ch[:-1])
            last = nm(ch[-1])
            full = '.'.join(nm(x) for x in ch)
        if form == F_STAR:
            imports.append('from %s import *' % full)
            probes_txt.append(('complete', 'z', None, {}))
        elif form == F_FROM:
            imports.append('from %s import zq_k%d as %s' % (full, arg, alias))
            probes_txt.append(('goto', alias, 0, dict(follow_imports=True)))
        else:
            if kind == 'rel' or (style == 1 and len(ch) > 1):
                imports.append('from %s import %s as %s' % (dotted_pkg, last, alias))
                expr = alias
            elif style == 1:
                imports.append('import %s as %s' % (full, alias))
                expr = alias
            else:
                imports.append('import %s' % full)
                expr = full
            if form == F_ATTR:
                probes_txt.append(('complete', expr + '.z', None, {}))
            else:
                probes_txt.append(('infer', expr, len(expr) - 1, {}))
    lines = imports + [p[1] for p in probes_txt]
    probes = []
    for j, (meth, txt, col, kw) in enumerate(probes_txt):
        probes.append((meth, len(imports) + j + 1, len(txt) if col is None else col, kw))
    path = 'zq_main.py' if kind == 'abs' else os.path.join(nm(pkg), 'zq_rel.py')
    return path, '\n'.join(lines) + '\n', probes


# ---------------------------------------------------------------------------------------------
# session processes (forked; each talks over a pair of pipes)

def _send(fd, obj):
    b = pickle.dumps(obj)
    os.write(fd, struct.pack('<I', len(b)))
    off = 0
    while off < len(b):
        off += os.write(fd, b[off:off + 65536])


def _recv(fd):
    def rd(n):
        buf = b''
        while len(buf) < n:
            x = os.read(fd, n - len(buf))
            if not x:
                raise EOFError
            buf += x
        return buf
    (n,) = struct.unpack('<I', rd(4))
    return pickle.loads(rd(n))


PYC_DIR = os.path.join(common.VERIF, '.cache', 'c09_pyc')


def _bytecode_env(env):
    """/repo has no __pycache__ and ./check forbids writing one, so every helper process would
    compile all of jedi from source (~1.5 s CPU).  Let the helpers keep their bytecode under
    /verif/.cache instead (validated by CPython against source mtime+size as usual)."""
    env['PYTHONPYCACHEPREFIX'] = PYC_DIR
    env.pop('PYTHONDONTWRITEBYTECODE', None)
    return env


def _is_submodule_entry(d):
    try:
        from jedi.inference.names import SubModuleName
        return isinstance(d._name, SubModuleName)
    except Exception:
        return False


def _entry_type(d):
    """Name.type of a sub-module entry in a completion list INFERS the sub-module (parses and pickles its file):
    an observation that loads files the asked query did not need and the model does not know of (found in the
    thorough tier: a later older-mtime rewrite of such a file was served stale without being predicted).
    Such entries are reported as 'module' from the name object alone; what the sub-module IS is probed - and
    classified - by its own import query."""
    try:
        from jedi.inference.names import SubModuleName
        if isinstance(d._name, SubModuleName):
            return 'module'
    except Exception:
        pass
    return d.type


def _session_main(rfd, wfd, root, cache):
    import jedi
    jedi.settings.cache_directory = cache
    _bytecode_env(os.environ)      # inherited by the helper this process starts
    while True:
        try:
            req = _recv(rfd)
        except EOFError:
            break
        out = []
        helper = None
        try:
            proj = jedi.Project(root)
            s = jedi.Script(req['code'], path=os.path.join(root, req['path']), project=proj)
            for meth, line, col, kw in req['probes']:
                try:
                    res = getattr(s, meth)(line, col, **kw)
                    rows = []
                    for d in res:
                        if _is_submodule_entry(d):
                            # module_path / line / type of such an entry all INFER the sub-module (ImportName.parent_context)
                            rows.append((d.name, 'module', None, None))
                            continue
                        mp = d.module_path
                        rel = None
                        if mp is not None:
                            mp = str(mp)
                            rel = os.path.relpath(mp, root) if mp.startswith(root + os.sep) else '<outside>'
                        rows.append((d.name, _entry_type(d), d.line, rel))
                    out.append(rows)
                except Exception as e:
                    out.append(dict(exc=common.exc_sig(e)))
            try:
                # which helper process served this Script (jedi replaces its cached default
                # environment - and with it the helper - after ten minutes)
                helper = s._inference_state.environment._subprocess._get_process().pid
            except Exception:
                helper = None
        except Exception as e:
            out = dict(exc=common.exc_sig(e))
        _send(wfd, dict(rows=out, helper=helper))
    os._exit(0)


class Session:
    _parent_fds = set()      # pipe ends held by the worker: a forked child must not keep copies

    def __init__(self, root, cache):
        r1, w1 = os.pipe()
        r2, w2 = os.pipe()
        sys.stdout.flush()
        sys.stderr.flush()
        pid = os.fork()
        if pid == 0:
            try:
                os.close(w1)
                os.close(r2)
                for fd in Session._parent_fds:
                    try:
                        os.close(fd)
                    except OSError:
                        pass
                signal.signal(signal.SIGTERM, signal.SIG_DFL)
                _session_main(r1, w2, root, cache)
            except BaseException:
                traceback.print_exc()
            finally:
                os._exit(1)
        os.close(r1)
        os.close(w2)
        self.pid, self.w, self.r = pid, w1, r2
        Session._parent_fds |= {w1, r2}

    def ask(self, req):
        _send(self.w, req)
        return _recv(self.r)

    def close(self):
        for fd in (self.w, self.r):
            Session._parent_fds.discard(fd)
            try:
                os.close(fd)
            except OSError:
                pass
        try:
            os.waitpid(self.pid, 0)     # the child exits at EOF; its helper exits when its stdin closes
        except OSError:
            pass


# ---------------------------------------------------------------------------------------------
# executing a history on the real file system

def set_mtimes(root, sh):
    now = time.time_ns()
    for (d, n, e), (t, _) in sh.files.items():
        os.utime(os.path.join(root, relfile(d, n, e)), ns=(now, (BASE + t) * 10**9))
    for d, t in sorted(sh.dirs.items(), key=lambda x: -len(x[0])):
        os.utime(os.path.join(root, reldir(d)), ns=(now, (BASE + t) * 10**9))


def apply_real(root, sh, contents, real, ops):
    """Make the change on disk the way `real` says, bring the shadow up to date, then set every
    mtime to the prescribed value."""
    if real[0] == 'rename':
        src, dst = real[1], real[2]
        os.rename(os.path.join(root, relfile(*src)), os.path.join(root, relfile(*dst)))
        for op in ops:
            sh.apply(op)
    else:
        for op in ops:
            k = op[0]
            if k == 'write':
                _, d, n, e, c, tf, td = op
                with open(os.path.join(root, relfile(d, n, e)), 'w') as f:
                    f.write(contents[str(c)])
            elif k == 'delete':
                os.unlink(os.path.join(root, relfile(op[1], op[2], op[3])))
            elif k == 'mkdir':
                os.mkdir(os.path.join(root, reldir(op[1] + (op[2],))))
            elif k == 'rmdir':
                shutil.rmtree(os.path.join(root, reldir(op[1] + (op[2],))))
            sh.apply(op)
    set_mtimes(root, sh)
    # the disk must now be exactly what the shadow says
    for (d, n, e), (t, c) in sh.files.items():
        p = os.path.join(root, relfile(d, n, e))
        assert open(p).read() == contents[str(c)], p
        assert os.path.getmtime(p) == BASE + t, p
    for d, t in sh.dirs.items():
        assert os.path.getmtime(os.path.join(root, reldir(d))) == BASE + t, d


def fix_pickles(cache, tq):
    """Pickles written by the query that just ran get the prescribed mtime BASE+tq."""
    n = 0
    now = time.time_ns()
    for sub in os.listdir(cache):
        p = os.path.join(cache, sub)
        if os.path.isdir(p):
            for f in os.listdir(p):
                fp = os.path.join(p, f)
                if f.endswith('.pkl') and os.path.getmtime(fp) > NEW_PICKLE:
                    os.utime(fp, ns=(now, (BASE + tq) * 10**9))
                    n += 1
    return n


def tup(x):
    return tuple(tup(y) for y in x) if isinstance(x, (list, tuple)) else x


def norm_steps(steps):
    out = []
    for st in steps:
        st = list(st)
        if st[0] == 'mut':
            out.append(('mut', tup(st[1]), [tup(op) for op in st[2]]))
        elif st[0] == 'query':
            q = dict(st[3])
            q['targets'] = [(tuple(t[0]), t[1], t[2], t[3]) for t in q['targets']]
            out.append(('query', st[1], st[2], q))
        else:
            out.append(tuple(st))
    return out


def run_history(hist):
    """Worker: executes the history; returns per query the raw observed and oracle results."""
    t_start = time.time()
    base = tempfile.mkdtemp(prefix='jvc09_')
    root = os.path.join(base, 'proj')
    cache = os.path.join(base, 'cache')
    os.mkdir(root)
    os.mkdir(cache)
    sh = Shadow()
    set_mtimes(root, sh)
    procs = {}
    helpers = {}
    helper_replaced = False
    oracle = [None, None, 0]      # session, cache dir, counter
    out = []
    spawns = 0

    def drop_oracle():
        if oracle[0] is not None:
            oracle[0].close()
            shutil.rmtree(oracle[1], ignore_errors=True)
            oracle[0] = None

    try:
        for st in norm_steps(hist['steps']):
            if st[0] == 'mut':
                drop_oracle()
                apply_real(root, sh, hist['contents'], st[1], st[2])
            elif st[0] == 'newproc':
                s = procs.pop(st[1], None)
                helpers.pop(st[1], None)
                if s is not None:
                    s.close()
            elif st[0] == 'query':
                _, pid, tq, q = st
                path, code, probes = build_script(q)
                req = dict(path=path, code=code, probes=probes)
                if pid not in procs:
                    procs[pid] = Session(root, cache)
                    spawns += 1
                rep = procs[pid].ask(req)
                obs = rep['rows']
                if helpers.setdefault(pid, rep['helper']) != rep['helper']:
                    helper_replaced = True      # not a process the history describes any more
                    helpers[pid] = rep['helper']
                npk = fix_pickles(cache, tq)
                set_mtimes(root, sh)        # (reading does not change mtimes; belt and braces)
                if oracle[0] is None:
                    oracle[2] += 1
                    oracle[1] = os.path.join(base, 'ocache%d' % oracle[2])
                    os.mkdir(oracle[1])
                    oracle[0] = Session(root, oracle[1])
                    spawns += 1
                orc = oracle[0].ask(req)['rows']
                out.append(dict(obs=obs, orc=orc, code=code, path=path, npk=npk, helper_replaced=helper_replaced))
    except BaseException as e:
        return dict(error=repr(e), tb=traceback.format_exc()[-2000:], results=out)
    finally:
        for s in procs.values():
            s.close()
        drop_oracle()
        shutil.rmtree(base, ignore_errors=True)
    return dict(results=out, spawns=spawns, wall=round(time.time() - t_start, 2))


# ---------------------------------------------------------------------------------------------
# canonical observation of one probe: a small number pair the model predicts

def decode(hist, q, ti, rows, script_path):
    """rows: what the API returned for target number ti of query q -> (a, b) (numbers)."""
    ch, form, arg, style = q['targets'][ti]
    ch = tuple(ch)
    d, n = ch[:-1], ch[-1]
    sigs = {int(k): tuple(tuple(x) for x in v) for k, v in hist['sigs'].items()}
    py_files = {relfile(d, n, PY): 1, relfile(ch, INIT, PY): 2}
    st_files = {relfile(d, n, PYI): 4, relfile(ch, INIT, PYI): 5}
    if isinstance(rows, dict):
        return None
    if form == F_INFER:
        if not rows:
            return (0, 0)
        if len(rows) != 1:
            return (GARBLED, 0)
        name, typ, line, rel = rows[0]
        if typ == 'namespace' and rel is None and name == nm(n):
            return (3, 0)
        if typ == 'module' and name == nm(n) and rel in py_files:
            return (py_files[rel], 0)
        if typ == 'module' and name == nm(n) and rel in st_files:
            return (st_files[rel], 0)
        return (GARBLED, 0)
    if form == F_FROM:
        if not rows:
            return (0, 0)
        want = [x for x in sigs.get(arg, ()) if x[0] == 'zq_k%d' % arg]
        if len(rows) == 1 and want and rows[0][3] in py_files and tuple(rows[0][:3]) == want[0]:
            return (1, 0)
        return (GARBLED, 0)
    groups = {}
    for name, typ, line, rel in rows:
        if rel is None or rel == script_path or typ in ('module', 'namespace'):
            continue
        if not (name.startswith('zq_') or name.startswith('zs_') or name.startswith('Zq_') or name.startswith('Zs_')):
            continue
        groups.setdefault(rel, []).append((name, typ, line))
    py = st = 0
    for rel, items in groups.items():
        sig = tuple(sorted(items))
        if rel in py_files and not py:
            py = next((c for c, s in sigs.items() if c < 100 and s == sig), GARBLED)
        elif rel in st_files and not st:
            st = next((c for c, s in sigs.items() if c > 100 and s == sig), GARBLED)
        else:
            return (GARBLED, GARBLED)
    return (py, st)


# ---------------------------------------------------------------------------------------------
# Gallina printing of a history

BASE_FP = {
    'jedi/inference/imports.py:_load_python_module': '268579e362d6ded9',
    'jedi/inference/imports.py:ModuleCache': 'c2a83ae5f0d2d060',
    'jedi/inference/imports.py:import_module_by_names': '8acd74cf8f762a90',
    'jedi/inference/imports.py:import_module': 'a18d442b872a67b3',
    'jedi/inference/imports.py:Importer.follow': '44d8f49aab0ec6ec',
    'jedi/inference/__init__.py:InferenceState.parse_and_get_code': '43321cafa498b064',
    'jedi/inference/__init__.py:InferenceState.reset_recursion_limitations': 'beb0afd7c566cf14',
    'jedi/inference/gradual/typeshed.py:import_module_decorator': '00e06859632277a9',
    'jedi/inference/gradual/typeshed.py:_try_to_load_stub': '155ba182e70c12d9',
    'jedi/inference/gradual/typeshed.py:parse_stub_module': '7f34b3f08937a330',
    'jedi/inference/gradual/typeshed.py:_load_from_typeshed': '937de0d461de9283',
    'jedi/inference/gradual/typeshed.py:_create_stub_map': '3cb81e72e0dc886a',
    'jedi/inference/gradual/typeshed.py:_merge_create_stub_map': '35718cb4d470ad8c',
    'jedi/inference/gradual/typeshed.py:_cache_stub_file_map': 'e87252b5efe58818',
    'jedi/inference/gradual/typeshed.py:try_to_load_stub_cached': 'e0878bc92722ddbc',
    'jedi/inference/gradual/typeshed.py:_try_to_load_stub_from_file': '4174ba01e35b605d',
    'jedi/inference/compiled/subprocess/functions.py:get_module_info': '956dd70fbd60f509',
    'jedi/inference/compiled/subprocess/functions.py:_find_module': 'f83bfc60d96e682a',
    'jedi/inference/compiled/subprocess/functions.py:_from_loader': '4df9a8c54b9a97e4',
    'jedi/file_io.py:FileIO': '3919d827f3c4bcb8',
    'jedi/file_io.py:KnownContentFileIO': 'c40764c97e0a3299',
}

DEFS = ''
COQ_TIMEOUT = 2400
FLAG_NAMES = {1: 'same_or_older_mtime', 2: 'same_or_older_mtime', 3: 'mtime_not_after_pickle',
              4: 'dir_mtime_unchanged'}


def g_dir(d):
    return '(@nil N)' if not d else '[' + ';'.join(str(x) for x in d) + ']'


def g_key(d, n, e):
    return '(%s, %d, %s)' % (g_dir(d), n, 'Pyi' if e == PYI else 'Py')


def g_op(op):
    k = op[0]
    if k == 'write':
        _, d, n, e, c, tf, td = op
        return 'OWrite %s %d %d %d' % (g_key(d, n, e), c, tf, td)
    if k == 'delete':
        _, d, n, e, td = op
        return 'ODelete %s %d' % (g_key(d, n, e), td)
    if k == 'mkdir':
        _, d, n, ts, td = op
        return 'OMkDir %s %d %d %d' % (g_dir(d), n, ts, td)
    if k == 'rmdir':
        _, d, n, td = op
        return 'ORmDir %s %d %d' % (g_dir(d), n, td)
    raise ValueError(op)


def g_case(hist, decoded):
    """decoded: per query a list of ((a, b) observed, (a, b) oracle)."""
    ops, exp = [], []
    qi = 0
    for st in norm_steps(hist['steps']):
        if st[0] == 'mut':
            ops += [g_op(op) for op in st[2]]
        elif st[0] == 'newproc':
            ops.append('ONewProc %d' % st[1])
        else:
            _, pid, tq, q = st
            ops.append('OQuery %d %d %s' % (pid, tq, g_list([t[0] for t in q['targets']], g_dir, 'list N')))
            ps = []
            for (ch, form, arg, style), (o, f) in zip(q['targets'], decoded[qi]):
                ps.append('(%d, %d, (%d, %d), (%d, %d))' % (form, arg, o[0], o[1], f[0], f[1]))
            exp.append(g_list(ps, str, 'probe'))
            qi += 1
    return '(1, %s, %s)%%N' % (g_list(ops, str, 'op'), g_list(exp, str, 'list probe'))


# ---------------------------------------------------------------------------------------------
# the three refutation witnesses of Props/C09.v as executable histories (content codes 1, 2)

def witness_histories():
    contents = make_contents(random.Random(7))
    t = [((1,), F_ATTR, 0, 0), ((1,), F_FROM, 1, 0), ((1,), F_FROM, 2, 0), ((1,), F_INFER, 0, 1)]

    def q(pid, tq):
        return ('query', pid, tq, dict(kind='abs', pkg=None, targets=list(t)))

    def w(c, tf, td):
        return ('mut', ('write', ((), 1, PY)), [('write', (), 1, PY, c, tf, td)])
    hs = {
        'same-mtime': [w(1, 5, 5), q(0, 6), w(2, 5, 5), q(0, 7)],
        'older-mtime': [w(1, 5, 5), q(0, 6), w(2, 3, 5), q(0, 7)],
        'dir-unchanged': [q(0, 2), w(1, 9, 1), q(0, 10)],
        'not-after-pickle': [w(1, 5, 5), q(0, 100), w(2, 50, 5), ('newproc', 1), q(1, 101), q(0, 102)],
        'monotone-control': [w(1, 5, 5), q(0, 6), w(2, 8, 9), q(0, 10), ('newproc', 1), q(1, 11)],
    }
    out = []
    for name, steps in hs.items():
        out.append(dict(seed=name, regime='witness', contents={str(k): v[0] for k, v in contents.items()},
                        sigs={str(k): [list(x) for x in v[1]] for k, v in contents.items()}, steps=steps))
    return out


# ---------------------------------------------------------------------------------------------
# evaluation

def canon_rows(rows, form):
    """The raw answer as compared with the fresh process.  In a completion list the entries of type
    module/namespace (imported names, sub-modules of a package) count with name and type only: their
    module_path is the result of ANOTHER import (zqn4.zqn1 for the entry zqn1 after `zqn4.`), which is
    probed - and classified - on its own."""
    if isinstance(rows, dict):
        return rows
    out = []
    for r in rows:
        r = tuple(r)
        if form in (F_ATTR, F_STAR) and r[1] in ('module', 'namespace'):
            r = (r[0], r[1], None, None)
        out.append(r)
    return sorted(out, key=repr)


def evaluate(ctx, hists, results):
    """Decode, compare with the model in Coq, check the property against the oracle, classify."""
    usable, decoded_all = [], []
    stats = dict(histories=0, queries=0, probes=0, stale_probes=0, helper_replaced=0, exceptions=0,
                 spawns=0, mutations={}, forms={}, by_flag={})
    for hist, res in zip(hists, results):
        if 'error' in res:
            raise RuntimeError('history %r could not be executed: %s\n%s' % (hist['seed'], res['error'], res.get('tb')))
        stats['spawns'] += res.get('spawns', 0)
        qs = [st for st in norm_steps(hist['steps']) if st[0] == 'query']
        assert len(qs) == len(res['results']), (len(qs), len(res['results']))
        if any(r['helper_replaced'] for r in res['results']):
            stats['helper_replaced'] += 1      # took > 10 min of wall time: not the history any more
            continue
        decoded, bad = [], False
        for st, rr in zip(qs, res['results']):
            q = st[3]
            row = []
            for ti in range(len(q['targets'])):
                pair = []
                for which in ('obs', 'orc'):
                    rows = rr[which]
                    rows = rows[ti] if isinstance(rows, list) else rows
                    if isinstance(rows, dict):
                        stats['exceptions'] += 1
                        sig = rows['exc']
                        ctx.deviation(dict(stream=hist['regime'], exc=sig['exc'], site=sig['site']),
                                      dict(history=hist, script=rr['code'], path=rr['path'], which=which, error=sig),
                                      'the API raised %s in the %s process' % (sig['exc'], which))
                        bad = True
                        pair.append((GARBLED, GARBLED))
                    else:
                        pair.append(decode(hist, q, ti, rows, rr['path']))
                row.append(tuple(pair))
            decoded.append(row)
        if bad:
            continue
        usable.append((hist, res))
        decoded_all.append(decoded)
        stats['histories'] += 1
        for st in norm_steps(hist['steps']):
            if st[0] == 'mut':
                for op in st[2]:
                    stats['mutations'][op[0]] = stats['mutations'].get(op[0], 0) + 1
                if st[1][0] == 'rename':
                    stats['mutations']['(as rename)'] = stats['mutations'].get('(as rename)', 0) + 1

    cases = [g_case(h, d) for (h, _), d in zip(usable, decoded_all)]
    mono_cases = [c for (h, _), c in zip(usable, cases) if h['regime'] == 'mono']
    from concurrent.futures import ThreadPoolExecutor
    with ThreadPoolExecutor(3) as ex:
        f1 = ex.submit(common.coq_failing, IMPORTS, 'check_case', cases, shard=12, timeout=COQ_TIMEOUT, defs=DEFS)
        f2 = ex.submit(common.coq_eval_N_lists, IMPORTS, 'describe_case', cases, shard=12, timeout=COQ_TIMEOUT, defs=DEFS)
        # the monotone histories satisfy the hypothesis of C09_fresh_under_monotone_time literally
        f3 = ex.submit(common.coq_failing, IMPORTS, "(fun c : time * list op * list (list probe) => let '(t0, h, _) := c in monotone t0 h)",
                       mono_cases, shard=12, timeout=COQ_TIMEOUT, defs=DEFS)
        (fails, err), (desc, err2), (nonmono, err3) = f1.result(), f2.result(), f3.result()
    if err or err2 or err3:
        raise RuntimeError('coq evaluation failed: %s' % (err or err2 or err3))
    if nonmono:
        raise RuntimeError('generator bug: a history of the monotone regime does not satisfy `monotone`: %s' % mono_cases[nonmono[0]][:600])
    stats['monotone_hypothesis_checked'] = len(mono_cases)
    fails = set(fails)

    for hi, ((hist, res), decoded) in enumerate(zip(usable, decoded_all)):
        qs = [st for st in norm_steps(hist['steps']) if st[0] == 'query']
        d = desc[hi]
        nprobes = sum(len(st[3]['targets']) for st in qs)
        if d is None or len(d) != 5 * nprobes:
            raise RuntimeError('describe_case returned %r for history %r' % (d, hist['seed']))
        pos = 0
        py_bad = False
        for qi, (st, rr) in enumerate(zip(qs, res['results'])):
            _, pid, tq, q = st
            stats['queries'] += 1
            for ti, (ch, form, arg, style) in enumerate(q['targets']):
                m_obs, m_fresh, mask = (d[pos], d[pos + 1]), (d[pos + 2], d[pos + 3]), d[pos + 4]
                pos += 5
                obs, orc = decoded[qi][ti]
                raw_o = canon_rows(rr['obs'][ti], form)
                raw_f = canon_rows(rr['orc'][ti], form)
                stats['probes'] += 1
                stats['forms'][FORM_NAMES[form]] = stats['forms'].get(FORM_NAMES[form], 0) + 1
                ctx.count('hist-' + hist['regime'], (hist['seed'], qi, ti), nontrivial=orc != (0, 0) or obs != (0, 0))
                corr_ok = obs == m_obs and orc == m_fresh
                py_bad = py_bad or not corr_ok
                prop_ok = raw_o == raw_f
                flags = sorted({FLAG_NAMES[b] for b in FLAG_NAMES if mask >> b & 1})
                where = dict(history_seed=hist['seed'], regime=hist['regime'], query=qi, target=ti, pid=pid,
                             chain=[nm(x) for x in ch], form=FORM_NAMES[form], script=rr['code'], script_path=rr['path'],
                             observed=raw_o, fresh_empty_cache_process=raw_f,
                             decoded=dict(observed=obs, oracle=orc, model=m_obs, model_fresh=m_fresh), model_flags=flags)
                if not prop_ok:
                    stats['stale_probes'] += 1
                    predicted = corr_ok and bool(flags) and hist['regime'] != 'mono'
                    for fl in flags if predicted else ['unpredicted']:
                        stats['by_flag'][fl] = stats['by_flag'].get(fl, 0) + 1
                    sig = dict(stream='history', predicted_by_model=predicted)
                    for name in set(FLAG_NAMES.values()):
                        sig[name] = predicted and name in flags
                    ctx.deviation(sig, dict(where=where, history=hist),
                                  'a Script in %s answers differently from a fresh process with an empty cache '
                                  '(import %s, %s)%s' % (
                                      'process %d' % pid, '.'.join(nm(x) for x in ch), FORM_NAMES[form],
                                      '; the model predicts this stale answer: ' + ', '.join(flags) if predicted
                                      else '; the model does NOT predict this answer'))
                elif not corr_ok:
                    ctx.violation('obligation', dict(
                        what='correspondence C09: the implementation answers like the fresh process but the model '
                             'predicts something else (stateful run or fresh_import)', where=where, history=hist), nofail=True)
                if len(ctx.cov['samples']) < 6 and (not prop_ok or (qi > 1 and orc != (0, 0))):
                    ctx.sample(dict(stream='hist-' + hist['regime'], chain=[nm(x) for x in ch], form=FORM_NAMES[form],
                                    process=pid, observed=obs, oracle=orc, model=m_obs, flags=flags))
        coq_bad = hi in fails
        if coq_bad != py_bad:
            raise RuntimeError('check_case and describe_case disagree on history %r' % (hist['seed'],))
    return stats


def merge_stats(a, b):
    for k, v in b.items():
        if isinstance(v, dict):
            d = a.setdefault(k, {})
            for kk, vv in v.items():
                d[kk] = d.get(kk, 0) + vv
        else:
            a[k] = a.get(k, 0) + v
    return a


def setup(ctx):
    """Import jedi in this process (the workers, and through them all session processes, are forks
    of it).  Import only: no Script, helper, Project or parse tree is ever created here.  The
    grammar tables (static data parso builds from its grammar file) are loaded once for all."""
    os.makedirs(PYC_DIR, exist_ok=True)
    sys.pycache_prefix = PYC_DIR
    sys.dont_write_bytecode = False
    jedi = common.setup_jedi(os.path.join(ctx.tmp, 'cache'))
    import parso
    parso.load_grammar()
    parso.load_grammar(version='%d.%d' % sys.version_info[:2])
    return jedi


def run(ctx):
    setup(ctx)
    ctx.proofs()
    fps = common.fingerprint(FP)
    ctx.cov['fingerprints'] = fps
    changed = sorted(k for k in fps if BASE_FP.get(k) != fps[k])
    ctx.cov['intensified'] = changed
    # a change confined to the stub lookup (typeshed.py) intensifies the stub stream only
    changed_stub = [k for k in changed if 'gradual/typeshed.py' in k]
    mult = 2 if (len(changed) > len(changed_stub) and ctx.quick) else 1
    mult_stub = 2 if (changed_stub and ctx.quick) else 1
    scale = float(os.environ.get('C09_SCALE', '1'))      # debugging aid: 0 = witnesses only
    n_mono, n_adv = int(ctx.n(10, 60) * mult * scale), int(ctx.n(16, 100) * mult * scale)
    n_stub = int(ctx.n(5, 40) * mult_stub * scale)
    lo, hi = ctx.n(4, 6), ctx.n(8, 12)
    ctx.cov['rule'] = (
        'witness: 5 fixed histories (the refutation witnesses of Props/C09.v + a monotone control); '
        'hist-mono / hist-adv: seeded projects (<= 4 top-level names, <= 2 sub-module names, packages, namespace '
        'directories, stubs) x mutation histories (write, overwrite, touch, delete, rename, module<->package, '
        'mkdir/rmtree, add/remove __init__.py, stub) x one Script after every step in the long-lived process and/or '
        'a just-restarted process sharing the pickle directory, 2-4 import probes per Script (attr-complete, '
        'star-complete, infer-module, from-goto; absolute and relative); every probe is also asked of a fresh '
        'process with an empty cache directory; one evaluation = one probe; non-trivial = something is resolved; '
        'distinct by (history, query, probe); '
        'hist-stub (oracle only, monotone timestamps): %d directed histories (python side of zqn2.zqn5 = package '
        'directory / namespace directory / module / nothing x stub = zqn5.pyi or zqn5/__init__.pyi x the earlier '
        'Script of the process resolved the same name / a sibling / a missing name; stub created, rewritten, '
        'deleted, re-created together with a python rewrite, moved to the other place; zqn6.py+zqn6.pyi as '
        'control) + seeded random walks over the files zqn2/{__init__.py, zqn5.py, zqn5.pyi, zqn5/, zqn5/__init__.py, '
        'zqn5/__init__.pyi, zqn5/zqn6.py} and the same for zqn6; Scripts: absolute / relative / star imports with '
        'attr-complete, call-return (stub annotation names another user class than the python body returns), '
        'stub-only call and goto, func-goto, infer-module; processes 0 and 1 long-lived or just restarted' % len(STUB_DIRECTED))
    ctx.assumptions += [
        'parso cache, importlib FileFinder and jedi stub lookup are modelled (dependencies), validated only by these streams',
        'a "process" is a fork of a worker that imported jedi but never created a Script/helper/tree; it starts its own helper',
        'timestamps: model time t = mtime 1e9+t s set with os.utime on every file, directory and freshly written pickle',
        'parso\'s in-memory cache eviction (>= 600 entries) and 30-day pickle cleanup are out of reach of <= 8 module projects',
        'jedi replaces its cached default environment (and helper) after 10 minutes: histories that take longer are dropped and counted',
        'hist-stub has no model side (C09_DiskCache knows one directory level and the direct stub probes only): the fresh '
        'empty-cache process is the only judge there; its histories are strictly monotone in time by construction',
    ]
    only_stub = os.environ.get('C09_ONLY') == 'stub'      # debugging aid: the oracle-only stream alone
    if only_stub:
        n_mono = n_adv = 0
    hists = [] if only_stub else witness_histories()
    for i in range(n_mono):
        hists.append(gen_history(ctx.rng.randrange(1 << 40), 'mono', ctx.rng.randint(lo, hi)))
    for i in range(n_adv):
        hists.append(gen_history(ctx.rng.randrange(1 << 40), 'adv', ctx.rng.randint(lo, hi)))
    # Round 2: oracle-only stub stream (drawn after the modelled streams: their inputs per seed are unchanged)
    stub_hists = []
    if scale > 0:
        for i in range(len(STUB_DIRECTED)):
            stub_hists.append(gen_stub_directed(i, ctx.rng.randrange(1 << 40)))
        for i in range(n_stub):
            stub_hists.append(gen_stub_random(ctx.rng.randrange(1 << 40), ctx.rng.randint(lo, hi)))
    os.makedirs(PYC_DIR, exist_ok=True)
    import subprocess
    subprocess.run([common.PY, '-c', 'import jedi, jedi.inference.compiled.subprocess.functions, jedi.api.environment'],
                   env=_bytecode_env(common.jedi_env()), cwd=ctx.tmp, timeout=600)    # warm the bytecode cache once
    t = time.time()
    results = common.pmap(run_history, hists + stub_hists, chunksize=1, timeout=7200)
    ctx.stat('wall_histories', round(time.time() - t, 1))
    results, stub_results = results[:len(hists)], results[len(hists):]
    t = time.time()
    stats = evaluate(ctx, hists, results)
    ctx.stat('wall_coq', round(time.time() - t, 1))
    for k, v in stats.items():
        ctx.stat(k, v)
    if stub_hists:
        sstats = evaluate_stub(ctx, stub_hists, stub_results)
        for k, v in sstats.items():
            ctx.stat(k, v)
        if sstats['stub_histories'] >= len(STUB_DIRECTED) and not sstats['stub_listing_only_after_earlier_query']:
            ctx.violation('obligation', dict(what='hist-stub lost its power: no probe was answered from a stub that is only '
                                                  'found through the listing of the package directory and that appeared after '
                                                  'an earlier Script of the same process (generator or jedi stub lookup changed)'),
                          nofail=True)
    ctx.stat('history_lengths', sorted(len(h['steps']) for h in hists)[::max(1, len(hists) // 10)])
    if stats['helper_replaced'] > len(hists) // 3:
        ctx.violation('obligation', dict(what='more than a third of the histories took longer than jedi\'s 10-minute '
                                              'environment cache: the machine is too loaded for this check'), nofail=True)
    # the refutation witnesses must really be stale on the implementation (they are the known findings)
    seen = ctx.cov.get('deviation_histogram', {})
    for name in () if only_stub else ('same_or_older_mtime', 'mtime_not_after_pickle', 'dir_mtime_unchanged'):
        if not any(json.loads(k).get(name) for k in seen):
            ctx.violation('obligation', dict(what='refutation witness %s of C09_stale_without_monotone_refuted is not '
                                                  'reproduced by the implementation (model and code disagree on the '
                                                  'cache validation rule, or the rule was fixed: update model and findings)' % name),
                          nofail=True)


def replay(ctx, path):
    rec = json.load(open(path))
    hist = rec.get('history')
    print(json.dumps({k: v for k, v in rec.items() if k != 'history'}, indent=1, ensure_ascii=False)[:4000])
    if not hist:
        return 0
    setup(ctx)
    res = common.pmap(run_history, [hist], chunksize=1, timeout=7200)[0]
    if 'error' in res:
        print('history failed:', res['error'], res.get('tb'))
        return 0
    qs = [st for st in norm_steps(hist['steps']) if st[0] == 'query']
    if hist.get('regime') == 'stub':      # oracle-only stream: no model side
        for qi, (st, rr) in enumerate(zip(qs, res['results'])):
            print('query %d pid %d %s (%s), shapes %s' % (qi, st[1], st[3]['kind'], rr['path'], st[3]['expect']))
            for pi, (kind, s) in enumerate(st[3]['labels']):
                o = rr['obs'][pi] if isinstance(rr['obs'], list) else rr['obs']
                f = rr['orc'][pi] if isinstance(rr['orc'], list) else rr['orc']
                fm = F_ATTR if kind.endswith('complete') else F_INFER
                same = canon_rows(o, fm) == canon_rows(f, fm)
                print('  probe %d %s %s: %s' % (pi, kind, nm(s), 'same as the fresh empty-cache process' if same else 'DIFFERENT'))
                if not same:
                    print('     implementation:', canon_rows(o, fm))
                    print('     fresh process :', canon_rows(f, fm))
        return 0
    decoded = []
    for qi, (st, rr) in enumerate(zip(qs, res['results'])):
        row = []
        for ti, t in enumerate(st[3]['targets']):
            o = decode(hist, st[3], ti, rr['obs'][ti] if isinstance(rr['obs'], list) else rr['obs'], rr['path'])
            f = decode(hist, st[3], ti, rr['orc'][ti] if isinstance(rr['orc'], list) else rr['orc'], rr['path'])
            row.append((o or (GARBLED, GARBLED), f or (GARBLED, GARBLED)))
            print('query %d pid %d probe %d %s %s: implementation %s, fresh empty-cache process %s' % (
                qi, st[1], ti, '.'.join(nm(x) for x in t[0]), FORM_NAMES[t[1]], o, f))
        decoded.append(row)
    case = g_case(hist, decoded)
    print('model (per probe: model obs a b, spec obs a b, flag mask):')
    print(common.coq_show(IMPORTS, ['describe_case %s' % case, 'check_case %s' % case], defs=DEFS, timeout=COQ_TIMEOUT))
    return 0
