"""C16 — results are deterministic and repeatable.

Streams
  stub       the real helpers.sorted_definitions / classes.Name.__eq__/__hash__/line/column/module_path
             on stub name objects, permuted enumerations (exhaustive small + seeded) vs the Coq model
             (sort_defs, infer_out, goto_canon, name_eqb); direct oracle: the output for two
             enumerations of one coherent result set is the same list
  pipeline   the real Script.infer / goto / get_references / complete post-processing, fed with stub
             engine results in a chosen enumeration order (the engine entry points are replaced in the
             harness process only) vs infer_out / goto_canon / refs_out / complete_out
  xproc      the same queries (every query method at sampled positions of generated multi-module
             projects and path-less buffers) in SEPARATE PROCESSES under several PYTHONHASHSEED values
             and heap perturbations; ordered result lists (goto/help: sets) are compared; the
             enumerations that reach the ordering code are captured and replayed in the model
  repeat     on ONE Script: every ordered pair of a pool of <= 8 queries (failing ones included) and
             random schedules with repetitions; each result must equal the result on a fresh Script
  transients after every query of `repeat` (returning or raising): the transient state read through
             the private attributes equals the state before; the recorded writes replayed by the
             model's run_trace give the observed state
"""
import itertools
import json
import keyword
import os
import random
import re
import subprocess
import sys
import time

HERE = os.path.dirname(os.path.abspath(__file__))
WORKER_MODE = __name__ == '__main__'
if not WORKER_MODE:
    import common
    from common import g_str, g_bool, g_list, g_opt, g_N

IMPORTS = 'From JV Require Import Base.Str Model.C16_Determinism.\n'

FP = [('jedi/api/helpers.py', 'sorted_definitions'), ('jedi/api/classes.py', 'Name.__eq__'),
      ('jedi/api/classes.py', 'Name.__hash__'), ('jedi/api/classes.py', 'BaseName.line'),
      ('jedi/api/classes.py', 'BaseName.column'), ('jedi/api/classes.py', 'BaseName.module_path'),
      ('jedi/api/__init__.py', 'Script.infer'), ('jedi/api/__init__.py', 'Script.goto'),
      ('jedi/api/__init__.py', 'Script.get_references'), ('jedi/api/__init__.py', 'Script.get_signatures'),
      ('jedi/api/__init__.py', 'Script._analysis'), ('jedi/api/completion.py', 'Completion.complete'),
      ('jedi/api/completion.py', 'filter_names'), ('jedi/inference/references.py', 'find_references'),
      ('jedi/inference/context.py', 'AbstractContext.predefine_names'),
      ('jedi/inference/recursion.py', 'execution_allowed'),
      ('jedi/inference/recursion.py', 'execution_recursion_decorator'),
      ('jedi/inference/__init__.py', 'InferenceState.reset_recursion_limitations'),
      ('jedi/inference/cache.py', '_memoize_default')]

POS_METHODS = ['infer', 'goto', 'goto_fi', 'help', 'refs', 'refs_file', 'complete', 'complete_fuzzy',
               'signatures', 'context']
NOPOS_METHODS = ['names', 'names_all', 'search', 'complete_search', 'syntax_errors']
UNORDERED = {'goto', 'goto_fi', 'help'}      # documented as unordered (list(set(...)))


# =====================================================================================
# generated sources (builtin-light; DESIGN §E) with multi-valued results
# =====================================================================================
CLASSN = ['Alpha', 'Beta', 'Gamma', 'Delta', 'Widget']
ATTRS = ['foo', 'Foo', 'fOO', 'bar', 'Bar', 'baz', 'qux', 'Qux', '_hid', '_Hid', 'size', 'Size']
METHS = ['run', 'Run', 'make', 'step', 'Step', 'foo', 'bar']


def gen_class(rng, name, lines, others):
    lines.append('class %s:' % name)
    attrs = rng.sample(ATTRS, rng.randint(2, 5))
    for a in attrs:
        lines.append('    %s = %s' % (a, rng.choice(['1', '2', "'s'", '3.5', "b'x'"])))
    meths = [m for m in rng.sample(METHS, rng.randint(2, 4)) if m not in attrs]
    if not meths:
        meths = ['run']
    for m in meths:
        ps = rng.sample(['n', 'm', 'k'], rng.randint(0, 3))
        lines.append('    def %s(self%s):' % (m, ''.join(', ' + p for p in ps)))
        k = rng.random()
        if k < 0.35:
            lines.append('        return %s()' % rng.choice(others + [name]))
        elif k < 0.6 and ps:
            lines.append('        return %s' % ps[0])
        else:
            lines.append('        return %s' % rng.choice(['1', "'s'", 'self', 'self.%s' % attrs[0]]))
    return attrs, meths


def gen_module(rng, clsnames):
    lines = ['# pad'] * rng.randint(0, 3)
    for c in clsnames:
        gen_class(rng, c, lines, [])
        if rng.random() < 0.5:
            lines.append('')
    lines += ['def helper(a, b=1):', '    return a', 'shared = %s()' % clsnames[0]]
    return '\n'.join(lines) + '\n'


def gen_project(rng, with_siblings=True):
    """-> (files {relpath: text}, base source of main.py, tails [(kind, text)])"""
    files, lines, sib = {}, [], []
    if with_siblings:
        common_cls = rng.choice(CLASSN)
        for modname in rng.sample(['mod_a', 'mod_b', 'mod_c', 'Mod_d'], rng.randint(1, 3)):
            others = [c for c in CLASSN if c != common_cls]
            files[modname + '.py'] = gen_module(rng, [common_cls] + rng.sample(others, 1))
            sib.append((modname, common_cls))
        if rng.random() < 0.6:
            files['pkg/__init__.py'] = ''
            files['pkg/inner.py'] = gen_module(rng, [common_cls])
            sib.append(('pkg.inner', common_cls))
        for modname, _ in sib:
            if rng.random() < 0.5 or '.' in modname:
                lines.append('import %s' % modname)
            else:
                lines.append('from %s import %s as %s_%s' % (modname, common_cls, common_cls, modname))
    lines += ['# filler'] * rng.randint(0, 6)          # definitions on both sides of line 9/10
    ncls = rng.randint(2, 4)
    names = rng.sample(CLASSN, ncls)
    info = {}
    for i, c in enumerate(names):
        info[c] = gen_class(rng, c, lines, names[:i])
    a, b = names[0], names[1]
    c3 = names[2] if ncls > 2 else names[0]
    lines += ['def pick(flag):', '    if flag:', '        r = %s()' % a, '    else:', '        r = %s()' % b, '    return r']
    lines += ['def tern(c):', '    return %s() if c else %s()' % (b, a)]
    lines += ['def both(c):', '    x = %s if c else %s()' % (a, a), '    return x']
    lines += ['def three(c, d):', '    if c:', '        return %s()' % a, '    elif d:', '        return %s()' % b,
              '    return %s()' % c3]
    lines += ['def twice(p):', '    return p', 'def twice(p, q):', '    return q']
    vs = ['v1', 'v2', 'v4']
    lines += ['v1 = pick(1)', 'v2 = tern(2)', 'v3 = both(3)', 'v4 = three(1, 2)']
    m_common = [m for m in info[a][1] if m in info[b][1]]
    meth = m_common[0] if m_common else info[a][1][0]
    lines.append('v5 = v1.%s()' % meth)
    lines.append('v6 = twice(v1, v2)')
    lines.append('num = 1; num = "s"; num = 2.5')
    if sib:
        exprs = []
        for modname, cc in sib:
            alias = '%s_%s' % (cc, modname)
            exprs.append(alias if ('from %s import %s as %s' % (modname, cc, alias)) in lines
                         else '%s.%s' % (modname, cc))
        exprs.append(a)
        rng.shuffle(exprs)
        lines.append('def cross(%s):' % ', '.join('c%d' % i for i in range(len(exprs))))
        for i, e in enumerate(exprs[:-1]):
            lines += ['    if c%d:' % i, '        return %s()' % e]
        lines.append('    return %s()' % exprs[-1])
        lines.append('v7 = cross(%s)' % ', '.join('1' for _ in exprs))
        vs.append('v7')
    # crash corner (DESIGN §E): queries here raise from deep inside the engine (K2; K1/K3/K4 in the tails) -
    # they are the "failing queries in between" that exercise every finally: on the way out
    lines += ['kk = None', 'kk.real', 'lst = [1, 2]']
    # ... through predefine_names (comprehension, generator with a for loop) and execution_allowed
    lines += ['cmp = [kk.real for it2 in (1, 2)]', 'cmp[0]', 'def gen():', '    for it3 in (1, 2):', '        yield kk.real',
              'for gv in gen():', '    gv', 'def bad(p):', '    return kk.real', 'bv = bad(1)', 'bv']
    lines.append('v1; v2; v3; v4; v5; v6; num')
    lines.append('v1.%s; v2.%s; v4.%s' % (info[a][0][0], info[b][0][0], meth))
    lines.append('w = v1.%s' % meth)
    if sib:
        lines.append('v7; v7.%s' % rng.choice(ATTRS))
    base = '\n'.join(lines) + '\n'
    frags = ['', 'f', 'F', 'b', 'ba', 'r', '_', 's', 'q', 'm']
    tails = []
    for _ in range(rng.randint(3, 5)):
        v = rng.choice(vs)
        k = rng.random()
        if k < 0.6:
            tails.append(('complete', '%s.%s' % (v, rng.choice(frags))))
        elif k < 0.85:
            tails.append(('signatures', '%s.%s(' % (v, meth)))
        else:
            tails.append(('complete', rng.choice(['v', 'p', 't', names[0][:1]])))
    tails.append(('signatures', 'twice('))
    tails.append(('crash', rng.choice(['lst.', '%s.' % names[0], 'twice.', 'kk.', 'v1.%s.' % meth])))
    return files, base, tails


CORPUS = [
    # (files, source) — fixed seed inputs, always run first
    ({}, "class A:\n    def m(self): return 1\ndef g(c):\n    x = A if c else A()\n    return x\ny = g(1)\ny\n"),
    ({}, "class A:\n    Foo = 1\n    def bar(self): return 1\nclass B:\n    foo = 2\n    bar = 3\n"
         "def g(c):\n    x = A() if c else B()\n    return x\ny = g(1)\ny.bar\ny.bar(\ny."),
    ({'m1.py': "class K:\n    v = 1\n", 'm2.py': "class K:\n    v = 2\n"},
     "import m2\nimport m1\ndef f(c):\n    if c:\n        return m2.K()\n    return m1.K()\nz = f(1)\nz\nz.v\n"),
    ({}, "def f(a):\n    return a\ndef f(a, b):\n    return b\nx = 1\nx = 's'\nx\nf(x, \n"),
    ({}, "class A:\n    def m(self):\n        return 1\ndef g(c):\n    if c:\n        return A()\n    return None\n"
         "kk = None\nkk.real\nw = g(1)\nw\nw.m\nlst = [1]\nlst."),
    ({}, "kk = None\ncmp = [kk.real for it2 in (1, 2)]\ncmp[0]\ndef gen():\n    for it3 in (1, 2):\n        yield kk.real\n"
         "for gv in gen():\n    gv\nclass A:\n    pass\na = A()\na\ndef bad(p):\n    return kk.real\nbv = bad(1)\nbv\n"),
]

IDENT = re.compile(r'[A-Za-z_][A-Za-z_0-9]*')


def name_positions(src):
    out = []
    for i, line in enumerate(src.split('\n'), 1):
        if line.lstrip().startswith('#'):
            continue
        for m in IDENT.finditer(line):
            if keyword.iskeyword(m.group(0)):
                continue
            pre = line[:m.start()]
            if pre.count("'") % 2 or pre.count('"') % 2:
                continue
            out.append((i, m.start(), m.group(0)))
    return out


def make_cases(rng, nproj, root):
    """Write projects below `root`; return the list of cases:
    dict(id, root (project dir or None), path (or None), source, queries=[(method, line, col)])"""
    cases = []

    def add(pid, files, source, with_path, nq):
        proot = None
        path = None
        if with_path:
            proot = os.path.join(root, 'p%d' % pid)
            os.makedirs(proot, exist_ok=True)
            for rel, txt in files.items():
                fp = os.path.join(proot, rel)
                os.makedirs(os.path.dirname(fp), exist_ok=True)
                with open(fp, 'w') as f:
                    f.write(txt)
            path = os.path.join(proot, 'main.py')
            with open(path, 'w') as f:
                f.write(source)
        poss = name_positions(source)
        lines = source.split('\n')
        qs = []
        # the multi-valued uses at the end are always asked, the rest is sampled
        tail_pos = [p for p in poss if p[0] >= len(lines) - 19]
        tail_pos = sorted(rng.sample(tail_pos, min(len(tail_pos), 2 * nq)))
        sample = rng.sample(poss, min(len(poss), nq)) if poss else []
        for (ln, col, word) in tail_pos + [p for p in sample if p not in tail_pos]:
            c = col + rng.randint(0, len(word))
            for m in ('infer', 'goto', 'goto_fi', 'help', 'refs', 'refs_file', 'context'):
                if (m == 'infer' and rng.random() < 0.8) or rng.random() < 0.25:
                    qs.append((m, ln, c))
        last = len(lines[-1]) if lines else 0
        lastline = len(lines)
        if source and not source.endswith('\n'):
            for m in ('complete', 'complete_fuzzy', 'signatures', 'infer', 'goto'):
                qs.append((m, lastline, last))
        for m in NOPOS_METHODS:
            qs.append((m, 0, 0))
        cases.append(dict(id=len(cases), root=proot, path=path, source=source, queries=qs, files=files if with_path else {}))

    pid = 0
    for files, src in CORPUS:
        add(pid, files, src, bool(files), 4)
        pid += 1
    for _ in range(nproj):
        sib = rng.random() < 0.7
        files, base, tails = gen_project(rng, with_siblings=sib)
        add(pid, files, base, sib or rng.random() < 0.5, 6)
        pid += 1
        for kind, t in rng.sample(tails[:-1], min(len(tails) - 1, 2)) + [tails[-1]]:
            add(pid, files, base + t, sib or rng.random() < 0.5, 2)
            pid += 1
    return cases


# =====================================================================================
# running queries and capturing what reaches the ordering code (used in workers)
# =====================================================================================
class Cap:
    installed = False
    log = []       # api Name/Completion/Signature objects constructed during the current query
    mark = 0
    calls = []     # sorted_definitions calls: (kind, pre objects, input objects, output objects)
    comp = None    # filter_names capture


def install_capture():
    if Cap.installed:
        return
    Cap.installed = True
    from jedi.api import classes, helpers, completion
    orig_init = classes.BaseName.__init__

    def init(self, inference_state, name):
        orig_init(self, inference_state, name)
        Cap.log.append(self)
    classes.BaseName.__init__ = init

    orig_sd = helpers.sorted_definitions

    def sorted_definitions(defs):
        is_set = isinstance(defs, (set, frozenset))
        inp = list(defs)
        out = orig_sd(defs)
        pre = [n for n in Cap.log[Cap.mark:] if type(n) is classes.Name]
        Cap.mark = len(Cap.log)
        Cap.calls.append(('set' if is_set else 'list', pre, inp, list(out)))
        return out
    helpers.sorted_definitions = sorted_definitions

    orig_fn = completion.filter_names

    def filter_names(inference_state, completion_names, stack, like_name, fuzzy, imported_names, cached_name):
        names = list(completion_names)
        out = list(orig_fn(inference_state, names, stack, like_name, fuzzy, imported_names, cached_name=cached_name))
        Cap.comp = dict(like=like_name, fuzzy=fuzzy, imported=list(imported_names), names=names, out=out)
        return iter(out)
    completion.filter_names = filter_names


def _rel(p, root):
    if p is None:
        return None
    p = str(p)
    if root and p.startswith(root + os.sep):
        return 'R/' + p[len(root) + 1:]
    for pre, tag in ((os.path.dirname(os.path.dirname(os.path.abspath(__import__('jedi').__file__))), 'JEDI'),
                     (sys.base_prefix, 'PY')):
        if p.startswith(pre + os.sep):
            return tag + '/' + p[len(pre) + 1:]
    return p


def _safe(f):
    try:
        return f()
    except Exception as e:       # an attribute that cannot be computed is part of what is observed
        return 'ERR:' + type(e).__name__


def res_of(n, root, deep=True):
    """[start_pos, path, name, inference-state id, payload] of an api Name"""
    nm = n._name
    sp = _safe(lambda: nm.start_pos)
    pay = [_safe(lambda: n.type), _safe(lambda: n.description)] if deep else []
    if deep:
        pay.append(_safe(lambda: n.full_name))
    return [list(sp) if isinstance(sp, tuple) else sp, _rel(_safe(lambda: n.module_path), root),
            _safe(lambda: n.name), id(n._inference_state), pay]


def comp_in_of(name):
    tn = getattr(name, 'tree_name', None)
    is_del = False
    if tn is not None:
        d = tn.get_definition()
        is_del = d is not None and d.type == 'del_stmt'
    sp = getattr(name, 'start_pos', None)
    return [name.string_name, name.get_public_name(), is_del,
            [getattr(name, 'api_type', '?'), list(sp) if isinstance(sp, tuple) else None]]


def comp_out_of(c):
    nm = c._name
    sp = getattr(nm, 'start_pos', None)
    return [c.name, c.complete, [getattr(nm, 'api_type', '?'), list(sp) if isinstance(sp, tuple) else None]]


def exc_sig(e):
    import traceback
    tb = traceback.extract_tb(e.__traceback__)
    site = None
    for fr in tb:
        if '/jedi/' in fr.filename and 'third_party' not in fr.filename:
            site = (fr.filename.split('/jedi/', 1)[1], fr.name)
    if isinstance(e, RecursionError):
        import collections
        cnt = collections.Counter((fr.filename.split('/jedi/', 1)[1], fr.name) for fr in tb[-400:]
                                  if '/jedi/' in fr.filename and fr.name not in
                                  ('wrapper', '__getattr__', '<genexpr>', '<listcomp>', 'from_sets', '__init__'))
        if cnt:
            site = ('recursion-through', '%s:%s' % cnt.most_common(1)[0][0])
    return dict(exc=type(e).__name__, site='jedi/%s:%s' % site if site and site[0] != 'recursion-through'
                else ('%s:jedi/%s' % site if site else None), msg=str(e)[:80])


def call_query(script, method, line, col):
    if method == 'infer':
        return script.infer(line, col)
    if method == 'goto':
        return script.goto(line, col)
    if method == 'goto_fi':
        return script.goto(line, col, follow_imports=True)
    if method == 'help':
        return script.help(line, col)
    if method == 'refs':
        return script.get_references(line, col)
    if method == 'refs_file':
        return script.get_references(line, col, scope='file')
    if method == 'complete':
        return script.complete(line, col)
    if method == 'complete_fuzzy':
        return script.complete(line, col, fuzzy=True)
    if method == 'signatures':
        return script.get_signatures(line, col)
    if method == 'context':
        return [script.get_context(line, col)]
    if method == 'names':
        return script.get_names()
    if method == 'names_all':
        return script.get_names(all_scopes=True, definitions=True, references=True)
    if method == 'search':
        return list(script.search('v1'))
    if method == 'complete_search':
        return list(script.complete_search('v'))
    if method == 'syntax_errors':
        return script.get_syntax_errors()
    if method == 'analysis':
        return script._analysis()
    raise ValueError(method)


def observe(method, result, root):
    """canonical, JSON-able description of what the caller of a query sees + what was captured"""
    rec = dict(ok=True)
    if method in ('complete', 'complete_fuzzy', 'complete_search'):
        rec['final'] = [comp_out_of(c) for c in result]
        # the public, inferred attribute for names a user looks at
        rec['types'] = [[c.name, _safe(lambda: c.type)] for c in [c for c in result if not c.name.startswith('__')][:12]]
        if Cap.comp is not None and method != 'complete_search':
            cp = Cap.comp
            from jedi.api import helpers as H
            like_l = cp['like'].lower()
            enum = []
            for n in cp['names']:
                s = n.string_name
                if s in cp['imported'] and s != like_l:
                    continue
                if H.match(s.lower(), like_l, fuzzy=cp['fuzzy']):
                    enum.append(comp_in_of(n))
            rec['comp'] = dict(like=cp['like'], fuzzy=cp['fuzzy'], enum=enum, out=[comp_out_of(c) for c in cp['out']])
    elif method == 'signatures':
        rec['final'] = [res_of(s, root) + [_safe(lambda: s.to_string()), _safe(lambda: s.index)] for s in result]
    elif method == 'syntax_errors':
        rec['final'] = [[e.line, e.column, e.until_line, e.until_column, _safe(e.get_message)] for e in result]
    elif method == 'analysis':
        rec['final'] = [[getattr(a, 'name', '?'), a.line, a.column] for a in result]
    else:
        rec['final'] = [res_of(d, root) for d in result]
    rec['calls'] = [dict(kind=k, pre=[res_of(n, root) for n in pre] if k == 'set' else [],
                         inp=[res_of(n, root) for n in inp], out=[res_of(n, root) for n in out])
                    for (k, pre, inp, out) in Cap.calls]
    return rec


def run_one(script, method, line, col, root, before=None, after=None):
    Cap.log, Cap.mark, Cap.calls, Cap.comp = [], 0, [], None
    if before:
        before()
    failed = None
    try:
        result = call_query(script, method, line, col)
    except Exception as e:
        failed = dict(ok=False, exc=exc_sig(e))
    # the exception object is released here: frames of suspended generators it kept alive (a generator parked
    # inside `with predefine_names(...)`) are closed before the state is read
    if after:
        after(failed is not None)
    if failed:
        return failed
    try:
        return observe(method, result, root)
    except Exception as e:
        return dict(ok=False, exc=dict(exc_sig(e), phase='observe'))


def make_script(case):
    import jedi
    if case['path']:
        return jedi.Script(case['source'], path=case['path'], project=jedi.Project(case['root']))
    return jedi.Script(case['source'])


# =====================================================================================
# xproc worker: one process = one (PYTHONHASHSEED, heap perturbation) variant
# =====================================================================================
def perturb_heap(rng, keep, lo, hi):
    """allocate a random number of objects of assorted size classes and drop a random subset"""
    junk = []
    for _ in range(rng.randint(lo, hi)):
        k = rng.randint(0, 5)
        if k == 0:
            junk.append(object())
        elif k == 1:
            junk.append([None] * rng.randint(0, 40))
        elif k == 2:
            junk.append({rng.random(): None})
        elif k == 3:
            junk.append('x' * rng.randint(1, 200) + str(rng.random()))
        elif k == 4:
            junk.append((rng.random(), rng.random()))
        else:
            junk.append(frozenset([rng.random()]))
    rng.shuffle(junk)
    keep.append(junk[:rng.randint(0, len(junk))])


def worker_main(jobfile, outfile):
    job = json.load(open(jobfile))
    prng = random.Random(job['perturb']) if job['perturb'] is not None else None
    keep = []
    if prng:
        perturb_heap(prng, keep, 1000, 200000)
    os.chdir(job['cwd'])
    import jedi
    jedi.settings.cache_directory = job['cache']
    install_capture()
    out = {}
    for case in job['cases']:
        # one Script per case and the same query sequence in every process: the history is the same
        # everywhere, only hash seed and heap layout differ
        try:
            script = make_script(case)
        except Exception as e:
            for qi in range(len(case['queries'])):
                out['%d:%d' % (case['id'], qi)] = dict(ok=False, exc=dict(exc_sig(e), phase='script'))
            continue
        for qi, (method, line, col) in enumerate(case['queries']):
            if prng:
                perturb_heap(prng, keep, 0, 300)
            out['%d:%d' % (case['id'], qi)] = run_one(script, method, line, col, case['root'])
    with open(outfile, 'w') as f:
        json.dump(out, f)


if WORKER_MODE:
    if len(sys.argv) == 4 and sys.argv[1] == '--worker':
        worker_main(sys.argv[2], sys.argv[3])
        sys.exit(0)
    sys.exit('usage: c16.py --worker JOB OUT')


# =====================================================================================
# Gallina printers
# =====================================================================================
def g_pos(p):
    return 'None' if p is None else '(Some (%s, %s))' % (g_N(p[0]), g_N(p[1]))


class Numbering:
    """small integers for payloads / inference-state ids, stable over one comparison group"""
    def __init__(self):
        self.d = {}

    def __call__(self, x):
        k = json.dumps(x, sort_keys=True, default=repr)
        if k not in self.d:
            self.d[k] = len(self.d)
        return self.d[k]


class Intern:
    """strings and records are defined once per Coq file and referred to by name: the case lists stay small"""
    table = {}
    defs = []

    @classmethod
    def get(cls, term, ty):
        k = (term, ty)
        if k not in cls.table:
            cls.table[k] = 'jv_i%d' % len(cls.table)
            cls.defs.append('Definition %s : %s := %s.' % (cls.table[k], ty, term))
        return cls.table[k]

    @classmethod
    def text(cls):
        return '\n'.join(cls.defs) + '\n'

    @classmethod
    def closure(cls, term):
        """the definitions a term needs, in order (makes a replayed case self-contained)"""
        need, todo = set(), [term]
        by_name = {}
        for d in cls.defs:
            by_name[d.split()[1]] = d
        while todo:
            t = todo.pop()
            for n in re.findall(r'jv_i\d+', t):
                if n not in need:
                    need.add(n)
                    todo.append(by_name[n])
        return '\n'.join(d for d in cls.defs if d.split()[1] in need) + '\n'


def gi_str(s):
    return Intern.get(g_str(s), 'str')


def g_res(r, pay, ist):
    pos, path, name, st, payload = r[0], r[1], r[2], r[3], r[4]
    return Intern.get('Build_res %s %s %s %s %s' % (
        g_pos(pos), g_opt(path, gi_str), gi_str(name if isinstance(name, str) else repr(name)),
        g_N(ist(st)), g_N(pay(payload))), 'res')


def g_reslist(rs, pay, ist):
    return g_list([g_res(r, pay, ist) for r in rs], lambda x: x, 'res')


def g_cres(name, is_del, payload, pay):
    return Intern.get('Build_cres %s %s %s %s' % (gi_str(name), gi_str(name.lower()), g_bool(is_del), g_N(pay(payload))), 'cres')


def res_ok(r):
    """representable in the model (no attribute raised while observing)"""
    return (r[0] is None or isinstance(r[0], list)) and (r[1] is None or not str(r[1]).startswith('ERR:')) \
        and isinstance(r[2], str) and not r[2].startswith('ERR:')


def canon_res(r, ist=None):
    return json.dumps([r[0], r[1], r[2], r[4]] + r[5:], sort_keys=True)


def key_of(r):
    return (r[1] or '', (r[0] or [0, 0])[0] or 0, (r[0] or [0, 0])[1] or 0, r[2])


# =====================================================================================
# stream: stub  (the real sorted_definitions / Name.__eq__ / __hash__ on stub names)
# =====================================================================================
class SModule:
    def __init__(self, path, compiled=False, stub=False):
        self._p, self._c, self._s = path, compiled, stub

    def is_stub(self):
        return self._s

    def is_compiled(self):
        return self._c

    def py__file__(self):
        return self._p


class SName:
    api_type = 'statement'
    tree_name = None

    def __init__(self, spec, modules):
        self.spec = spec
        pos, pathkey, name, pay = spec
        self.start_pos = tuple(pos) if pos is not None else None
        self.string_name = name
        self._module = modules[pathkey]
        self.pay = pay

    def get_public_name(self):
        return self.string_name

    def get_root_context(self):
        return self._module


def stub_modules():
    from pathlib import Path
    return {
        None: SModule(None),                                   # no file: module_path None
        'compiled': SModule(Path('/p/a.py'), compiled=True),   # compiled with a file: module_path None
        '/p/a.py': SModule(Path('/p/a.py')),
        '/p/a.py#2': SModule(Path('/p/a.py')),                 # another module object, equal path
        '/p/b.py': SModule(Path('/p/b.py')),
        '/p/B.py': SModule(Path('/p/B.py')),
        '/p/a/c.py': SModule(Path('/p/a/c.py')),
        '/p/s.pyi': SModule(Path('/p/s.pyi'), compiled=True, stub=True),
    }


def spec_path(pathkey):
    if pathkey in (None, 'compiled'):
        return None
    return pathkey.split('#')[0]


def spec_res(spec, ist=0):
    pos, pathkey, name, pay = spec
    return [list(pos) if pos is not None else None, spec_path(pathkey), name, ist, pay]


def spec_wf(spec):
    return spec[0] is None or tuple(spec[0]) != (0, 0)


def stream_stub(ctx, coq):
    from jedi.api import classes, helpers
    modules = stub_modules()
    ist = object()
    rng = ctx.rng
    small = [(pos, pk, 'a', 0) for pos in (None, (0, 0), (1, 4), (10, 0)) for pk in (None, '/p/a.py', '/p/b.py')] + \
            [(pos, pk, 'B', 0) for pos in (None, (1, 4)) for pk in (None, '/p/a.py')]
    if not ctx.quick or ctx.intensify:
        small = [(pos, pk, nm, 0) for pos in (None, (0, 0), (1, 0), (1, 4), (2, 0), (10, 0))
                 for pk in (None, '/p/a.py', '/p/b.py') for nm in ('a', 'B')]
    wide_pos = [None, (0, 0), (1, 0), (1, 4), (1, 10), (2, 0), (9, 3), (10, 0), (11, 2), (100, 1), (0, 5)]
    wide_path = list(modules)
    wide_name = ['a', 'b', 'B', 'ab', '_a', 'A', 'é', 'Z', 'z']
    lists = [[s] for s in small] + [[s, t] for s in small for t in small]
    n_ex = len(lists)
    for _ in range(ctx.vol(200, 4000)):
        k = rng.randint(2, 8)
        pool = [(rng.choice(wide_pos), rng.choice(wide_path), rng.choice(wide_name), 0)
                for _ in range(rng.randint(1, 6))]
        l = [rng.choice(pool) for _ in range(k)]
        mode = rng.random()
        if mode < 0.3:       # incoherent payloads: which duplicate survives set() is visible
            l = [(p, q, n, rng.randint(0, 2)) for (p, q, n, _) in l]
        lists.append(l)
        if rng.random() < 0.6:
            l2 = l[:]
            rng.shuffle(l2)
            lists.append(l2)
    metas = []
    pay = lambda x: x
    idn = lambda x: 0
    by_set = {}
    n_set = 0
    for li, l in enumerate(lists):
        objs = [classes.Name(ist, SName(s, modules)) for s in l]
        back = {id(o): s for o, s in zip(objs, l)}
        try:
            out_sort = [back[id(o)] for o in helpers.sorted_definitions(objs)]
            out_set = [back[id(o)] for o in helpers.sorted_definitions(set(objs))]
            out_goto = [back[id(o)] for o in list(set(helpers.sorted_definitions(objs)))]
            if len(l) <= 2:
                a, b = objs[0], objs[-1]
                eqs = (a == b, not (a != b), hash(a) == hash(b))
        except Exception as e:
            ctx.deviation(dict(stream='stub', exc=type(e).__name__), dict(input=l), 'sorted_definitions/Name raised %r' % e)
            continue
        wf = all(spec_wf(s) for s in l)
        coherent = len({(tuple(s[0]) if s[0] else None, spec_path(s[1]), s[2], s[3]) for s in l}) == \
            len({(tuple(s[0]) if s[0] else None, spec_path(s[1]), s[2]) for s in l})
        ctx.count('stub', ('L', tuple(l)), nontrivial=len(l) > 1)
        gl = g_reslist([spec_res(s) for s in l], pay, idn)
        g_set = g_goto = 'None'
        if wf:       # with start_pos None next to (0, 0) the set order shows through: nothing to predict
            n_set += 1
            g_set = '(Some %s)' % g_reslist([spec_res(s) for s in out_set], pay, idn)
            g_goto = '(Some %s)' % g_reslist([spec_res(s) for s in sorted(out_goto, key=lambda s: key_of(spec_res(s)))], pay, idn)
        coq.add('stub', '(JStub %s %s %s %s)' % (gl, g_reslist([spec_res(s) for s in out_sort], pay, idn), g_set, g_goto),
                'helpers.sorted_definitions on a list / on set(list) with the real Name.__eq__/__hash__ / list(set(sorted)) '
                'vs sort_defs / infer_out / goto_canon', dict(enumeration=l))
        metas.append(('sort', l, out_sort))
        if len(l) <= 2:
            coq.add('stub-eq', '(JEq %s %s %s)' % (g_res(spec_res(l[0]), pay, idn), g_res(spec_res(l[-1]), pay, idn), g_bool(eqs[0])),
                    'Name.__eq__ vs name_eqb', dict(a=l[0], b=l[-1]))
            if eqs[0] != eqs[1] or (eqs[0] and not eqs[2]):
                ctx.deviation(dict(stream='stub', cls='eq-ne-hash-inconsistent'), dict(a=l[0], b=l[-1], eq_ne_hash=eqs),
                              'Name.__eq__/__ne__/__hash__ are inconsistent')
        # direct oracle: the output is a function of the SET of results (coherent, well-formed enumerations)
        if wf and coherent:
            k = frozenset((tuple(s[0]) if s[0] else None, spec_path(s[1]), s[2], s[3]) for s in l)
            o = [spec_res(s) for s in out_set]
            if k in by_set and by_set[k][1] != o:
                ctx.deviation(dict(stream='stub', cls='order-depends-on-enumeration'),
                              dict(enumeration_1=by_set[k][0], output_1=by_set[k][1], enumeration_2=l, output_2=o),
                              'sorted_definitions(set(defs)) differs for two enumerations of the same result set')
            by_set.setdefault(k, (l, o))
            ks = [key_of(r) for r in o]
            if ks != sorted(ks) or len(set(ks)) != len(ks):
                ctx.deviation(dict(stream='stub', cls='not-sorted-or-duplicate'), dict(enumeration=l, output=o),
                              'infer-style output is not strictly increasing in (path, line, column, name)')
    ctx.stat('stub_lists', dict(exhaustive=n_ex, seeded=len(lists) - n_ex, with_set=n_set))
    ctx.sample(dict(stream='stub', enumeration=lists[n_ex], sorted_definitions=metas[n_ex][2] if len(metas) > n_ex else None))


# =====================================================================================
# stream: pipeline  (real Script.* post-processing on stub engine results; runs in a forked worker)
# =====================================================================================
class SValue:
    def __init__(self, name):
        self.name = name


class CStub:
    """a name as filter_names / Completion see it"""
    def __init__(self, name, is_del, pay):
        self.string_name = name
        self._del = is_del
        self.pay = pay
        self.api_type = ['statement', 'instance', 'class', 'module'][pay % 4]
        self.start_pos = (1 + pay, 0)
        self.tree_name = self if is_del else None

    def get_public_name(self):
        return self.string_name

    def get_definition(self):
        return self

    type = 'del_stmt'


def _pipeline_task(task):
    kind, cases = task
    import jedi
    import jedi.api as api
    from jedi.api import completion as comp_mod
    modules = stub_modules()
    out = []
    install_capture()
    script = jedi.Script('x = 1\nx\n')
    for case in cases:
        try:
            if kind in ('infer', 'goto', 'refs'):
                names = [SName((tuple(s[0]) if s[0] is not None else None, s[1], s[2], s[3]), modules) for s in case]
                back = {id(n): i for i, n in enumerate(names)}
                if kind == 'infer':
                    orig = api.convert_values
                    api.convert_values = lambda values, **kw: [SValue(n) for n in names]
                    try:
                        res = script.infer(2, 0)
                    finally:
                        api.convert_values = orig
                elif kind == 'goto':
                    orig = api.convert_names
                    api.convert_names = lambda ns, **kw: list(names)
                    Cap.log, Cap.mark, Cap.calls, Cap.comp = [], 0, [], None
                    try:
                        res = script.goto(2, 0)
                    finally:
                        api.convert_names = orig
                    # goto enumerates set(names): identity-hashed, so the order that reaches the sort is captured
                    out.append(dict(ok=True, out=[back[id(d._name)] for d in res],
                                    enum=[back[id(d._name)] for d in Cap.calls[-1][2]]))
                    continue
                else:
                    orig = api.find_references
                    api.find_references = lambda *a, **kw: list(names)
                    try:
                        res = script.get_references(2, 0)
                    finally:
                        api.find_references = orig
                out.append(dict(ok=True, out=[back[id(d._name)] for d in res]))
            else:
                like, fuzzy, specs = case
                src = 'x = 1\n' + like
                s2 = jedi.Script(src)
                stubs = [CStub(n, d, p) for (n, d, p) in specs]
                orig = comp_mod.Completion._complete_python

                def fake(self, leaf):
                    self.stack = None
                    return None, list(stubs)
                comp_mod.Completion._complete_python = fake
                try:
                    res = s2.complete(2, len(like), fuzzy=fuzzy)
                finally:
                    comp_mod.Completion._complete_python = orig
                out.append(dict(ok=True, out=[[c.name, c._name.pay] for c in res]))
        except Exception as e:
            out.append(dict(ok=False, exc=exc_sig(e)))
    return out


def stream_pipeline_prepare(ctx):
    rng = ctx.rng
    pos = [None, (1, 0), (1, 4), (2, 0), (9, 1), (10, 0), (11, 2)]
    paths = [None, 'compiled', '/p/a.py', '/p/a.py#2', '/p/b.py', '/p/B.py', '/p/a/c.py']
    names = ['a', 'b', 'B', 'ab', '_a']
    tasks = {}
    for kind in ('infer', 'goto', 'refs'):
        cs = []
        for _ in range(ctx.vol(60, 2000)):
            pool = [(rng.choice(pos), rng.choice(paths), rng.choice(names), 0) for _ in range(rng.randint(1, 5))]
            l = [rng.choice(pool) for _ in range(rng.randint(0, 7))]
            if rng.random() < 0.3:
                l = [(p, q, n, rng.randint(0, 2)) for (p, q, n, _) in l]
            cs.append([[list(p) if p else None, q, n, y] for (p, q, n, y) in l])
            if rng.random() < 0.5:
                l2 = cs[-1][:]
                rng.shuffle(l2)
                cs.append(l2)
        tasks[kind] = cs
    cn = ['foo', 'Foo', 'fOO', 'fob', 'bar', 'Bar', '_foo', '_Foo', '__foo', '__Foo', 'éa', 'Éa', 'f', 'F']
    cs = []
    for _ in range(ctx.vol(80, 2500)):
        like = rng.choice(['', '', 'f', 'F', 'fo', 'b', '_', '__', 'é'])
        fuzzy = rng.random() < 0.3
        specs = [(rng.choice(cn), rng.random() < 0.08, rng.randint(0, 3)) for _ in range(rng.randint(0, 9))]
        cs.append((like, fuzzy, specs))
        if rng.random() < 0.5:
            s2 = specs[:]
            rng.shuffle(s2)
            cs.append((like, fuzzy, s2))
    tasks['complete'] = cs
    return tasks


def stream_pipeline_finish(ctx, coq, tasks, results):
    from jedi.api import helpers as H
    pay = lambda x: x
    idn = lambda x: 0
    for kind, cs in tasks.items():
        res = results[kind]
        groups = {}
        for c, r in zip(cs, res):
            if not r['ok']:
                ctx.deviation(dict(stream='pipeline', kind=kind, exc=r['exc']['exc'], site=r['exc']['site']),
                              dict(input=c, error=r['exc']), 'Script.%s post-processing raised on stub engine results' % kind)
                continue
            ctx.count('pipeline', (kind, json.dumps(c)), nontrivial=len(c) > 1 if kind != 'complete' else len(c[2]) > 1)
            if kind == 'complete':
                like, fuzzy, specs = c
                like_l = like.lower()
                enum = [(n, d, p) for (n, d, p) in specs if H.match(n.lower(), like_l, fuzzy=fuzzy)]
                g_in = g_list([g_cres(n, d, p, pay) for (n, d, p) in enum], lambda x: x, 'cres')
                g_out = g_list([g_cres(n, False, p, pay) for (n, p) in r['out']], lambda x: x, 'cres')
                coq.add('pipeline-complete', '(JComp %s %s %s)' % (gi_str(like), g_in, g_out),
                        'Script.complete post-processing (filter_names, sort) on stub names vs complete_out', dict(input=c))
                # direct oracle: enumerations with the same survivors and no key tie give the same list
                surv, seen = [], set()
                for (n, d, p) in enum:
                    if n not in seen:
                        seen.add(n)
                        if not d:
                            surv.append((n, p))
                keys = [(not n.startswith(like), n.startswith('__'), n.startswith('_'), n.lower()) for n, _ in surv]
                if len(set(keys)) == len(keys):
                    gk = (like, fuzzy, frozenset(surv))
                    if gk in groups and groups[gk][1] != r['out']:
                        ctx.deviation(dict(stream='pipeline', cls='complete-order-depends-on-enumeration'),
                                      dict(input_1=groups[gk][0], output_1=groups[gk][1], input_2=c, output_2=r['out']),
                                      'complete() differs for two enumerations of the same tie-free set of names')
                    groups.setdefault(gk, (c, r['out']))
                    ks2 = [(not n.startswith(like), n.startswith('__'), n.startswith('_'), n.lower()) for n, _ in r['out']]
                    if ks2 != sorted(ks2):
                        ctx.deviation(dict(stream='pipeline', cls='complete-not-sorted'), dict(input=c, output=r['out']),
                                      'complete() is not sorted by the documented key')
            else:
                specs = [(tuple(s[0]) if s[0] else None, s[1], s[2], s[3]) for s in c]
                outs = [specs[i] for i in r['out']]
                wf = all(spec_wf(s) for s in specs)
                gl = g_reslist([spec_res(specs[i]) for i in r['enum']] if kind == 'goto' else [spec_res(s) for s in specs], pay, idn)
                if kind == 'goto':
                    outs = sorted(outs, key=lambda s: key_of(spec_res(s)))
                ctor = {'infer': 'JInfer', 'goto': 'JGoto', 'refs': 'JRefs'}[kind]
                if wf or kind == 'refs':
                    coq.add('pipeline-' + kind, '(%s %s %s)' % (ctor, gl, g_reslist([spec_res(s) for s in outs], pay, idn)),
                            'Script.%s post-processing on stub engine results vs the model' % kind, dict(enumeration=c))
                ident = lambda s: (s[0], spec_path(s[1]), s[2])
                coherent = len({ident(s) + (s[3],) for s in specs}) == len({ident(s) for s in specs})
                if coherent and kind in ('infer', 'goto'):
                    gk = frozenset(ident(s) + (s[3],) for s in specs)
                    o = [spec_res(s) for s in outs]
                    if gk in groups and groups[gk][1] != o:
                        ctx.deviation(dict(stream='pipeline', cls='order-depends-on-enumeration', kind=kind),
                                      dict(enumeration_1=groups[gk][0], output_1=groups[gk][1], enumeration_2=c, output_2=o),
                                      'Script.%s differs for two enumerations of the same result set' % kind)
                    groups.setdefault(gk, (c, o))
                    ks = [key_of(x) for x in o]
                    if ks != sorted(ks) or len(set(ks)) != len(ks):
                        ctx.deviation(dict(stream='pipeline', cls='not-sorted-or-duplicate', kind=kind),
                                      dict(enumeration=c, output=o), 'Script.%s output not strictly increasing in the key' % kind)
                if coherent and kind == 'refs':
                    o = [spec_res(s) for s in outs]
                    ks = [key_of(x) for x in o]
                    if ks != sorted(ks) or sorted(map(json.dumps, o)) != sorted(json.dumps(spec_res(s)) for s in specs):
                        ctx.deviation(dict(stream='pipeline', cls='refs-not-sorted-permutation'),
                                      dict(enumeration=c, output=o), 'get_references output is not the sorted input')
    ctx.sample(dict(stream='pipeline', kind='infer', enumeration=tasks['infer'][0], output_indices=results['infer'][0]))


# =====================================================================================
# deferred Coq evaluation (all at the end, concurrently)
# =====================================================================================
JDEFS = """
Inductive jcase :=
| JStub (l srt : list res) (st gt : option (list res))
| JEq (a b : res) (e : bool)
| JSort (l o : list res) | JInfer (l o : list res) | JSame (l o : list res)
| JGoto (l o : list res) | JRefs (l o : list res)
| JComp (like : str) (l o : list cres)
| JTrace (tr : list event) (o : obs_state).
Definition jcheck (c : jcase) : bool :=
  match c with
  | JStub l srt st gt =>
      list_res_eqb (sort_defs l) srt
      && match st with Some o => list_res_eqb (infer_out l) o | None => true end
      && match gt with Some o => list_res_eqb (goto_canon l) o | None => true end
  | JEq a b e => Bool.eqb (name_eqb a b) e
  | JSort l o => list_res_eqb (sort_defs l) o
  | JInfer l o => list_res_eqb (infer_out l) o
  | JSame l o => list_res_eqb l o
  | JGoto l o => list_res_eqb (goto_canon l) o
  | JRefs l o => list_res_eqb (refs_out l) o
  | JComp like l o => list_cres_eqb (complete_out like l) o
  | JTrace tr o => obs_eqb (run_trace tr idle_state) o
  end.
"""


class CoqJobs:
    """All model evaluations of a run are collected and evaluated once, at the end, in parallel shards."""
    def __init__(self, ctx):
        self.ctx = ctx
        self.cases, self.info, self.seen = [], [], set()
        self.terms, self.term_cb = [], []

    def add(self, name, term, what, meta=None):
        if (name, term) in self.seen:
            return
        self.seen.add((name, term))
        self.cases.append(term)
        self.info.append((name, what, meta))

    def classify(self, term, cb):
        self.terms.append(term)
        self.term_cb.append(cb)

    def run(self):
        from concurrent.futures import ThreadPoolExecutor
        n = len(self.cases)
        # every coqc pays ~10 CPU-seconds for loading the libraries: few, large shards
        shard = max(200, -(-n // (2 if self.ctx.quick else 8)))

        def ties():
            return common.coq_failing(IMPORTS, 'jcheck', self.cases, shard=shard, timeout=1200, defs=Intern.text() + JDEFS)

        def classes():
            if not self.terms:
                return [], None
            return common.coq_eval_N_lists(IMPORTS, '(fun x : list N => x)', self.terms,
                                           shard=max(10, -(-len(self.terms) // (1 if self.ctx.quick else 4))), timeout=1200, defs=Intern.text())
        with ThreadPoolExecutor(max_workers=2) as ex:
            f1, f2 = ex.submit(ties), ex.submit(classes)
            (fails, err), (vals, err2) = f1.result(), f2.result()
        cnt = {}
        for name, _, _ in self.info:
            cnt[name] = cnt.get(name, 0) + 1
        self.ctx.cov['coq_cases'] = cnt
        self.ctx.cov['coq_classifications'] = len(self.terms)
        if err or err2:
            raise RuntimeError('coq evaluation failed: %s' % (err or err2))
        for cb, v in zip(self.term_cb, vals):
            cb(v)
        per = {}
        for i in fails:
            name, what, meta = self.info[i]
            per[name] = per.get(name, 0) + 1
            if per[name] > 3:
                continue
            self.ctx.violation('obligation', dict(
                what='correspondence %s: %s - model and implementation differ (the direct oracle of this stream did not fail on it)' % (name, what),
                case=self.cases[i][:6000], defs=Intern.closure(self.cases[i][:6000]), meta=meta), nofail=True)


# =====================================================================================
# stream: xproc
# =====================================================================================
def launch_xproc(ctx, cases):
    root = os.path.join(ctx.tmp, 'xproc')
    os.makedirs(root, exist_ok=True)
    rnd_seed = str(ctx.rng.randint(2, 4294967295))
    variants = [('0', None), ('1', ctx.rng.randint(1, 10 ** 9)), ('12345', ctx.rng.randint(1, 10 ** 9)),
                (rnd_seed, ctx.rng.randint(1, 10 ** 9)), ('0', ctx.rng.randint(1, 10 ** 9))]
    if not ctx.quick:
        variants += [(str(ctx.rng.randint(2, 4294967295)), ctx.rng.randint(1, 10 ** 9)) for _ in range(3)]
    nshard = 1 if ctx.quick else max(1, min(4, common.NPROC // len(variants)))
    shards = [cases[i::nshard] for i in range(nshard)]
    procs = []
    for vi, (hs, pert) in enumerate(variants):
        for si, sh in enumerate(shards):
            if not sh:
                continue
            d = os.path.join(root, 'v%d_%d' % (vi, si))
            os.makedirs(os.path.join(d, 'cwd'), exist_ok=True)
            job = dict(perturb=pert, cwd=os.path.join(d, 'cwd'), cache=os.path.join(d, 'cache'), cases=sh)
            jf, of = os.path.join(d, 'job.json'), os.path.join(d, 'out.json')
            json.dump(job, open(jf, 'w'))
            env = common.jedi_env(hs)
            p = subprocess.Popen([common.PY, os.path.join(HERE, 'c16.py'), '--worker', jf, of], env=env,
                                 stdout=subprocess.DEVNULL, stderr=subprocess.PIPE, cwd=os.path.join(d, 'cwd'))
            procs.append((vi, si, p, of))
    return variants, procs


def collect_xproc(procs, nvar, timeout):
    res = [dict() for _ in range(nvar)]
    t_end = time.time() + timeout
    for vi, si, p, of in procs:
        try:
            _, err = p.communicate(timeout=max(5, t_end - time.time()))
        except subprocess.TimeoutExpired:
            p.kill()
            raise RuntimeError('xproc worker v%d/%d timed out' % (vi, si))
        if p.returncode != 0 or not os.path.exists(of):
            raise RuntimeError('xproc worker v%d/%d failed: %s' % (vi, si, (err or b'').decode('utf8', 'replace')[-1500:]))
        res[vi].update(json.load(open(of)))
    return res


def final_view(method, rec, ist=lambda x: 0):
    """what is compared between processes / between a repeated and a fresh query"""
    if not rec['ok']:
        return ('exc', rec['exc'].get('exc'), rec['exc'].get('site'))
    if method in ('complete', 'complete_fuzzy', 'complete_search'):
        return ('ok', json.dumps([rec['final'], rec.get('types')], sort_keys=True))
    if method in ('syntax_errors', 'analysis'):
        return ('ok', json.dumps(rec['final']))
    items = [json.dumps([r[0], r[1], r[2], r[4]] + r[5:], sort_keys=True) for r in rec['final']]
    if method in UNORDERED:
        items = sorted(items)
    return ('ok', json.dumps(items))


def tie_cases_from(coq, stream, method, rec, meta):
    """Gallina cases tying one observed query to the model"""
    if not rec['ok']:
        return
    pay, ist = Numbering(), Numbering()
    calls = rec.get('calls', [])
    for call in calls:
        if not all(res_ok(r) for r in call['inp'] + call['out'] + call['pre']):
            continue
        gi, go = g_reslist(call['inp'], pay, ist), g_reslist(call['out'], pay, ist)
        coq.add(stream + '-sort', '(JSort %s %s)' % (gi, go),
                'captured helpers.sorted_definitions input/output vs sort_defs', meta)
        if call['kind'] == 'set':
            coq.add(stream + '-infer', '(JInfer %s %s)' % (g_reslist(call['pre'], pay, ist), go),
                    'captured enumeration of Script.infer before set() vs infer_out', meta)
    if method in ('infer', 'refs', 'refs_file') and calls and all(res_ok(r) for r in rec['final'] + calls[-1]['out']):
        coq.add(stream + '-same', '(JSame %s %s)' % (g_reslist(calls[-1]['out'], pay, ist), g_reslist(rec['final'], pay, ist)),
                'the list returned by infer/get_references is the output of the ordering step', meta)
    if method in ('goto', 'goto_fi') and calls and calls[-1]['kind'] == 'list' \
            and all(res_ok(r) for r in rec['final'] + calls[-1]['inp']):
        fin = sorted(rec['final'], key=key_of)
        coq.add(stream + '-goto', '(JGoto %s %s)' % (g_reslist(calls[-1]['inp'], pay, ist), g_reslist(fin, pay, ist)),
                'Script.goto result (as a set) vs goto_canon of the captured enumeration', meta)
    if 'comp' in rec:
        cp = rec['comp']
        cpay = Numbering()
        gi = g_list([g_cres(e[1], e[2], e[3], cpay) for e in cp['enum']], lambda x: x, 'cres')
        go = g_list([g_cres(o[0], False, o[2], cpay) for o in rec['final']], lambda x: x, 'cres')
        coq.add(stream + '-complete', '(JComp %s %s %s)' % (gi_str(cp['like']), gi, go),
                'Script.complete result vs complete_out of the names handed to filter_names', meta)


def classify_difference(method, rec_a, rec_b):
    """A Gallina term (list N of five flags) explaining a difference between two observations of the
    same query by the enumeration order, or None when the model has nothing to say.
    flags: same multiset of enumerated results; model output = observed (a); (b);
           key tie / no ordering step; survivor ambiguity"""
    if not (rec_a['ok'] and rec_b['ok']):
        return None
    b2n = lambda e: '(if %s then 1%%N else 0%%N)' % e
    if method in ('complete', 'complete_fuzzy'):
        if 'comp' not in rec_a or 'comp' not in rec_b or rec_a['comp']['like'] != rec_b['comp']['like']:
            return None
        cpay = Numbering()
        like = gi_str(rec_a['comp']['like'])
        e1 = g_list([g_cres(e[1], e[2], e[3], cpay) for e in rec_a['comp']['enum']], lambda x: x, 'cres')
        e2 = g_list([g_cres(e[1], e[2], e[3], cpay) for e in rec_b['comp']['enum']], lambda x: x, 'cres')
        o1 = g_list([g_cres(o[0], False, o[2], cpay) for o in rec_a['final']], lambda x: x, 'cres')
        o2 = g_list([g_cres(o[0], False, o[2], cpay) for o in rec_b['final']], lambda x: x, 'cres')
        return '[%s; %s; %s; %s; %s]' % (
            b2n('same_cmultiset %s %s' % (e1, e2)), b2n('list_cres_eqb (complete_out %s %s) %s' % (like, e1, o1)),
            b2n('list_cres_eqb (complete_out %s %s) %s' % (like, e2, o2)), b2n('has_key_tie %s %s' % (like, e1)),
            b2n('csurvivor_ambiguous %s' % e1))
    pay, ist = Numbering(), Numbering()
    # inference-state ids differ between Scripts/processes: one state per observation
    ist_a, ist_b = (lambda x: 0), (lambda x: 0)
    if method == 'signatures':
        if not all(res_ok(r) for r in rec_a['final'] + rec_b['final']):
            return None
        f1 = [r[:4] + [[r[4]] + r[5:]] for r in rec_a['final']]
        f2 = [r[:4] + [[r[4]] + r[5:]] for r in rec_b['final']]
        return '[%s; 1%%N; 1%%N; 1%%N; 0%%N]' % b2n('same_multiset %s %s' % (g_reslist(f1, pay, ist_a), g_reslist(f2, pay, ist_b)))
    ca, cb = rec_a.get('calls') or [], rec_b.get('calls') or []
    if not ca or not cb or ca[-1]['kind'] != cb[-1]['kind']:
        return None
    a, b = ca[-1], cb[-1]
    if not all(res_ok(r) for r in a['pre'] + a['inp'] + a['out'] + b['pre'] + b['inp'] + b['out'] + rec_a['final'] + rec_b['final']):
        return None
    if a['kind'] == 'set':
        e1, e2 = g_reslist(a['pre'], pay, ist_a), g_reslist(b['pre'], pay, ist_b)
        m1 = 'list_res_eqb (infer_out %s) %s' % (e1, g_reslist(rec_a['final'] if method not in UNORDERED else a['out'], pay, ist_a))
        m2 = 'list_res_eqb (infer_out %s) %s' % (e2, g_reslist(rec_b['final'] if method not in UNORDERED else b['out'], pay, ist_b))
    elif method in UNORDERED:
        e1, e2 = g_reslist(a['inp'], pay, ist_a), g_reslist(b['inp'], pay, ist_b)
        m1 = 'list_res_eqb (goto_canon %s) %s' % (e1, g_reslist(sorted(rec_a['final'], key=key_of), pay, ist_a))
        m2 = 'list_res_eqb (goto_canon %s) %s' % (e2, g_reslist(sorted(rec_b['final'], key=key_of), pay, ist_b))
    else:
        e1, e2 = g_reslist(a['inp'], pay, ist_a), g_reslist(b['inp'], pay, ist_b)
        m1 = 'list_res_eqb (refs_out %s) %s' % (e1, g_reslist(rec_a['final'], pay, ist_a))
        m2 = 'list_res_eqb (refs_out %s) %s' % (e2, g_reslist(rec_b['final'], pay, ist_b))
    return '[%s; %s; %s; 0%%N; %s]' % (b2n('same_multiset %s %s' % (e1, e2)), b2n(m1), b2n(m2),
                                       b2n('survivor_ambiguous %s' % e1))


def report_differences(ctx, coq, stream, diffs):
    """diffs: list of dict(method, case, query, rec_a, rec_b, cls, extra).  Each difference is classified by the
    model (evaluated with everything else at the end of the run) and then reported."""
    def report(d, f):
        predicted = bool(f and f[0] and f[1] and f[2] and (f[3] or f[4]))
        mech = 'none'
        if f:
            mech = '+'.join(m for m, on in (('key-tie', f[3]), ('survivor', f[4])) if on) or 'none'
            if d['method'] == 'signatures':
                mech = 'no-ordering-step'
        m = d['method']
        fam = {'complete_fuzzy': 'complete', 'goto_fi': 'goto', 'refs_file': 'refs'}.get(m, m)
        sig = dict(cls='enumeration-order' if predicted else d.get('cls', 'result-differs'), method=fam,
                   mechanism=mech, predicted=predicted)
        fm = d.get('extra', {}).get('flow_mode')
        if fm and not predicted:
            sig = dict(cls=d['cls'], method=fam, mechanism='memo-other-flow-mode',
                       predicted=bool(fm['between'] and fm['modes_differ']))
        memo = d.get('extra', {}).get('memo')
        if memo and not predicted:
            internal = memo['fresh_exception'] != 'ValueError' or 'api/helpers.py' not in str(memo['fresh_site'])
            sig = dict(cls=d['cls'], method=fam, mechanism='memo-default-after-exception',
                       predicted=bool(internal and memo['engine_exception_raised_earlier_on_this_script']),
                       fresh_exception=memo['fresh_exception'], fresh_site=memo['fresh_site'])
        data = dict(stream=stream, method=m, source=d['case']['source'], path=d['case']['path'],
                    files=d['case'].get('files'), line=d['query'][1], column=d['query'][2], model_flags=f,
                    observed_a=d['rec_a'].get('final', d['rec_a'].get('exc')),
                    observed_b=d['rec_b'].get('final', d['rec_b'].get('exc')), **d.get('extra', {}))
        if m in ('complete', 'complete_fuzzy'):
            data['types_a'], data['types_b'] = d['rec_a'].get('types'), d['rec_b'].get('types')
        what = ('%s: Script.%s at %d:%d gives different results %s' % (
            stream, m, d['query'][1], d['query'][2],
            'for two enumeration orders of the same engine results (model: %s)' % mech if predicted
            else ('- the query raises %s on a fresh Script but behaves differently after an engine exception was raised earlier on this Script '
                  '(recursion default left in the memo)' % sig.get('fresh_exception')
                  if sig.get('mechanism') == 'memo-default-after-exception' and sig['predicted']
                  else ('- the result lies between the results with flow analysis held on and held off: memo entries written '
                        'while find_references had flow analysis switched off (or before it) are reused across the switch'
                        if sig.get('mechanism') == 'memo-other-flow-mode' and sig['predicted']
                        else '- NOT explained by the enumeration order of the same results'))))
        ctx.deviation(sig, data, what)

    for d in diffs:
        t = classify_difference(d['method'], d['rec_a'], d['rec_b'])
        if t is None:
            report(d, None)
        else:
            coq.classify(t, (lambda v, d=d: report(d, v)))


def analyse_xproc(ctx, coq, cases, variants, results):
    diffs = []
    dist = {}
    n_multi = 0
    for case in cases:
        for qi, q in enumerate(case['queries']):
            key = '%d:%d' % (case['id'], qi)
            recs = [r.get(key) for r in results]
            if any(r is None for r in recs):
                raise RuntimeError('xproc: missing result for ' + key)
            method = q[0]
            views = [final_view(method, r) for r in recs]
            nres = len(recs[0].get('final', [])) if recs[0]['ok'] else -1
            d = dist.setdefault(method, dict(n=0, failing=0, multi=0))
            d['n'] += 1
            d['failing'] += not recs[0]['ok']
            d['multi'] += nres >= 2
            n_multi += nres >= 2
            ctx.count('xproc', (case['source'], case['path'] is not None, q), nontrivial=nres >= 2, n=len(recs))
            for r in recs:
                tie_cases_from(coq, 'xproc', method, r, dict(source=case['source'], path=case['path'], query=q))
            base = views[0]
            for vi in range(1, len(views)):
                if views[vi] != base:
                    ra, rb = recs[0], recs[vi]
                    cls = 'result-differs'
                    if ra['ok'] != rb['ok'] or not ra['ok']:
                        cls = 'raise-differs'
                    diffs.append(dict(method=method, case=case, query=q, rec_a=ra, rec_b=rb, cls=cls,
                                      extra=dict(variant_a=dict(hashseed=variants[0][0], perturb=variants[0][1]),
                                                 variant_b=dict(hashseed=variants[vi][0], perturb=variants[vi][1]))))
                    break      # one report per query
    ctx.stat('xproc_methods', dist)
    ctx.stat('xproc_variants', [dict(hashseed=h, perturb=p) for h, p in variants])
    ctx.stat('xproc_differing_queries', len(diffs))
    report_differences(ctx, coq, 'xproc', diffs)
    for case in cases:
        for qi, q in enumerate(case['queries']):
            r = results[0]['%d:%d' % (case['id'], qi)]
            if r['ok'] and len(r.get('final', [])) >= 2 and q[0] == 'infer':
                ctx.sample(dict(stream='xproc', method=q[0], line=q[1], column=q[2], source_tail=case['source'][-160:],
                                result=[x[:3] for x in r['final']], identical_in_processes=len(results)))
                return


# =====================================================================================
# stream: repeat + transients (forked workers; hooks installed in the worker only)
# =====================================================================================
class Tr:
    installed = False
    force_flow = None       # None, or the value every read of flow_analysis_enabled returns (oracle variants)
    log = []
    on = False
    ids = {}
    contexts = []

    @staticmethod
    def nid(o):
        k = id(o)
        if k not in Tr.ids:
            Tr.ids[k] = (len(Tr.ids), o)     # keep the object alive so that ids stay unique
        return Tr.ids[k][0]

    @staticmethod
    def ev(*e):
        if Tr.on:
            Tr.log.append(e)


def install_tracing():
    if Tr.installed:
        return
    Tr.installed = True
    import weakref
    from jedi.inference import InferenceState, recursion, context as ctxmod

    def flagprop(attr, evname):
        priv = '_c16_' + attr

        def get(self):
            if evname == 'Flow' and Tr.force_flow is not None:
                return Tr.force_flow
            return self.__dict__[priv]

        def set_(self, v):
            old = self.__dict__.get(priv)
            self.__dict__[priv] = v
            if evname == 'dyn':
                if old is not None and v == old + 1:
                    Tr.ev('DynInc')
                elif old is not None and v == old - 1:
                    Tr.ev('DynDec')
                else:
                    Tr.ev('DynSet', v)
            else:
                Tr.ev(evname, bool(v))
        return property(get, set_)
    InferenceState.flow_analysis_enabled = flagprop('flow_analysis_enabled', 'Flow')
    InferenceState.is_analysis = flagprop('is_analysis', 'Ana')
    InferenceState.dynamic_params_depth = flagprop('dynamic_params_depth', 'dyn')

    orig_reset = InferenceState.reset_recursion_limitations

    def reset(self):
        orig_reset(self)
        Tr.ev('Reset')
    InferenceState.reset_recursion_limitations = reset

    class TList(list):
        def append(self, x):
            list.append(self, x)
            Tr.ev('RecPush', Tr.nid(x))

        def pop(self, *a):
            r = list.pop(self, *a)
            Tr.ev('RecPop')
            return r

    orig_rd = recursion.RecursionDetector.__init__

    def rd_init(self):
        orig_rd(self)
        self.pushed_nodes = TList(self.pushed_nodes)
    recursion.RecursionDetector.__init__ = rd_init

    orig_push = recursion.ExecutionRecursionDetector.push_execution
    orig_pop = recursion.ExecutionRecursionDetector.pop_execution

    def push(self, execution):
        Tr.ev('ExPush', Tr.nid(execution.tree_node))
        return orig_push(self, execution)

    def pop(self):
        Tr.ev('ExPop')
        return orig_pop(self)
    recursion.ExecutionRecursionDetector.push_execution = push
    recursion.ExecutionRecursionDetector.pop_execution = pop

    class TDict(dict):
        def __init__(self, owner):
            dict.__init__(self)
            self.owner = owner

        def __setitem__(self, k, v):
            dict.__setitem__(self, k, v)
            Tr.ev('PreSet', self.owner, Tr.nid(k))

        def __delitem__(self, k):
            dict.__delitem__(self, k)
            Tr.ev('PreDel', self.owner, Tr.nid(k))

        def pop(self, k, *a):
            had = k in self
            r = dict.pop(self, k, *a)
            if had:
                Tr.ev('PreDel', self.owner, Tr.nid(k))
            return r

    orig_ci = ctxmod.AbstractContext.__init__

    def ci(self, inference_state):
        orig_ci(self, inference_state)
        d = TDict(Tr.nid(self))
        self.predefined_names = d
        self._c16_pre = d
        Tr.contexts.append(weakref.ref(self))
    ctxmod.AbstractContext.__init__ = ci


def read_transients(script):
    st = script._inference_state
    rd, ed = st.recursion_detector, st.execution_recursion_detector
    pre, swapped = [], 0
    live = []
    for w in Tr.contexts:
        c = w()
        if c is None:
            continue
        live.append(w)
        if c.inference_state is not st:
            continue
        d = c.__dict__.get('predefined_names')
        if d is not c.__dict__.get('_c16_pre'):
            swapped += 1          # lazy_value's monkeypatch(context, 'predefined_names', ...) not undone
        for k in (d or {}):
            pre.append([Tr.nid(c), Tr.nid(k)])
    Tr.contexts[:] = live
    return dict(flow=bool(st.flow_analysis_enabled), ana=bool(st.is_analysis),
                rec=[Tr.nid(n) for n in reversed(rd.pushed_nodes)], exlvl=ed._recursion_level,
                exstk=[Tr.nid(n) for n in reversed(ed._parent_execution_funcs)], pre=sorted(pre),
                dyn=st.dynamic_params_depth, swapped=swapped)


FP_EXPECTED = {
    "jedi/api/helpers.py:sorted_definitions": "71c8dd6e3b316cac",
    "jedi/api/classes.py:Name.__eq__": "c6c2581feb200f1b",
    "jedi/api/classes.py:Name.__hash__": "9a63d241084d7e0e",
    "jedi/api/classes.py:BaseName.line": "cf081a7c95d562a6",
    "jedi/api/classes.py:BaseName.column": "8bf96483e73bb874",
    "jedi/api/classes.py:BaseName.module_path": "6bdb4e3d8ac8fd0d",
    "jedi/api/__init__.py:Script.infer": "65ab49d55f6f8191",
    "jedi/api/__init__.py:Script.goto": "9d400157a7f69c92",
    "jedi/api/__init__.py:Script.get_references": "ea411c0321d508e5",
    "jedi/api/__init__.py:Script.get_signatures": "ad3ec1897977371e",
    "jedi/api/__init__.py:Script._analysis": "3f5a3fa6ac3bf1a5",
    "jedi/api/completion.py:Completion.complete": "3747374f6b35dcab",
    "jedi/api/completion.py:filter_names": "154450354571d473",
    "jedi/inference/references.py:find_references": "36a783259b902a62",
    "jedi/inference/context.py:AbstractContext.predefine_names": "ffa21e5a72cacb85",
    "jedi/inference/recursion.py:execution_allowed": "60b71c1bb8abe0ed",
    "jedi/inference/recursion.py:execution_recursion_decorator": "6c60662bd3c25cfa",
    "jedi/inference/__init__.py:InferenceState.reset_recursion_limitations": "beb0afd7c566cf14",
    "jedi/inference/cache.py:_memoize_default": "e989747e3942b7cd"
}

IDLE = dict(flow=True, ana=False, rec=[], exlvl=0, exstk=[], pre=[], dyn=0, swapped=0)
MAX_TRACE = 250


def run_traced(script, method, line, col, root):
    state = {}

    def before():
        state['before'] = read_transients(script)
        Tr.log = []
        Tr.on = True

    def after(raised):
        state['after'] = read_transients(script)
        if raised and state['after'] != IDLE:
            import gc
            gc.collect()        # exception <-> frame cycles
            state['after'] = read_transients(script)
        Tr.on = False
        state['trace'] = Tr.log
        Tr.log = []
    rec = run_one(script, method, line, col, root, before, after)
    tr = state.get('trace', [])
    rec['before'], rec['after'] = state.get('before'), state.get('after')
    rec['trace_len'] = len(tr)
    rec['trace'] = tr if len(tr) <= MAX_TRACE else None
    return rec


def _repeat_task(task):
    case, pool, schedules = task['case'], task['pool'], task['schedules']
    import jedi
    install_capture()
    install_tracing()
    root = case['root']
    out = dict(fresh=[], pairs=[], scheds=[], fresh_on=[], fresh_off=[])
    try:
        for (m, ln, c) in pool:
            out['fresh'].append(run_traced(make_script(case), m, ln, c, root))
        # the same queries with flow analysis held on / held off for the whole query: the two pure modes between
        # which a result assembled from memo entries of mixed origin must lie (C16_memo_ignores_flow_mode_refuted)
        for mode, key in ((True, 'fresh_on'), (False, 'fresh_off')):
            out[key] = []
            for (m, ln, c) in pool:
                Tr.force_flow = mode
                try:
                    out[key].append(slim(run_one(make_script(case), m, ln, c, root)))
                finally:
                    Tr.force_flow = None
        n = len(pool)
        for i in range(n):
            for j in range(n):
                if (i, j) not in task['pairs']:
                    continue
                s = make_script(case)
                r1 = run_traced(s, *pool[i], root)
                r2 = run_traced(s, *pool[j], root)
                out['pairs'].append((i, j, slim(r1), slim(r2)))
        for sch in schedules:
            s = make_script(case)
            rs = []
            for qi in sch:
                rs.append(slim(run_traced(s, *pool[qi], root)))
            out['scheds'].append(rs)
    except Exception as e:
        out['error'] = exc_sig(e)
    return out


def slim(rec):
    """keep the captured enumerations only where they may be needed (>= 2 results)"""
    if rec.get('ok') and len(rec.get('final', [])) < 2 and 'comp' not in rec:
        rec = dict(rec)
        rec['calls'] = [c for c in rec.get('calls', []) if len(c['inp']) >= 2 or len(c['pre']) >= 2]
    return rec


def g_obs(st):
    return '(%s, %s, %s, %s, %s, %s, %s)' % (
        g_bool(st['flow']), g_bool(st['ana']), g_list(st['rec'], g_N, 'N'), g_N(st['exlvl']),
        g_list(st['exstk'], g_N, 'N'), g_list(st['pre'], lambda p: '(%s, %s)' % (g_N(p[0]), g_N(p[1])), 'N * N'),
        g_N(st['dyn']))


def g_event(e):
    k = e[0]
    if k == 'Reset':
        return 'EReset'
    if k == 'Flow':
        return 'EFlow %s' % g_bool(e[1])
    if k == 'Ana':
        return 'EAna %s' % g_bool(e[1])
    if k == 'RecPush':
        return 'ERecPush %s' % g_N(e[1])
    if k == 'RecPop':
        return 'ERecPop'
    if k == 'ExPush':
        return 'EExPush %s' % g_N(e[1])
    if k == 'ExPop':
        return 'EExPop'
    if k == 'PreSet':
        return 'EPreSet %s %s' % (g_N(e[1]), g_N(e[2]))
    if k == 'PreDel':
        return 'EPreDel %s %s' % (g_N(e[1]), g_N(e[2]))
    if k == 'DynInc':
        return 'EDynInc'
    if k == 'DynDec':
        return 'EDynDec'
    return None


def make_repeat_tasks(ctx, cases):
    rng = ctx.rng
    tasks = []
    for case in cases:
        qs = [q for q in case['queries']]
        lines = case['source'].split('\n')
        by_m = {}
        for q in qs:
            by_m.setdefault(q[0], []).append(q)
        fam = []
        # one query of several families (so that different methods meet each other) ...
        for m in ('infer', 'refs', 'complete', 'goto', 'signatures', 'help', 'names_all'):
            if m in by_m:
                fam.append(tuple(rng.choice(by_m[m])))
        # ... deliberately failing queries: an out-of-range position (ValueError from the position check) ...
        failing = [(rng.choice(['infer', 'goto', 'refs', 'complete', 'signatures']), len(lines) + 5, 0)]
        if rng.random() < 0.3:
            failing.append((rng.choice(['infer', 'help']), 1, 10 ** 6))
        # ... and queries that raise from deep inside the engine (crash corner): K2 on `kk.real`, through
        # predefine_names (`cmp[0]`, `gv`), through a function execution (`bv`), K1/K3/K4 at a crash tail
        deep = []
        for i, ln in enumerate(lines, 1):
            if ln == 'kk.real':
                deep.append((rng.choice(['infer', 'refs', 'goto_fi', 'help']), i, rng.choice([0, 1, 4, 6])))
            if ln == 'cmp[0]':
                deep.append(('infer', i, 1))
            if ln == '    gv':
                deep.append(('infer', i, 4))
            if ln == 'bv':
                deep.append(('infer', i, 0))
        if lines[-1].endswith('.'):
            deep.append(('complete', len(lines), len(lines[-1])))
        deep = rng.sample(deep, min(len(deep), 3))
        rng.shuffle(fam)
        pool = failing + deep
        pool += fam[:8 - len(pool)]
        rest = [tuple(q) for q in qs if tuple(q) not in pool]
        rng.shuffle(rest)
        pool = (pool + rest)[:8]
        if rng.random() < 0.35 and len(pool) == 8:
            pool[rng.randrange(len(failing) + len(deep), 8)] = ('analysis', 0, 0)     # Script._analysis toggles is_analysis
        rng.shuffle(pool)
        n = len(pool)
        allp = [(i, j) for i in range(n) for j in range(n)]
        pairs = allp if not ctx.quick else rng.sample(allp, min(len(allp), 40))
        scheds = []
        for _ in range(ctx.n(3, 8)):
            k = rng.random()
            if k < 0.4:
                s = list(range(n))
                rng.shuffle(s)                     # a permutation of all queries
            else:
                s = [rng.randrange(n) for _ in range(rng.randint(4, 16))]   # with repetitions
            scheds.append(s)
        tasks.append(dict(case=case, pool=pool, pairs=set(pairs), schedules=scheds))
    tasks += directed_budget_tasks(ctx)
    return tasks


BUDGET_SOURCES = [
    # nine call sites of ONE function / ONE method: each query executes it once (or, for the fluent chain, up to
    # three times); per-query budgets (ExecutionRecursionDetector) must be per query, not per Script
    ("class Q:\n    def where(self, n):\n        return self\n\n\ndef base():\n    return Q()\n\n\n"
     + ''.join("r%d = base().where(%d).where(%d)\n" % (i, i, i + 1) for i in range(1, 10))
     + ''.join("r%d\n" % i for i in range(1, 10))),
    ("def mk(v):\n    return v\n\n\nclass A:\n    pass\n\n\n"
     + ''.join("a%d = mk(A())\n" % i for i in range(1, 10))
     + ''.join("a%d\n" % i for i in range(1, 10))),
]


def directed_budget_tasks(ctx):
    """Directed: >= 8 DIFFERENT queries on one Script that all execute the same user function, in order, reversed and
    shuffled - the answer to each must be the fresh-Script answer whatever was asked before."""
    tasks = []
    for k, src in enumerate(BUDGET_SOURCES):
        lines = src.split('\n')
        uses = [i for i, ln in enumerate(lines, 1) if re.fullmatch(r'[ra]\d', ln)]
        pool = [('infer', ln, 1) for ln in uses[:8]]
        n = len(pool)
        order = list(range(n))
        sh = order[:]
        ctx.rng.shuffle(sh)
        case = dict(id='budget%d' % k, root=None, path=None, source=src, queries=pool)
        tasks.append(dict(case=case, pool=pool, pairs={(i, i) for i in range(0, n, 3)},
                          schedules=[order, order[::-1], sh, order + order]))
    return tasks


def analyse_repeat(ctx, coq, tasks, results):
    diffs = []
    trace_metas = []
    stats = dict(queries=0, raising=0, failing_kinds={}, long_traces=0, traced=0, nonidle=0, max_trace=0)

    def check_transients(task, q, rec, where):
        stats['queries'] += 1
        if not rec['ok']:
            stats['raising'] += 1
            k = rec['exc'].get('exc')
            stats['failing_kinds'][k] = stats['failing_kinds'].get(k, 0) + 1
        bef, aft = rec.get('before'), rec.get('after')
        if bef is None or aft is None:
            return
        ctx.count('transients', (task['case']['source'], q, where, rec['ok']), nontrivial=not rec['ok'] or rec['trace_len'] > 2)
        stats['max_trace'] = max(stats['max_trace'], rec['trace_len'])
        if aft != bef or aft != IDLE:
            stats['nonidle'] += 1
            changed = sorted(k for k in aft if aft[k] != bef.get(k))
            ctx.deviation(dict(stream='transients', cls='transient-not-restored', fields=','.join(changed),
                               raised=not rec['ok'], method=q[0]),
                          dict(source=task['case']['source'], path=task['case']['path'], files=task['case'].get('files'),
                               query=q, where=where, before=bef, after=aft, outcome=rec.get('exc', 'returned')),
                          'after Script.%s (%s) the transient state %s differs from the state before' % (
                              q[0], 'raised %s' % rec['exc'].get('exc') if not rec['ok'] else 'returned', changed))
        if rec.get('trace') is None:
            stats['long_traces'] += 1
            return
        evs = [g_event(e) for e in rec['trace']]
        if any(e is None for e in evs):
            ctx.violation('obligation', dict(what='transients: a write the model has no event for was observed',
                                             events=[e for e in rec['trace'] if g_event(e) is None][:5], query=q), nofail=True)
            return
        stats['traced'] += 1
        meta = dict(source=task['case']['source'], query=q, where=where, after=aft, n_events=len(evs))
        coq.add('transients-trace', '(JTrace %s %s)' % (g_list(evs, lambda x: x, 'event'), g_obs(aft)),
                'the writes recorded during a query, replayed by run_trace from the idle state, give the transient '
                'state read back after it', meta)
        trace_metas.append(meta)

    for task, res in zip(tasks, results):
        if 'error' in res:
            raise RuntimeError('repeat worker failed: %r' % (res['error'],))
        pool, case = task['pool'], task['case']
        fresh = res['fresh']
        fviews = [final_view(q[0], r) for q, r in zip(pool, fresh)]
        for q, r in zip(pool, fresh):
            check_transients(task, q, r, 'fresh')
            tie_cases_from(coq, 'repeat', q[0], r, dict(source=case['source'], path=case['path'], query=q))

        def compare(qi, rec, where, prior):
            q = pool[qi]
            check_transients(task, q, rec, where)
            tie_cases_from(coq, 'repeat', q[0], rec, dict(source=case['source'], path=case['path'], query=q, history=where))
            v = final_view(q[0], rec)
            nres = len(rec.get('final', [])) if rec['ok'] else -1
            ctx.count('repeat', (case['source'], q, where), nontrivial=nres >= 2 or not rec['ok'])
            if v != fviews[qi]:
                fr = fresh[qi]
                cls, extra = 'repeat-differs', dict(history=where)
                if fr['ok'] != rec['ok']:
                    cls = 'repeat-raise-vs-result'
                    if not fr['ok']:
                        # the model's memo machine (C16_memo_default_survives_exception_refuted): an exception that
                        # crossed _memoize_default left the recursion default behind; the query that raised on a
                        # fresh Script now reads that default and returns
                        e = (fr['exc'].get('exc'), fr['exc'].get('site'))
                        extra['memo'] = dict(fresh_exception=e[0], fresh_site=e[1],
                                             engine_exception_raised_earlier_on_this_script=sorted(map(str, prior)))
                elif not fr['ok']:
                    cls = 'repeat-different-exception'
                    e = (fr['exc'].get('exc'), fr['exc'].get('site'))
                    extra['memo'] = dict(fresh_exception=e[0], fresh_site=e[1],
                                         engine_exception_raised_earlier_on_this_script=sorted(map(str, prior)))
                else:
                    lo, hi = res['fresh_on'][qi], res['fresh_off'][qi]
                    if lo['ok'] and hi['ok'] and q[0] not in ('complete', 'complete_fuzzy', 'complete_search', 'syntax_errors', 'analysis'):
                        idn = lambda rr: {json.dumps([r[0], r[1], r[2]]) for r in rr['final']}
                        extra['flow_mode'] = dict(between=idn(lo) <= idn(rec) <= idn(hi), modes_differ=idn(lo) != idn(hi),
                                                  flow_on=sorted(idn(lo)), flow_off=sorted(idn(hi)))
                diffs.append(dict(method=q[0], case=case, query=q, rec_a=fr, rec_b=rec, cls=cls, extra=extra))
            if not rec['ok'] and not (rec['exc'].get('exc') == 'ValueError' and 'api/helpers.py' in str(rec['exc'].get('site'))):
                # an exception from inside the engine (the position check of validate_line_column is not one)
                prior.add((rec['exc'].get('exc'), rec['exc'].get('site')))
        for (i, j, r1, r2) in res['pairs']:
            prior = set()
            compare(i, r1, 'first on a new Script', prior)
            compare(j, r2, 'after %s' % (list(pool[i]),), prior)
        for sch, rs in zip(task['schedules'], res['scheds']):
            prior = set()
            for k, (qi, r) in enumerate(zip(sch, rs)):
                compare(qi, r, 'after %s' % ([list(pool[x]) for x in sch[:k]][-8:],), prior)
    # one report per (case, query, class)
    uniq, keep = set(), []
    for d in diffs:
        k = (d['case']['id'], tuple(d['query']), d['cls'])
        if k not in uniq:
            uniq.add(k)
            keep.append(d)
    ctx.stat('repeat', dict(stats, differing=len(keep)))
    report_differences(ctx, coq, 'repeat', keep)
    if trace_metas:
        m = max(trace_metas, key=lambda x: x['n_events'])
        ctx.sample(dict(stream='transients', query=m['query'], events=m['n_events'], state_after=m['after']))


# =====================================================================================
def setup_volumes(ctx):
    fps = common.fingerprint(FP)
    ctx.cov['fingerprints'] = fps
    changed = sorted(k for k, v in fps.items() if FP_EXPECTED.get(k) != v)
    ctx.intensify = bool(changed)
    ctx.cov['intensified'] = changed
    # change-directed intensification (DESIGN §2): an edited anchor gets thorough-tier correspondence volume
    ctx.vol = lambda q, t: t if (ctx.intensify or not ctx.quick) else q


def run(ctx):
    common.setup_jedi(os.path.join(ctx.tmp, 'cache'))
    t0 = time.time()
    setup_volumes(ctx)
    ctx.cov['rule'] = (
        'stub: all enumerations of length <= 2 over 36 stub results + seeded lists (<= 8, shuffles, incoherent payloads); '
        'pipeline: seeded stub engine results through Script.infer/goto/get_references/complete; '
        'xproc: corpus + generated projects (sibling modules, ternaries, if/else of different classes, redefinitions, '
        'case-variant attributes) x sampled name positions x all query methods x {PYTHONHASHSEED 0,1,12345,seeded-random} x heap perturbation, '
        'one process per variant, one Script per case, same query sequence in every process; '
        'repeat/transients: per case a pool of <= 8 queries (out-of-range and crashing ones included): ordered pairs + '
        'permutations/repetitions on one Script vs a fresh Script; non-trivial = >= 2 results or a raising query; distinct by input')
    ctx.assumptions += [
        'which values the engine enumerates is engine behaviour: captured (Name construction, sorted_definitions and filter_names '
        'are wrapped in the worker processes), not modelled; the model covers what is done with an enumeration',
        'payload of a result = (type, description, full_name) as read through the public attributes',
        'hash/heap variation is sampled (5 process variants quick, 8 thorough), not exhaustive',
        'transient tie: traces longer than %d writes are checked by the before/after oracle only' % MAX_TRACE]
    coq = CoqJobs(ctx)
    # inputs first (deterministic in the seed), then start the separate processes, then the in-process streams
    nproj = ctx.n(5, 40)
    cases = make_cases(ctx.rng, nproj, os.path.join(ctx.tmp, 'proj'))
    ctx.stat('cases', dict(n=len(cases), with_path=sum(1 for c in cases if c['path']),
                           queries=sum(len(c['queries']) for c in cases)))
    variants, procs = launch_xproc(ctx, cases)
    rep_cases = cases if not ctx.quick else cases[:len(CORPUS)] + ctx.rng.sample(cases[len(CORPUS):], min(10, len(cases) - len(CORPUS)))
    rep_tasks = make_repeat_tasks(ctx, rep_cases)
    pipe_tasks = stream_pipeline_prepare(ctx)
    ctx.proofs()
    ctx.stat('wall_proofs', round(time.time() - t0, 1))
    t = time.time()
    stream_stub(ctx, coq)
    ctx.stat('wall_stub', round(time.time() - t, 1))
    t = time.time()
    kinds = list(pipe_tasks)
    pres = common.pmap(_pipeline_task, [(k, pipe_tasks[k]) for k in kinds], chunksize=1)
    stream_pipeline_finish(ctx, coq, pipe_tasks, dict(zip(kinds, pres)))
    ctx.stat('wall_pipeline', round(time.time() - t, 1))
    t = time.time()
    rres = common.pmap(_repeat_task, rep_tasks, chunksize=1, timeout=3000)
    analyse_repeat(ctx, coq, rep_tasks, rres)
    ctx.stat('wall_repeat', round(time.time() - t, 1))
    t = time.time()
    xres = collect_xproc(procs, len(variants), timeout=ctx.n(900, 3000))
    analyse_xproc(ctx, coq, cases, variants, xres)
    ctx.stat('wall_xproc_wait', round(time.time() - t, 1))
    t = time.time()
    coq.run()
    ctx.stat('wall_coq', round(time.time() - t, 1))


def replay(ctx, path):
    rec = json.load(open(path))
    print(json.dumps({k: v for k, v in rec.items() if k not in ('observed_a', 'observed_b', 'defs', 'case')},
                     indent=None, ensure_ascii=False)[:3000])
    common.setup_jedi(os.path.join(ctx.tmp, 'cache'))
    if rec.get('kind') == 'obligation' and rec.get('case'):
        print('model check of the recorded case now (true = model and recorded observation agree):')
        print(common.coq_show(IMPORTS, ['jcheck (%s)' % rec['case']], defs=rec.get('defs', '') + JDEFS)[-1500:])
        return 0
    enum = rec.get('enumeration') or rec.get('enumeration_2') or (rec.get('input') if isinstance(rec.get('input'), list) else None)
    if enum and rec.get('source') is None:
        from jedi.api import classes, helpers
        modules = stub_modules()
        specs = [(tuple(e[0]) if e[0] else None, e[1], e[2], e[3]) for e in enum]
        objs = [classes.Name(object, SName(sp, modules)) for sp in specs]
        back = {id(o): sp for o, sp in zip(objs, specs)}
        print('implementation now: sorted_definitions(list)      =', [back[id(o)] for o in helpers.sorted_definitions(objs)])
        print('implementation now: sorted_definitions(set(list)) =', [back[id(o)] for o in helpers.sorted_definitions(set(objs))])
        gl = g_reslist([spec_res(sp) for sp in specs], lambda x: x, lambda x: 0)
        print('model sort_defs / infer_out:')
        print(common.coq_show(IMPORTS, ['sort_defs %s' % gl, 'infer_out %s' % gl], defs=Intern.text())[-2500:])
        return 0
    src = rec.get('source')
    q = rec.get('query')
    if src is None or ('line' not in rec and not q):
        print('(nothing to re-execute for this record; re-run ./check C16)')
        return 0
    install_capture()
    case = dict(id=0, root=None, path=None, source=src, queries=[])
    if rec.get('path'):
        root = os.path.join(ctx.tmp, 'replay_project')
        for rel, txt in (rec.get('files') or {}).items():
            fp = os.path.join(root, rel)
            os.makedirs(os.path.dirname(fp), exist_ok=True)
            open(fp, 'w').write(txt)
        os.makedirs(root, exist_ok=True)
        open(os.path.join(root, 'main.py'), 'w').write(src)
        case.update(root=root, path=os.path.join(root, 'main.py'))
    if q and 'line' not in rec:
        install_tracing()
        r = run_traced(make_script(case), q[0], q[1], q[2], case['root'])
        print('implementation now: Script.%s(%s, %s) %s' % (q[0], q[1], q[2], 'raised %s' % r['exc'] if not r['ok'] else 'returned'))
        print('  transient state before:', r['before'])
        print('  transient state after: ', r['after'])
        print('  writes recorded: %d' % r['trace_len'])
        return 0
    outs = []
    keep = []
    for k in range(6):
        r = run_one(make_script(case), rec['method'], rec['line'], rec['column'], case['root'])
        outs.append(final_view(rec['method'], r))
        keep.append([object() for _ in range(997 * (k + 1))])
    print('implementation now returns (6 fresh Scripts in this process, heap shifted in between):')
    for o in sorted(set(outs)):
        print('  %d x %s' % (outs.count(o), str(o)[:700]))
    print('all equal in this process:', len(set(outs)) == 1)
    return 0
