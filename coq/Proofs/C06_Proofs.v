(* C06 proofs: grammar = print of well-formed trees, inline keeps well-formedness,
   meaning and the abstract syntax; token-level characterisation of inline. *)
From JV Require Import Model.C06_Inline.

Scheme expr_mind := Induction for expr Sort Prop
  with exprs_mind := Induction for exprs Sort Prop.
Combined Scheme expr_exprs_ind from expr_mind, exprs_mind.

Scheme D_mind := Minimality for D Sort Prop
  with DS_mind := Minimality for DS Sort Prop.
Combined Scheme D_DS_ind from D_mind, DS_mind.

(* ------------------------------------------------------------ small facts *)
Lemma wf_at_iff : forall l e, wf_at l e = true <-> l <= level e /\ wf e = true.
Proof.
  intros l e. unfold wf_at. rewrite andb_true_iff, Nat.leb_le. tauto.
Qed.

Lemma wf_at_le : forall l l' e, l' <= l -> wf_at l e = true -> wf_at l' e = true.
Proof.
  intros l l' e Hle H. apply wf_at_iff in H. apply wf_at_iff. destruct H; split; [lia|assumption].
Qed.

Lemma print_es_one : forall e, print_es (ECons e ENil) = print e.
Proof. reflexivity. Qed.

Lemma print_es_cons2 : forall e e2 es,
  print_es (ECons e (ECons e2 es)) = print e ++ TS Comma :: print_es (ECons e2 es).
Proof. reflexivity. Qed.

Lemma print_es_cons_ne : forall e es, elen es <> 0 ->
  print_es (ECons e es) = print e ++ TS Comma :: print_es es.
Proof. intros e [|e2 es] H; [exfalso; apply H; reflexivity | reflexivity]. Qed.

Lemma wf_es_cons : forall l e es, wf_es l (ECons e es) = wf_at l e && wf_es l es.
Proof. reflexivity. Qed.

Lemma bin_level_range : forall o, 6 <= bin_level o <= 11.
Proof. destruct o; cbn; lia. Qed.

(* ---------------------------------------------------------------- 1 weaken *)
Lemma D_weaken : forall l l' ts e, l' <= l -> D l ts e -> D l' ts e.
Proof.
  intros l l' ts e H. induction H; intro HD.
  - exact HD.
  - apply IHle. apply D_up. exact HD.
Qed.

(* ------------------------------------------------------- 2 print is derived *)
Ltac split_wf :=
  repeat match goal with
  | H : _ && _ = true |- _ => apply andb_true_iff in H; destruct H
  | H : (_ <=? _) = true |- _ => apply Nat.leb_le in H
  end.

Lemma D_print_mut :
  (forall e, wf e = true -> D (level e) (print e) e) /\
  (forall es l, wf_es l es = true -> DS l (print_es es) es).
Proof.
  apply expr_exprs_ind; intros; cbn [wf wf_es level print] in *; split_wf.
  - apply D_name.
  - apply D_num. apply Z.leb_le. assumption.
  - apply D_paren. eapply D_weaken; [|eauto]. assumption.
  - apply D_tup; [auto|]. apply negb_true_iff, Nat.eqb_neq in H1. assumption.
  - apply D_lst; auto.
  - apply D_lcomp; (eapply D_weaken; [|eauto]; assumption).
  - apply D_lcompif; (eapply D_weaken; [|eauto]; assumption).
  - apply D_star; (eapply D_weaken; [|eauto]; assumption).
  - apply D_tern; (eapply D_weaken; [|eauto]; assumption).
  - apply D_lam; (eapply D_weaken; [|eauto]; assumption).
  - apply D_or; (eapply D_weaken; [|eauto]; assumption).
  - apply D_and; (eapply D_weaken; [|eauto]; assumption).
  - apply D_not; (eapply D_weaken; [|eauto]; assumption).
  - apply D_cmp; (eapply D_weaken; [|eauto]; assumption).
  - apply D_bin; (eapply D_weaken; [|eauto]; assumption).
  - apply D_un; (eapply D_weaken; [|eauto]; assumption).
  - apply D_pow; (eapply D_weaken; [|eauto]; assumption).
  - apply D_call; [eapply D_weaken; [|eauto]; assumption | auto].
  - apply D_sub; (eapply D_weaken; [|eauto]; assumption).
  - apply D_attr; (eapply D_weaken; [|eauto]; assumption).
  - apply DS_nil.
  - match goal with |- DS _ (print_es (ECons _ ?es)) _ => destruct es as [|e2 es'] end.
    + apply DS_one. eapply D_weaken; [|eauto]. assumption.
    + rewrite print_es_cons2. apply DS_cons.
      * eapply D_weaken; [|eauto]. assumption.
      * auto.
Qed.

Lemma D_print : forall e l, wf_at l e = true -> D l (print e) e.
Proof.
  intros e l H. apply wf_at_iff in H. destruct H as [Hl Hw].
  eapply D_weaken; [exact Hl|]. apply (proj1 D_print_mut). assumption.
Qed.

Lemma DS_print : forall es l, wf_es l es = true -> DS l (print_es es) es.
Proof. exact (proj2 D_print_mut). Qed.

(* -------------------------------------------------- 3 derived implies print *)
Lemma D_inv_mut :
  (forall l ts e, D l ts e -> ts = print e /\ wf_at l e = true) /\
  (forall l ts es, DS l ts es -> ts = print_es es /\ wf_es l es = true).
Proof.
  apply D_DS_ind; intros;
    repeat match goal with H : _ /\ _ |- _ => destruct H end; subst;
    try (split; [reflexivity|]);
    unfold wf_at in *; cbn [wf wf_es level] in *; split_wf;
    repeat (apply andb_true_intro; split);
    try assumption; try (apply Nat.leb_le; lia).
  all: try reflexivity.
  - apply Z.leb_le; assumption.
  - apply negb_true_iff, Nat.eqb_neq; assumption.
Qed.

Lemma D_inv : forall l ts e, D l ts e -> ts = print e /\ wf_at l e = true.
Proof. exact (proj1 D_inv_mut). Qed.

Lemma DS_inv : forall l ts es, DS l ts es -> ts = print_es es /\ wf_es l es = true.
Proof. exact (proj2 D_inv_mut). Qed.

Lemma D_iff : forall l ts e, D l ts e <-> (ts = print e /\ wf_at l e = true).
Proof.
  intros l ts e. split.
  - apply D_inv.
  - intros [-> H]. apply D_print. assumption.
Qed.

Lemma DS_iff : forall l ts es, DS l ts es <-> (ts = print_es es /\ wf_es l es = true).
Proof.
  intros l ts es. split.
  - apply DS_inv.
  - intros [-> H]. apply DS_print. assumption.
Qed.

(* ----------------------------------------------------------- 5 inl / strip *)
Lemma inl_strip_mut : forall rule x r,
  (forall e pt mid pt' mid',
     strip (inl rule x r pt mid e) = inl never_rule x (strip r) pt' mid' (strip e)) /\
  (forall es pt pt',
     strip_es (inl_es rule x r pt es) = inl_es never_rule x (strip r) pt' (strip_es es)).
Proof.
  intros rule x r. apply expr_exprs_ind; intros; cbn [inl inl_es strip strip_es].
  - destruct (N.eqb x0 x); [|reflexivity].
    unfold never_rule. destruct (rule pt); reflexivity.
  - reflexivity.
  - auto.
  - f_equal; auto.
  - f_equal; auto.
  - destruct (N.eqb v x); f_equal; auto.
  - destruct (N.eqb v x); f_equal; auto.
  - f_equal; auto.
  - f_equal; auto.
  - destruct (memN x ps); cbn [strip]; f_equal; auto.
  - f_equal; auto.
  - f_equal; auto.
  - f_equal; auto.
  - f_equal; auto.
  - f_equal; auto.
  - f_equal; auto.
  - f_equal; auto.
  - f_equal; auto.
  - f_equal; auto.
  - f_equal; auto.
  - reflexivity.
  - f_equal; auto.
Qed.

Lemma inl_strip : forall rule x r e pt mid,
  strip (inl rule x r pt mid e) = subst x (strip r) (strip e).
Proof. intros. unfold subst. apply (proj1 (inl_strip_mut rule x r)). Qed.

Lemma inl_es_strip : forall rule x r es pt pt',
  strip_es (inl_es rule x r pt es) = inl_es never_rule x (strip r) pt' (strip_es es).
Proof. intros. apply (proj2 (inl_strip_mut rule x r)). Qed.

(* inl never_rule does not depend on the parent type *)
Lemma inl_never_indep : forall x r,
  (forall e pt mid pt' mid', inl never_rule x r pt mid e = inl never_rule x r pt' mid' e) /\
  (forall es pt pt', inl_es never_rule x r pt es = inl_es never_rule x r pt' es).
Proof.
  intros x r. apply expr_exprs_ind; intros; cbn [inl inl_es]; try reflexivity;
    try (f_equal; auto; fail).
Qed.

(* --------------------------------------------------------------- 6 ev/strip *)
Lemma ev_strip : forall rho e, ev rho (strip e) = ev rho e.
Proof.
  intros rho e. induction e; cbn [strip ev]; try reflexivity;
    repeat match goal with H : ev _ (strip _) = _ |- _ => rewrite H; clear H end;
    reflexivity.
Qed.

(* ------------------------------------------------------ 7 substitution lemma *)
Lemma ev_inl : forall rule rho x r v e pt mid,
  ev rho r = Some v -> ev (upd rho x v) e = ev rho (inl rule x r pt mid e).
Proof.
  intros rule rho x r v e pt mid Hr. revert pt mid.
  induction e; intros pt mid; cbn [inl ev]; try reflexivity;
    repeat match goal with
           | H : forall (pt : ptype) (mid : bool), _ = ev rho (inl _ _ _ pt mid _) |- _ =>
               rewrite <- H; clear H
           end; try reflexivity.
  - unfold upd. destruct (N.eqb x0 x); [|reflexivity].
    destruct (rule pt); cbn [ev]; symmetry; assumption.
  - destruct (memN x ps); reflexivity.
Qed.

Lemma subst_lemma : forall rho x r v e,
  ev rho r = Some v -> ev (upd rho x v) e = ev rho (subst x r e).
Proof. intros. unfold subst. apply ev_inl. assumption. Qed.

(* ---------------------------------------------------------- 10 small facts *)
Lemma new_rule_bare_slots : forall p, p <> P_dictorsetmaker -> new_rule p = false -> tightest p <= 1.
Proof.
  intros p Hp H. destruct p; try discriminate H; try (exfalso; apply Hp; reflexivity);
    cbn [tightest]; lia.
Qed.

Lemma old_rule_bare_slots : forall p, old_rule p = false -> tightest p <= 6.
Proof.
  intros p H. destruct p; try discriminate H; cbn [tightest]; lia.
Qed.

Lemma tightest_le_15 : forall p, tightest p <= 15.
Proof. destruct p; cbn [tightest]; lia. Qed.

Lemma listN_eqb_eq : forall a b, listN_eqb a b = true -> a = b.
Proof.
  induction a as [|x a IH]; destruct b as [|y b]; cbn [listN_eqb]; intro H;
    try discriminate H; [reflexivity|].
  apply andb_true_iff in H. destruct H as [H1 H2].
  apply N.eqb_eq in H1. subst. f_equal. auto.
Qed.

Lemma binop_eqb_eq : forall a b, binop_eqb a b = true -> a = b.
Proof. destruct a, b; intro H; try discriminate H; reflexivity. Qed.
Lemma unop_eqb_eq : forall a b, unop_eqb a b = true -> a = b.
Proof. destruct a, b; intro H; try discriminate H; reflexivity. Qed.
Lemma cmpop_eqb_eq : forall a b, cmpop_eqb a b = true -> a = b.
Proof. destruct a, b; intro H; try discriminate H; reflexivity. Qed.

Lemma expr_eqb_eq_mut :
  (forall a b, expr_eqb a b = true -> a = b) /\
  (forall a b, exprs_eqb a b = true -> a = b).
Proof.
  apply expr_exprs_ind; intros;
    match goal with
    | H : expr_eqb _ ?b = true |- _ => destruct b
    | H : exprs_eqb _ ?b = true |- _ => destruct b
    end; cbn [expr_eqb exprs_eqb] in *;
    try discriminate;
    repeat match goal with
           | H : _ && _ = true |- _ => apply andb_true_iff in H; destruct H
           end;
    repeat match goal with
           | H : N.eqb _ _ = true |- _ => apply N.eqb_eq in H
           | H : Z.eqb _ _ = true |- _ => apply Z.eqb_eq in H
           | H : listN_eqb _ _ = true |- _ => apply listN_eqb_eq in H
           | H : binop_eqb _ _ = true |- _ => apply binop_eqb_eq in H
           | H : unop_eqb _ _ = true |- _ => apply unop_eqb_eq in H
           | H : cmpop_eqb _ _ = true |- _ => apply cmpop_eqb_eq in H
           end; subst; try reflexivity; f_equal; auto.
Qed.

Lemma expr_eqb_eq : forall a b, expr_eqb a b = true -> a = b.
Proof. exact (proj1 expr_eqb_eq_mut). Qed.
Lemma exprs_eqb_eq : forall a b, exprs_eqb a b = true -> a = b.
Proof. exact (proj2 expr_eqb_eq_mut). Qed.

(* unfolding equations (cbn does not refold the mutual sibling of a section fixpoint) *)
Definition seq_pt (es : exprs) : ptype :=
  match es with ECons _ ENil => P_atom | _ => P_testlist_comp end.
Definition args_pt (mid : bool) (args : exprs) : ptype :=
  match args with ECons _ ENil => trailer_pt mid | _ => P_arglist end.

Lemma inl_Tup : forall rule x r pt mid es,
  inl rule x r pt mid (Tup es) = Tup (inl_es rule x r (seq_pt es) es).
Proof. reflexivity. Qed.
Lemma inl_Lst : forall rule x r pt mid es,
  inl rule x r pt mid (Lst es) = Lst (inl_es rule x r (seq_pt es) es).
Proof. reflexivity. Qed.
Lemma inl_Call : forall rule x r pt mid f args,
  inl rule x r pt mid (Call f args) =
  Call (inl rule x r P_atom_expr true f) (inl_es rule x r (args_pt mid args) args).
Proof. reflexivity. Qed.
Lemma inl_es_nil : forall rule x r pt, inl_es rule x r pt ENil = ENil.
Proof. reflexivity. Qed.
Lemma inl_es_cons : forall rule x r pt e es,
  inl_es rule x r pt (ECons e es) = ECons (inl rule x r pt false e) (inl_es rule x r pt es).
Proof. reflexivity. Qed.

Lemma seq_pt_ok : forall es, tightest (seq_pt es) = 1 /\ seq_pt es <> P_dictorsetmaker.
Proof. intros [|? [|? ?]]; split; cbn; (reflexivity || discriminate). Qed.
Lemma args_pt_ok : forall mid es, tightest (args_pt mid es) = 1 /\ args_pt mid es <> P_dictorsetmaker.
Proof. intros [|] [|? [|? ?]]; split; cbn; (reflexivity || discriminate). Qed.

(* ------------------------------------------------- 4 inline keeps the tree wf *)
Lemma elen_inl_es : forall rule x r pt es, elen (inl_es rule x r pt es) = elen es.
Proof. intros. induction es; [reflexivity|]. rewrite inl_es_cons. cbn [elen]. congruence. Qed.

Lemma tightest_ptype_of_level : forall o,
  tightest (ptype_of_level (bin_level o)) = S (bin_level o) /\
  ptype_of_level (bin_level o) <> P_dictorsetmaker.
Proof. destruct o; split; cbn; (reflexivity || discriminate). Qed.

Ltac refold_wf_at :=
  repeat match goal with
  | |- context [(?l <=? level ?a) && wf ?a] => change ((l <=? level a) && wf a) with (wf_at l a)
  | H : context [(?l <=? level ?a) && wf ?a] |- _ =>
      change ((l <=? level a) && wf a) with (wf_at l a) in H
  end.

Section InlWf.
Variable rule : ptype -> bool.
Variable x : N.
Variable r : expr.
Variable pt0 : ptype.
Hypothesis Hr : wf_at 1 r = true.
Hypothesis Hrule : forall p, p = pt0 \/ p <> P_dictorsetmaker -> rule p = false -> tightest p <= level r.

Let ok (p : ptype) := p = pt0 \/ p <> P_dictorsetmaker.

Ltac side :=
  first [ assumption
        | right; discriminate
        | right; assumption
        | cbn [tightest]; lia
        | lia ].

Lemma inl_wf_mut :
  (forall e pt mid lv, ok pt -> lv <= tightest pt ->
     wf_at lv e = true -> wf_at lv (inl rule x r pt mid e) = true) /\
  (forall es pt l, ok pt -> l <= tightest pt ->
     wf_es l es = true -> wf_es l (inl_es rule x r pt es) = true).
Proof.
  apply expr_exprs_ind; intros;
    try match goal with o : binop |- _ => pose proof (tightest_ptype_of_level o) as [? ?] end;
    try match goal with es : exprs |- _ => pose proof (seq_pt_ok es) as [? ?] end;
    try match goal with es : exprs, mid : bool |- _ => pose proof (args_pt_ok mid es) as [? ?] end;
    try match goal with mid : bool |- context [Sub] => destruct mid end;
    rewrite ?inl_Tup, ?inl_Lst, ?inl_Call, ?inl_es_cons, ?inl_es_nil;
    try match goal with H : wf_at _ _ = true |- _ => unfold wf_at in H end;
    unfold wf_at; cbn [inl trailer_pt level wf wf_es] in *.
  all: try match goal with |- context [if N.eqb ?v x then _ else _] => destruct (N.eqb v x) eqn:? end.
  all: try match goal with |- context [if memN x ?ps then _ else _] => destruct (memN x ps) eqn:? end.
  all: try match goal with |- context [if rule ?p then _ else _] => destruct (rule p) eqn:? end.
  all: cbn [level wf]; rewrite ?elen_inl_es; refold_wf_at.
  all: repeat match goal with
         | H : _ && _ = true |- _ => apply andb_true_iff in H; destruct H
         end.
  all: repeat match goal with |- _ && _ = true => apply andb_true_intro; split end;
    try assumption; try reflexivity.
  all: try match goal with
       | IH : forall pt mid lv, _ |- wf_at _ (inl _ _ _ _ _ _) = true => apply IH; side
       | IH : forall pt l, _ |- wf_es _ (inl_es _ _ _ _ _) = true => apply IH; side
       end.
  match goal with
  | Hk : ok ?p, Hf : rule ?p = false |- _ => pose proof (Hrule p Hk Hf)
  end.
  apply wf_at_iff in Hr. apply wf_at_iff. destruct Hr. split; [lia|assumption].
Qed.

Lemma inl_wf_gen : forall e pt mid lv, pt = pt0 \/ pt <> P_dictorsetmaker -> lv <= tightest pt ->
  wf_at lv e = true -> wf_at lv (inl rule x r pt mid e) = true.
Proof. exact (proj1 inl_wf_mut). Qed.

Lemma inl_es_wf_gen : forall es pt l, pt = pt0 \/ pt <> P_dictorsetmaker -> l <= tightest pt ->
  wf_es l es = true -> wf_es l (inl_es rule x r pt es) = true.
Proof. exact (proj2 inl_wf_mut). Qed.
End InlWf.

Lemma inl_wf : forall rule x r pt0, wf_at 1 r = true ->
  (forall p, p = pt0 \/ p <> P_dictorsetmaker -> rule p = false -> tightest p <= level r) ->
  forall e mid lv, lv <= tightest pt0 -> wf_at lv e = true ->
  wf_at lv (inl rule x r pt0 mid e) = true.
Proof.
  intros rule x r pt0 Hr Hrule e mid lv Hlv He.
  apply (inl_wf_gen rule x r pt0 Hr Hrule); [left; reflexivity | assumption | assumption].
Qed.

(* ---------------------------------------- 8 inline as token substitution *)
Lemma tsubst_app : forall x s a b, tsubst x s (a ++ b) = tsubst x s a ++ tsubst x s b.
Proof.
  intros x s a b. induction a as [|t a IH]; [reflexivity|].
  destruct t; cbn [tsubst app]; try (rewrite IH; reflexivity).
  destruct (N.eqb x0 x); rewrite IH; [rewrite app_assoc|]; reflexivity.
Qed.

Lemma tsubst_bind_toks : forall x s ps, tsubst x s (bind_toks ps) = bind_toks ps.
Proof.
  intros x s ps. induction ps as [|p ps IH]; [reflexivity|].
  destruct ps as [|q ps]; [reflexivity|].
  change (bind_toks (p :: q :: ps)) with (TBind p :: TS Comma :: bind_toks (q :: ps)).
  cbn [tsubst]. rewrite IH. reflexivity.
Qed.

Ltac split_nobind :=
  repeat match goal with
  | H : _ && _ = true |- _ => apply andb_true_iff in H; destruct H
  | H : negb _ = true |- _ => apply negb_true_iff in H
  end.

Section PrintInlConst.
Variable rule : ptype -> bool.
Variable x : N.
Variable r : expr.
Variable s : list token.
Hypothesis Hs : forall pt, print (if rule pt then Paren r else r) = s.

Lemma print_inl_const_mut :
  (forall e pt mid, nobind x e = true ->
     print (inl rule x r pt mid e) = tsubst x s (print e)) /\
  (forall es pt, nobind_es x es = true ->
     print_es (inl_es rule x r pt es) = tsubst x s (print_es es)).
Proof.
  apply expr_exprs_ind; intros;
    rewrite ?inl_Tup, ?inl_Lst, ?inl_Call, ?inl_es_cons, ?inl_es_nil;
    cbn [inl nobind nobind_es] in *; split_nobind;
    repeat match goal with H : N.eqb _ x = false |- _ => rewrite H; clear H
                      | H : memN x _ = false |- _ => rewrite H; clear H end.
  22: {
    match goal with |- context [inl_es _ _ _ _ ?es] => destruct es as [|e2 es'] end.
    - rewrite inl_es_nil, !print_es_one. auto.
    - rewrite (print_es_cons_ne _ (inl_es rule x r pt (ECons e2 es')))
        by (rewrite elen_inl_es; discriminate).
      rewrite (print_es_cons_ne _ (ECons e2 es')) by discriminate.
      rewrite tsubst_app. cbn [tsubst].
      match goal with IH : forall pt mid, _ -> print _ = _ |- _ => rewrite IH by assumption end.
      match goal with IH : forall pt, _ -> print_es _ = _ |- _ => rewrite IH by assumption end.
      reflexivity. }
  1: { cbn [print tsubst]. destruct (N.eqb x0 x); [|reflexivity].
       rewrite Hs, app_nil_r. reflexivity. }
  all: cbn [print];
    repeat first [ rewrite tsubst_app | rewrite tsubst_bind_toks | progress cbn [tsubst] ];
    repeat match goal with
           | IH : forall pt mid, _ -> print _ = _ |- _ => rewrite IH by assumption; clear IH
           | IH : forall pt, _ -> print_es _ = _ |- _ => rewrite IH by assumption; clear IH
           end; try reflexivity.
Qed.
End PrintInlConst.

Lemma print_inl_always : forall x r e pt mid, nobind x e = true ->
  print (inl always_rule x r pt mid e) = tsubst x (TS LPar :: print r ++ [TS RPar]) (print e).
Proof.
  intros x r e pt mid H.
  apply (proj1 (print_inl_const_mut always_rule x r _ (fun _ => eq_refl))). assumption.
Qed.

Lemma print_inl_never : forall x r e pt mid, nobind x e = true ->
  print (inl never_rule x r pt mid e) = tsubst x (print r) (print e).
Proof.
  intros x r e pt mid H.
  apply (proj1 (print_inl_const_mut never_rule x r _ (fun _ => eq_refl))). assumption.
Qed.

(* ------------------------------------------------------------- theorems *)
Lemma T1_grammar_is_print_of_wf : forall l ts e, D l ts e <-> (ts = print e /\ wf_at l e = true).
Proof. exact D_iff. Qed.

Lemma T3_inline_rule_sound_general : forall rule x r e l pt mid toks rtoks,
  D l toks e -> D 1 rtoks r ->
  (forall p, p = pt \/ p <> P_dictorsetmaker -> rule p = false -> tightest p <= level r) ->
  l <= tightest pt ->
  D l (print (inl rule x r pt mid e)) (inl rule x r pt mid e) /\
  strip (inl rule x r pt mid e) = subst x (strip r) (strip e).
Proof.
  intros rule x r e l pt mid toks rtoks He Hr Hrule Hl.
  apply D_inv in He. destruct He as [_ He]. apply D_inv in Hr. destruct Hr as [_ Hr].
  split; [|apply inl_strip].
  apply D_print. apply inl_wf; assumption.
Qed.

Lemma T2_inline_parens_preserve : forall x r e l pt mid toks rtoks,
  D l toks e -> D 1 rtoks r -> nobind x e = true -> l <= tightest pt ->
  D l (tsubst x (TS LPar :: rtoks ++ [TS RPar]) toks) (inl always_rule x r pt mid e) /\
  strip (inl always_rule x r pt mid e) = subst x (strip r) (strip e).
Proof.
  intros x r e l pt mid toks rtoks He Hr Hnb Hl.
  destruct (T3_inline_rule_sound_general always_rule x r e l pt mid toks rtoks He Hr) as [H1 H2];
    [intros p _ Hp; discriminate Hp | assumption |].
  apply D_inv in He. destruct He as [-> _]. apply D_inv in Hr. destruct Hr as [-> _].
  split; [|assumption]. rewrite <- (print_inl_always x r e pt mid) by assumption. assumption.
Qed.

Lemma T4_inline_noparens_ok : forall x r e l pt mid toks rtoks,
  D l toks e -> D 1 rtoks r -> pt <> P_dictorsetmaker -> l <= tightest pt ->
  D l (inline_text new_rule false x r pt mid e) (inline_tree new_rule false x r pt mid e) /\
  strip (inline_tree new_rule false x r pt mid e) = subst x (strip r) (strip e).
Proof.
  intros x r e l pt mid toks rtoks He Hr Hpt Hl. unfold inline_text, inline_tree.
  apply (T3_inline_rule_sound_general new_rule x r e l pt mid toks rtoks); try assumption.
  intros p Hp Hf.
  assert (Hp' : p <> P_dictorsetmaker) by (destruct Hp; [subst; assumption | assumption]).
  pose proof (new_rule_bare_slots p Hp' Hf).
  apply D_inv in Hr. destruct Hr as [_ Hr]. apply wf_at_iff in Hr. lia.
Qed.

Lemma T4c_inline_tuple_rhs_ok : forall rule x es e l pt mid toks,
  D l toks e -> wf (Tup es) = true -> l <= tightest pt ->
  D l (inline_text rule true x (Tup es) pt mid e) (inline_tree rule true x (Tup es) pt mid e).
Proof.
  intros rule x es e l pt mid toks He Hw Hl. unfold inline_text, inline_tree.
  apply D_inv in He. destruct He as [_ He].
  assert (Hr : wf_at 1 (Tup es) = true)
    by (apply wf_at_iff; split; [cbn [level]; lia | assumption]).
  assert (Hrule : forall p, p = pt \/ p <> P_dictorsetmaker -> never_rule p = false ->
                            tightest p <= level (Tup es))
    by (intros p _ _; cbn [level]; apply tightest_le_15).
  apply D_print. apply (inl_wf never_rule x (Tup es) pt Hr Hrule); assumption.
Qed.

Lemma T5_inline_old_rule_refuted : exists x r e parsed rho,
  wf_at 1 e = true /\ wf_at 1 r = true /\ nobind x e = true /\
  inline_text old_rule false x r P_expr_stmt false e = print parsed /\
  D 1 (print parsed) parsed /\
  ~ D 1 (inline_text old_rule false x r P_expr_stmt false e)
        (inline_tree old_rule false x r P_expr_stmt false e) /\
  ev rho parsed <> ev rho (subst x r e).
Proof.
  exists wit_x, wit_r, wit_e, wit_parsed, wit_env.
  repeat split; try (vm_compute; reflexivity).
  - apply D_print. vm_compute. reflexivity.
  - intro H. apply D_inv in H. destruct H as [_ H]. vm_compute in H. discriminate H.
  - vm_compute. discriminate.
Qed.

Lemma T5b_inline_old_rule_ok_above_expr : forall x r e l pt mid toks rtoks,
  D l toks e -> D 6 rtoks r -> l <= tightest pt ->
  D l (inline_text old_rule false x r pt mid e) (inline_tree old_rule false x r pt mid e).
Proof.
  intros x r e l pt mid toks rtoks He Hr Hl. unfold inline_text, inline_tree.
  apply D_inv in Hr. destruct Hr as [_ Hr].
  assert (Hr1 : D 1 (print r) r) by (apply D_print; apply (wf_at_le 6); [lia|assumption]).
  apply (T3_inline_rule_sound_general old_rule x r e l pt mid toks (print r)); try assumption.
  intros p _ Hf. pose proof (old_rule_bare_slots p Hf). apply wf_at_iff in Hr. lia.
Qed.

Lemma T5c_inline_dict_splat_refuted : exists x r,
  wf_at 1 r = true /\ new_rule P_dictorsetmaker = false /\ wf_at 6 (Var x) = true /\
  wf_at 6 (inline_tree new_rule false x r P_dictorsetmaker false (Var x)) = false.
Proof. exists wit_x, wit_r. repeat split; vm_compute; reflexivity. Qed.

Lemma T7_inline_meaning_preserved : forall rule rho x r e pt mid v,
  ev rho r = Some v -> ev (upd rho x v) e = ev rho (inl rule x r pt mid e).
Proof. intros. apply ev_inl. assumption. Qed.

Lemma T8_extract_then_inline_identity : forall rule rho x s c c' pt mid v,
  is_extraction x s c c' = true ->
  strip (inl rule x s pt mid c') = strip c /\
  (ev rho s = Some v -> ev (upd rho x v) c' = ev rho c).
Proof.
  intros rule rho x s c c' pt mid v H. unfold is_extraction in H. apply expr_eqb_eq in H.
  assert (Hs : strip (inl rule x s pt mid c') = strip c) by (rewrite inl_strip; assumption).
  split; [assumption|]. intro Hv.
  rewrite (ev_inl rule rho x s v c' pt mid Hv).
  rewrite <- ev_strip, Hs, ev_strip. reflexivity.
Qed.

Lemma T9_name_fits_every_slot : forall l x, l <= 15 -> D l [TName x] (Var x).
Proof. intros l x H. apply (D_weaken 15); [assumption | apply D_name]. Qed.

(* ------------------------------------------- 9 inline as a token-level splice *)
Lemma parents_Tup : forall x pt mid es, parents x pt mid (Tup es) = parents_es x (seq_pt es) es.
Proof. reflexivity. Qed.
Lemma parents_Lst : forall x pt mid es, parents x pt mid (Lst es) = parents_es x (seq_pt es) es.
Proof. reflexivity. Qed.
Lemma parents_Call : forall x pt mid f args,
  parents x pt mid (Call f args) = parents x P_atom_expr true f ++ parents_es x (args_pt mid args) args.
Proof. reflexivity. Qed.
Lemma parents_es_nil : forall x pt, parents_es x pt ENil = [].
Proof. reflexivity. Qed.
Lemma parents_es_cons : forall x pt e es,
  parents_es x pt (ECons e es) = parents x pt false e ++ parents_es x pt es.
Proof. reflexivity. Qed.

Lemma count_name_app : forall x a b, count_name x (a ++ b) = count_name x a + count_name x b.
Proof.
  intros x a b. induction a as [|t a IH]; [reflexivity|].
  destruct t; cbn [count_name app]; try assumption.
  destruct (N.eqb x0 x); rewrite IH; reflexivity.
Qed.

Lemma count_name_bind_toks : forall x ps, count_name x (bind_toks ps) = 0.
Proof.
  intros x ps. induction ps as [|p ps IH]; [reflexivity|].
  destruct ps as [|q ps]; [reflexivity|].
  change (bind_toks (p :: q :: ps)) with (TBind p :: TS Comma :: bind_toks (q :: ps)).
  cbn [count_name]. assumption.
Qed.

Lemma splice_app : forall x s d1 d2 t1 t2, length d1 = count_name x t1 ->
  splice x (d1 ++ d2) s (t1 ++ t2) = splice x d1 s t1 ++ splice x d2 s t2.
Proof.
  intros x s d1 d2 t1. revert d1 d2.
  induction t1 as [|t t1 IH]; intros d1 d2 t2 H.
  - destruct d1; [reflexivity | discriminate H].
  - destruct t; cbn [count_name] in H; cbn [splice app]; try (rewrite IH by assumption; reflexivity).
    destruct (N.eqb x0 x).
    + destruct d1 as [|d d1]; [discriminate H|]. cbn [app length] in *.
      rewrite IH by lia. rewrite app_assoc. reflexivity.
    + rewrite IH by assumption. reflexivity.
Qed.

Lemma splice_app_r : forall x s d t1 t2, length d = count_name x t1 ->
  splice x d s (t1 ++ t2) = splice x d s t1 ++ splice x [] s t2.
Proof.
  intros x s d t1 t2 H. rewrite <- (app_nil_r d) at 1. apply splice_app. assumption.
Qed.

Lemma splice_bind_toks_app : forall x s d ps t,
  splice x d s (bind_toks ps ++ t) = bind_toks ps ++ splice x d s t.
Proof.
  intros x s d ps t. induction ps as [|p ps IH]; [reflexivity|].
  destruct ps as [|q ps]; [reflexivity|].
  change (bind_toks (p :: q :: ps)) with (TBind p :: TS Comma :: bind_toks (q :: ps)).
  cbn [splice app]. rewrite IH. reflexivity.
Qed.

Lemma parents_length_mut : forall x,
  (forall e pt mid, nobind x e = true -> length (parents x pt mid e) = count_name x (print e)) /\
  (forall es pt, nobind_es x es = true -> length (parents_es x pt es) = count_name x (print_es es)).
Proof.
  intro x. apply expr_exprs_ind; intros;
    rewrite ?parents_Tup, ?parents_Lst, ?parents_Call, ?parents_es_cons, ?parents_es_nil;
    cbn [parents nobind nobind_es] in *; split_nobind;
    repeat match goal with H : N.eqb _ x = false |- _ => rewrite H; clear H
                      | H : memN x _ = false |- _ => rewrite H; clear H end.
  22: {
    match goal with |- context [parents_es _ _ ?es] => destruct es as [|e2 es'] end.
    - rewrite parents_es_nil, print_es_one, app_nil_r. auto.
    - rewrite (print_es_cons_ne _ (ECons e2 es')) by discriminate.
      rewrite count_name_app, app_length. cbn [count_name]. auto. }
  1: { cbn [print count_name]. destruct (N.eqb x0 x); reflexivity. }
  all: cbn [print];
    repeat first [ rewrite count_name_app | rewrite app_length | rewrite count_name_bind_toks
                 | progress cbn [count_name length] ];
    repeat match goal with
           | IH : forall pt mid, _ -> length _ = _ |- _ => rewrite IH by assumption; clear IH
           | IH : forall pt, _ -> length _ = _ |- _ => rewrite IH by assumption; clear IH
           end; try reflexivity; try lia.
Qed.

Lemma parents_length : forall x e pt mid, nobind x e = true ->
  length (parents x pt mid e) = count_name x (print e).
Proof. intro x. exact (proj1 (parents_length_mut x)). Qed.

Lemma parents_es_length : forall x es pt, nobind_es x es = true ->
  length (parents_es x pt es) = count_name x (print_es es).
Proof. intro x. exact (proj2 (parents_length_mut x)). Qed.

Ltac len_side :=
  rewrite map_length; first [ apply parents_length | apply parents_es_length ]; assumption.

Lemma print_inl_splice_mut : forall rule x r,
  (forall e pt mid, nobind x e = true ->
     print (inl rule x r pt mid e) = splice x (map rule (parents x pt mid e)) (print r) (print e)) /\
  (forall es pt, nobind_es x es = true ->
     print_es (inl_es rule x r pt es) = splice x (map rule (parents_es x pt es)) (print r) (print_es es)).
Proof.
  intros rule x r. apply expr_exprs_ind; intros;
    rewrite ?inl_Tup, ?inl_Lst, ?inl_Call, ?inl_es_cons, ?inl_es_nil;
    rewrite ?parents_Tup, ?parents_Lst, ?parents_Call, ?parents_es_cons, ?parents_es_nil;
    cbn [inl parents nobind nobind_es] in *; split_nobind;
    repeat match goal with H : N.eqb _ x = false |- _ => rewrite H; clear H
                      | H : memN x _ = false |- _ => rewrite H; clear H end.
  22: {
    match goal with |- context [inl_es _ _ _ _ ?es] => destruct es as [|e2 es'] end.
    - rewrite inl_es_nil, parents_es_nil, !print_es_one, app_nil_r. auto.
    - rewrite (print_es_cons_ne _ (inl_es rule x r pt (ECons e2 es')))
        by (rewrite elen_inl_es; discriminate).
      rewrite (print_es_cons_ne _ (ECons e2 es')) by discriminate.
      rewrite map_app, splice_app by len_side. cbn [splice].
      match goal with IH : forall pt mid, _ -> print _ = _ |- _ => rewrite IH by assumption end.
      match goal with IH : forall pt, _ -> print_es _ = _ |- _ => rewrite IH by assumption end.
      reflexivity. }
  1: { cbn [print splice]. destruct (N.eqb x0 x) eqn:E; cbn [map splice]; [|reflexivity].
       rewrite app_nil_r. destruct (rule pt); reflexivity. }
  all: cbn [print];
    repeat first [ rewrite map_app
                 | rewrite splice_app by len_side
                 | rewrite splice_app_r by len_side
                 | rewrite splice_bind_toks_app
                 | progress cbn [splice map] ];
    repeat match goal with
           | IH : forall pt mid, _ -> print _ = _ |- _ => rewrite IH by assumption; clear IH
           | IH : forall pt, _ -> print_es _ = _ |- _ => rewrite IH by assumption; clear IH
           end; try reflexivity.
Qed.

Lemma print_inl_splice : forall rule x r e pt mid, nobind x e = true ->
  print (inl rule x r pt mid e) = splice x (map rule (parents x pt mid e)) (print r) (print e).
Proof. intros rule x r. exact (proj1 (print_inl_splice_mut rule x r)). Qed.

Lemma T10_inline_text_is_splice : forall rule x r e pt mid, nobind x e = true ->
  inline_text rule false x r pt mid e = splice x (map rule (parents x pt mid e)) (print r) (print e).
Proof. intros. unfold inline_text. apply print_inl_splice. assumption. Qed.

Lemma T6_extract_inline_subst : forall rho x s c v,
  ev rho s = Some v -> ev (upd rho x v) c = ev rho (subst x s c).
Proof. intros. apply subst_lemma. assumption. Qed.
