(* C06 proofs: grammar = print of well-formed trees, inline keeps well-formedness,
   meaning and the abstract syntax; token-level characterisation of inline. *)
From JV Require Import Model.C06_Inline.

Scheme expr_mind := Induction for expr Sort Prop
  with exprs_mind := Induction for exprs Sort Prop.
Combined Scheme expr_exprs_ind from expr_mind, exprs_mind.

Scheme D_mind := Minimality for D Sort Prop
  with DS_mind := Minimality for DS Sort Prop.
Combined Scheme D_DS_ind from D_mind, DS_mind.

(* ------------------------------------------------------------ small facts *)
Lemma wf_at_iff : forall l e, wf_at l e = true <-> l <= level e /\ wf e = true.
Proof.
  intros l e. unfold wf_at. rewrite andb_true_iff, Nat.leb_le. tauto.
Qed.

Lemma wf_at_le : forall l l' e, l' <= l -> wf_at l e = true -> wf_at l' e = true.
Proof.
  intros l l' e Hle H. apply wf_at_iff in H. apply wf_at_iff. destruct H; split; [lia|assumption].
Qed.

Lemma print_es_one : forall e, print_es (ECons e ENil) = print e.
Proof. reflexivity. Qed.

Lemma print_es_cons2 : forall e e2 es,
  print_es (ECons e (ECons e2 es)) = print e ++ TS Comma :: print_es (ECons e2 es).
Proof. reflexivity. Qed.

Lemma print_es_cons_ne : forall e es, elen es <> 0 ->
  print_es (ECons e es) = print e ++ TS Comma :: print_es es.
Proof. intros e [|e2 es] H; [exfalso; apply H; reflexivity | reflexivity]. Qed.

Lemma wf_es_cons : forall l e es, wf_es l (ECons e es) = wf_at l e && wf_es l es.
Proof. reflexivity. Qed.

Lemma bin_level_range : forall o, 6 <= bin_level o <= 11.
Proof. destruct o; cbn; lia. Qed.

(* ---------------------------------------------------------------- 1 weaken *)
Lemma D_weaken : forall l l' ts e, l' <= l -> D l ts e -> D l' ts e.
Proof.
  intros l l' ts e H. induction H; intro HD.
  - exact HD.
  - apply IHle. apply D_up. exact HD.
Qed.

(* ------------------------------------------------------- 2 print is derived *)
Ltac split_wf :=
  repeat match goal with
  | H : _ && _ = true |- _ => apply andb_true_iff in H; destruct H
  | H : (_ <=? _) = true |- _ => apply Nat.leb_le in H
  end.

Lemma D_print_mut :
  (forall e, wf e = true -> D (level e) (print e) e) /\
  (forall es l, wf_es l es = true -> DS l (print_es es) es).
Proof.
  apply expr_exprs_ind; intros; cbn [wf wf_es level print] in *; split_wf.
  - apply D_name.
  - apply D_num. apply Z.leb_le. assumption.
  - apply D_paren. eapply D_weaken; [|eauto]. assumption.
  - apply D_tup; [auto|]. apply negb_true_iff, Nat.eqb_neq in H1. assumption.
  - apply D_lst; auto.
  - apply D_lcomp; (eapply D_weaken; [|eauto]; assumption).
  - apply D_lcompif; (eapply D_weaken; [|eauto]; assumption).
  - apply D_star; (eapply D_weaken; [|eauto]; assumption).
  - apply D_tern; (eapply D_weaken; [|eauto]; assumption).
  - apply D_lam; (eapply D_weaken; [|eauto]; assumption).
  - apply D_or; (eapply D_weaken; [|eauto]; assumption).
  - apply D_and; (eapply D_weaken; [|eauto]; assumption).
  - apply D_not; (eapply D_weaken; [|eauto]; assumption).
  - apply D_cmp; (eapply D_weaken; [|eauto]; assumption).
  - apply D_bin; (eapply D_weaken; [|eauto]; assumption).
  - apply D_un; (eapply D_weaken; [|eauto]; assumption).
  - apply D_pow; (eapply D_weaken; [|eauto]; assumption).
  - apply D_call; [eapply D_weaken; [|eauto]; assumption | auto].
  - apply D_sub; (eapply D_weaken; [|eauto]; assumption).
  - apply D_attr; (eapply D_weaken; [|eauto]; assumption).
  - apply DS_nil.
  - match goal with |- DS _ (print_es (ECons _ ?es)) _ => destruct es as [|e2 es'] end.
    + apply DS_one. eapply D_weaken; [|eauto]. assumption.
    + rewrite print_es_cons2. apply DS_cons.
      * eapply D_weaken; [|eauto]. assumption.
      * auto.
Qed.

Lemma D_print : forall e l, wf_at l e = true -> D l (print e) e.
Proof.
  intros e l H. apply wf_at_iff in H. destruct H as [Hl Hw].
  eapply D_weaken; [exact Hl|]. apply (proj1 D_print_mut). assumption.
Qed.

Lemma DS_print : forall es l, wf_es l es = true -> DS l (print_es es) es.
Proof. exact (proj2 D_print_mut). Qed.

(* -------------------------------------------------- 3 derived implies print *)
Lemma D_inv_mut :
  (forall l ts e, D l ts e -> ts = print e /\ wf_at l e = true) /\
  (forall l ts es, DS l ts es -> ts = print_es es /\ wf_es l es = true).
Proof.
  apply D_DS_ind; intros;
    repeat match goal with H : _ /\ _ |- _ => destruct H end; subst;
    try (split; [reflexivity|]);
    unfold wf_at in *; cbn [wf wf_es level] in *; split_wf;
    repeat (apply andb_true_intro; split);
    try assumption; try (apply Nat.leb_le; lia).
  all: try reflexivity.
  - apply Z.leb_le; assumption.
  - apply negb_true_iff, Nat.eqb_neq; assumption.
Qed.

Lemma D_inv : forall l ts e, D l ts e -> ts = print e /\ wf_at l e = true.
Proof. exact (proj1 D_inv_mut). Qed.

Lemma DS_inv : forall l ts es, DS l ts es -> ts = print_es es /\ wf_es l es = true.
Proof. exact (proj2 D_inv_mut). Qed.

Lemma D_iff : forall l ts e, D l ts e <-> (ts = print e /\ wf_at l e = true).
Proof.
  intros l ts e. split.
  - apply D_inv.
  - intros [-> H]. apply D_print. assumption.
Qed.

Lemma DS_iff : forall l ts es, DS l ts es <-> (ts = print_es es /\ wf_es l es = true).
Proof.
  intros l ts es. split.
  - apply DS_inv.
  - intros [-> H]. apply DS_print. assumption.
Qed.

(* ----------------------------------------------------------- 5 inl / strip *)
Lemma inl_strip_mut : forall rule x r,
  (forall e pt mid pt' mid',
     strip (inl rule x r pt mid e) = inl never_rule x (strip r) pt' mid' (strip e)) /\
  (forall es pt pt',
     strip_es (inl_es rule x r pt es) = inl_es never_rule x (strip r) pt' (strip_es es)).
Proof.
  intros rule x r. apply expr_exprs_ind; intros; cbn [inl inl_es strip strip_es].
  - destruct (N.eqb x0 x); [|reflexivity].
    unfold never_rule. destruct (rule pt); reflexivity.
  - reflexivity.
  - auto.
  - f_equal; auto.
  - f_equal; auto.
  - destruct (N.eqb v x); f_equal; auto.
  - destruct (N.eqb v x); f_equal; auto.
  - f_equal; auto.
  - f_equal; auto.
  - destruct (memN x ps); cbn [strip]; f_equal; auto.
  - f_equal; auto.
  - f_equal; auto.
  - f_equal; auto.
  - f_equal; auto.
  - f_equal; auto.
  - f_equal; auto.
  - f_equal; auto.
  - f_equal; auto.
  - f_equal; auto.
  - f_equal; auto.
  - reflexivity.
  - f_equal; auto.
Qed.

Lemma inl_strip : forall rule x r e pt mid,
  strip (inl rule x r pt mid e) = subst x (strip r) (strip e).
Proof. intros. unfold subst. apply (proj1 (inl_strip_mut rule x r)). Qed.

Lemma inl_es_strip : forall rule x r es pt pt',
  strip_es (inl_es rule x r pt es) = inl_es never_rule x (strip r) pt' (strip_es es).
Proof. intros. apply (proj2 (inl_strip_mut rule x r)). Qed.

(* inl never_rule does not depend on the parent type *)
Lemma inl_never_indep : forall x r,
  (forall e pt mid pt' mid', inl never_rule x r pt mid e = inl never_rule x r pt' mid' e) /\
  (forall es pt pt', inl_es never_rule x r pt es = inl_es never_rule x r pt' es).
Proof.
  intros x r. apply expr_exprs_ind; intros; cbn [inl inl_es]; try reflexivity;
    try (f_equal; auto; fail).
Qed.

(* --------------------------------------------------------------- 6 ev/strip *)
Lemma ev_strip : forall rho e, ev rho (strip e) = ev rho e.
Proof.
  intros rho e. induction e; cbn [strip ev]; try reflexivity;
    repeat match goal with H : ev _ (strip _) = _ |- _ => rewrite H; clear H end;
    reflexivity.
Qed.

(* ------------------------------------------------------ 7 substitution lemma *)
Lemma ev_inl : forall rule rho x r v e pt mid,
  ev rho r = Some v -> ev (upd rho x v) e = ev rho (inl rule x r pt mid e).
Proof.
  intros rule rho x r v e pt mid Hr. revert pt mid.
  induction e; intros pt mid; cbn [inl ev]; try reflexivity;
    repeat match goal with
           | H : forall (pt : ptype) (mid : bool), _ = ev rho (inl _ _ _ pt mid _) |- _ =>
               rewrite <- H; clear H
           end; try reflexivity.
  - unfold upd. destruct (N.eqb x0 x); [|reflexivity].
    destruct (rule pt); cbn [ev]; symmetry; assumption.
  - destruct (memN x ps); reflexivity.
Qed.

Lemma subst_lemma : forall rho x r v e,
  ev rho r = Some v -> ev (upd rho x v) e = ev rho (subst x r e).
Proof. intros. unfold subst. apply ev_inl. assumption. Qed.

(* ---------------------------------------------------------- 10 small facts *)
Lemma new_rule_bare_slots : forall p, p <> P_dictorsetmaker -> new_rule p = false -> tightest p <= 1.
Proof.
  intros p Hp H. destruct p; try discriminate H; try (exfalso; apply Hp; reflexivity);
    cbn [tightest]; lia.
Qed.

Lemma old_rule_bare_slots : forall p, old_rule p = false -> tightest p <= 6.
Proof.
  intros p H. destruct p; try discriminate H; cbn [tightest]; lia.
Qed.

Lemma tightest_le_15 : forall p, tightest p <= 15.
Proof. destruct p; cbn [tightest]; lia. Qed.

Lemma listN_eqb_eq : forall a b, listN_eqb a b = true -> a = b.
Proof.
  induction a as [|x a IH]; destruct b as [|y b]; cbn [listN_eqb]; intro H;
    try discriminate H; [reflexivity|].
  apply andb_true_iff in H. destruct H as [H1 H2].
  apply N.eqb_eq in H1. subst. f_equal. auto.
Qed.

Lemma binop_eqb_eq : forall a b, binop_eqb a b = true -> a = b.
Proof. destruct a, b; intro H; try discriminate H; reflexivity. Qed.
Lemma unop_eqb_eq : forall a b, unop_eqb a b = true -> a = b.
Proof. destruct a, b; intro H; try discriminate H; reflexivity. Qed.
Lemma cmpop_eqb_eq : forall a b, cmpop_eqb a b = true -> a = b.
Proof. destruct a, b; intro H; try discriminate H; reflexivity. Qed.

Lemma expr_eqb_eq_mut :
  (forall a b, expr_eqb a b = true -> a = b) /\
  (forall a b, exprs_eqb a b = true -> a = b).
Proof.
  apply expr_exprs_ind; intros;
    match goal with
    | H : expr_eqb _ ?b = true |- _ => destruct b
    | H : exprs_eqb _ ?b = true |- _ => destruct b
    end; cbn [expr_eqb exprs_eqb] in *;
    try discriminate;
    repeat match goal with
           | H : _ && _ = true |- _ => apply andb_true_iff in H; destruct H
           end;
    repeat match goal with
           | H : N.eqb _ _ = true |- _ => apply N.eqb_eq in H
           | H : Z.eqb _ _ = true |- _ => apply Z.eqb_eq in H
           | H : listN_eqb _ _ = true |- _ => apply listN_eqb_eq in H
           | H : binop_eqb _ _ = true |- _ => apply binop_eqb_eq in H
           | H : unop_eqb _ _ = true |- _ => apply unop_eqb_eq in H
           | H : cmpop_eqb _ _ = true |- _ => apply cmpop_eqb_eq in H
           end; subst; try reflexivity; f_equal; auto.
Qed.

Lemma expr_eqb_eq : forall a b, expr_eqb a b = true -> a = b.
Proof. exact (proj1 expr_eqb_eq_mut). Qed.
Lemma exprs_eqb_eq : forall a b, exprs_eqb a b = true -> a = b.
Proof. exact (proj2 expr_eqb_eq_mut). Qed.
