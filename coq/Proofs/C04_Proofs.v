From Coq Require Import Sorting.Sorted Sorting.Permutation.
From JV Require Import Base.Str Proofs.Str_Proofs Model.C04_Complete.

(* ---- match predicates ---- *)

Lemma fuzzy_match_sound s l : fuzzy_match s l = true -> Subseq l s.
Proof.
  revert s; induction l as [|c l IH]; intros s H; [constructor|].
  simpl in H. destruct l as [|c2 l].
  - apply mem_In in H. induction s as [|d s IHs]; [contradiction|].
    destruct H as [->|H]; [apply Subseq_take; constructor | apply Subseq_skip; auto].
  - destruct (after_first c s) as [s'|] eqn:E; [|discriminate].
    apply after_first_spec in E as [pre [-> _]].
    apply Subseq_app_l. apply Subseq_take. apply IH. exact H.
Qed.

Lemma fuzzy_match_complete s l : Subseq l s -> fuzzy_match s l = true.
Proof.
  revert s; induction l as [|c l IH]; intros s H; [reflexivity|].
  simpl. destruct l as [|c2 l].
  - apply mem_In. eapply Subseq_In; eauto.
  - apply Subseq_greedy in H as [s' [-> Hs]]. apply IH. exact Hs.
Qed.

Lemma fuzzy_match_subseq s l : fuzzy_match s l = true <-> Subseq l s.
Proof. split; [apply fuzzy_match_sound | apply fuzzy_match_complete]. Qed.

Lemma start_match_prefix s l : start_match s l = true <-> Prefix l s.
Proof. apply starts_with_prefix. Qed.

(* ---- keys ---- *)

Lemma opt_str_eqb_eq a b : opt_str_eqb a b = true <-> a = b.
Proof.
  destruct a, b; simpl; split; intro H; try congruence; auto.
  - apply str_eqb_eq in H. congruence.
  - inversion H. apply str_eqb_refl.
Qed.

Lemma key_eqb_eq a b : key_eqb a b = true <-> a = b.
Proof.
  destruct a as [a1 a2], b as [b1 b2]. unfold key_eqb. simpl.
  rewrite andb_true_iff, str_eqb_eq, opt_str_eqb_eq. split.
  - intros [-> ->]. reflexivity.
  - intros H. inversion H. auto.
Qed.

Lemma key_mem_In k l : key_mem k l = true <-> In k l.
Proof.
  induction l as [|x l IH]; simpl; [split; [discriminate|tauto]|].
  rewrite orb_true_iff, key_eqb_eq, IH. split; intros [H|H]; auto.
Qed.

(* ---- filter_names ---- *)

Section F.
Variable ab : bool.
Variables like llike : str.
Variable fuzzy : bool.
Variable imported : list str.

Let go := filter_names_go ab like llike fuzzy imported.

Definition good (names : list cname) (c : completion) : Prop :=
  In (c_src c) names /\ match_ (lname (c_src c)) llike fuzzy = true /\
  c_like_len c = length like /\ c_fuzzy c = fuzzy /\ is_del (c_src c) = false /\
  (str_in (sname (c_src c)) imported = true -> sname (c_src c) = llike).

Lemma go_good names seen c : In c (go names seen) -> good names c.
Proof.
  unfold go. revert seen. induction names as [|n rest IH]; intros seen H; simpl in H; [contradiction|].
  assert (Hlift : forall c, good rest c -> good (n :: rest) c).
  { intros c0 [H1 H2]. split; [right; exact H1 | exact H2]. }
  destruct (str_in (sname n) imported && negb (str_eqb (sname n) llike)) eqn:E1.
  { apply Hlift. eapply IH; eauto. }
  destruct (match_ (lname n) llike fuzzy) eqn:E2; [|apply Hlift; eapply IH; eauto].
  match type of H with context [key_mem ?k seen] => destruct (key_mem k seen) eqn:E3 end;
    [apply Hlift; eapply IH; eauto|].
  destruct (is_del n) eqn:E4; [apply Hlift; eapply IH; eauto|].
  destruct H as [<-|H]; [|apply Hlift; eapply IH; eauto].
  unfold good; simpl. repeat split; auto.
  intros Hin. rewrite Hin in E1. simpl in E1. apply negb_false_iff in E1.
  apply str_eqb_eq in E1. exact E1.
Qed.

Lemma go_keys_fresh names seen c :
  In c (go names seen) -> ~ In (c_key ab c) seen.
Proof.
  unfold go. revert seen. induction names as [|n rest IH]; intros seen H; simpl in H; [contradiction|].
  destruct (str_in (sname n) imported && negb (str_eqb (sname n) llike)); [eauto|].
  destruct (match_ (lname n) llike fuzzy); [|eauto].
  match type of H with context [key_mem ?k seen] => destruct (key_mem k seen) eqn:E3 end; [eauto|].
  assert (Hs : forall c, ~ In (c_key ab c) (c_key ab {| c_src := n; c_like_len := length like; c_fuzzy := fuzzy |} :: seen)
                         -> ~ In (c_key ab c) seen) by (intros c0 Hn Hi; apply Hn; right; exact Hi).
  destruct (is_del n).
  - apply Hs. eapply IH; eauto.
  - destruct H as [<-|H].
    + intro Hi. apply key_mem_In in Hi. congruence.
    + apply Hs. eapply IH; eauto.
Qed.

Lemma go_nodup names seen : NoDup (map (c_key ab) (go names seen)).
Proof.
  unfold go. revert seen. induction names as [|n rest IH]; intros seen; simpl; [constructor|].
  destruct (str_in (sname n) imported && negb (str_eqb (sname n) llike)); [apply IH|].
  destruct (match_ (lname n) llike fuzzy); [|apply IH].
  match goal with |- context [key_mem ?k seen] => destruct (key_mem k seen) eqn:E3 end; [apply IH|].
  destruct (is_del n); [apply IH|].
  simpl. constructor; [|apply IH].
  intro Hi. apply in_map_iff in Hi as [c [Hk Hc]].
  apply go_keys_fresh in Hc. apply Hc. left. symmetry. exact Hk.
Qed.

(* completeness of the filter: a name that matches, is not excluded and is not a
   `del` target is represented in the output by a completion with the same key *)
Lemma go_complete names seen n :
  In n names ->
  (str_in (sname n) imported && negb (str_eqb (sname n) llike)) = false ->
  match_ (lname n) llike fuzzy = true ->
  In (c_key ab {| c_src := n; c_like_len := length like; c_fuzzy := fuzzy |}) seen \/
  In (c_key ab {| c_src := n; c_like_len := length like; c_fuzzy := fuzzy |}) (map (c_key ab) (go names seen)) \/
  (exists m, In m names /\ is_del m = true /\
             c_key ab {| c_src := m; c_like_len := length like; c_fuzzy := fuzzy |} =
             c_key ab {| c_src := n; c_like_len := length like; c_fuzzy := fuzzy |}).
Proof.
  unfold go. intros Hin Himp Hm.
  set (k := c_key ab {| c_src := n; c_like_len := length like; c_fuzzy := fuzzy |}).
  revert seen Hin.
  induction names as [|a rest IH]; intros seen Hin; [contradiction|].
  assert (Hlift : forall seen', (In k seen' \/ In k (map (c_key ab) (filter_names_go ab like llike fuzzy imported rest seen')) \/
             (exists m, In m rest /\ is_del m = true /\
               c_key ab {| c_src := m; c_like_len := length like; c_fuzzy := fuzzy |} = k)) ->
          In k seen' \/ In k (map (c_key ab) (filter_names_go ab like llike fuzzy imported rest seen')) \/
             (exists m, In m (a :: rest) /\ is_del m = true /\
               c_key ab {| c_src := m; c_like_len := length like; c_fuzzy := fuzzy |} = k)).
  { intros seen' [H|[H|[m [H1 H2]]]]; auto. right. right. exists m. split; [right; auto|auto]. }
  simpl. destruct Hin as [->|Hin].
  - rewrite Himp, Hm. fold k.
    destruct (key_mem k seen) eqn:E3; [left; apply key_mem_In; exact E3|].
    destruct (is_del n) eqn:E4.
    + right. right. exists n. split; [left; reflexivity|]. split; [exact E4|reflexivity].
    + right. left. simpl. left. reflexivity.
  - destruct (str_in (sname a) imported && negb (str_eqb (sname a) llike)); [apply Hlift, IH, Hin|].
    destruct (match_ (lname a) llike fuzzy); [|apply Hlift, IH, Hin].
    match goal with |- context [key_mem ?k0 seen] => destruct (key_mem k0 seen) eqn:E3 end;
      [apply Hlift, IH, Hin|].
    set (ka := c_key ab {| c_src := a; c_like_len := length like; c_fuzzy := fuzzy |}) in *.
    destruct (is_del a) eqn:E4.
    + destruct (IH (ka :: seen) Hin) as [[H|H]|[H|[m [H1 H2]]]].
      * right. right. exists a. split; [left; reflexivity|]. split; [exact E4|]. exact H.
      * left. exact H.
      * right. left. exact H.
      * right. right. exists m. split; [right; exact H1|exact H2].
    + destruct (IH (ka :: seen) Hin) as [[H|H]|[H|[m [H1 H2]]]].
      * right. left. simpl. left. exact H.
      * left. exact H.
      * right. left. simpl. right. exact H.
      * right. right. exists m. split; [right; exact H1|exact H2].
Qed.

End F.

(* ---- suffix algebra ---- *)

Lemma complete_suffix ab c :
  c_name_with_symbols ab c = firstn (c_prefix_len c) (c_name c) ++ c_complete_str ab c.
Proof.
  unfold c_name_with_symbols, c_complete_str, c_prefix_len.
  rewrite app_assoc, firstn_skipn. reflexivity.
Qed.

Lemma complete_none_iff_fuzzy ab c : c_complete ab c = None <-> c_fuzzy c = true.
Proof. unfold c_complete. destruct (c_fuzzy c); split; congruence. Qed.

(* ---- the sort ---- *)

Lemma bool_cmp_opp a b : bool_cmp b a = CompOpp (bool_cmp a b).
Proof. destruct a, b; reflexivity. Qed.

Lemma str_cmp_opp a b : str_cmp b a = CompOpp (str_cmp a b).
Proof.
  revert b; induction a as [|x a IH]; intros [|y b]; simpl; auto.
  rewrite (N.compare_antisym x y). destruct (N.compare x y); simpl; auto.
Qed.

Lemma skey_cmp_opp a b : skey_cmp b a = CompOpp (skey_cmp a b).
Proof.
  destruct a as [[[a1 a2] a3] a4], b as [[[b1 b2] b3] b4]. simpl.
  rewrite (bool_cmp_opp a1 b1), (bool_cmp_opp a2 b2), (bool_cmp_opp a3 b3), (str_cmp_opp a4 b4).
  destruct (bool_cmp a1 b1), (bool_cmp a2 b2), (bool_cmp a3 b3); simpl; reflexivity.
Qed.

Lemma skey_leb_total a b : skey_leb a b = false -> skey_leb b a = true.
Proof.
  unfold skey_leb. rewrite (skey_cmp_opp a b). destruct (skey_cmp a b); simpl; congruence.
Qed.

Lemma bool_cmp_eq a b : bool_cmp a b = Eq <-> a = b.
Proof. destruct a, b; simpl; split; congruence. Qed.

Lemma str_cmp_eq a b : str_cmp a b = Eq <-> a = b.
Proof.
  revert b; induction a as [|x a IH]; intros [|y b]; simpl; split; intro H; try congruence; auto.
  - destruct (N.compare x y) eqn:E; try discriminate. apply N.compare_eq in E. apply IH in H. congruence.
  - inversion H; subst. rewrite N.compare_refl. apply IH. reflexivity.
Qed.

Lemma skey_cmp_eq a b : skey_cmp a b = Eq <-> a = b.
Proof.
  destruct a as [[[a1 a2] a3] a4], b as [[[b1 b2] b3] b4]. simpl. split.
  - destruct (bool_cmp a1 b1) eqn:E1; try discriminate.
    destruct (bool_cmp a2 b2) eqn:E2; try discriminate.
    destruct (bool_cmp a3 b3) eqn:E3; try discriminate.
    intro E4. apply bool_cmp_eq in E1, E2, E3. apply str_cmp_eq in E4. congruence.
  - intro H. inversion H; subst.
    rewrite (proj2 (bool_cmp_eq b1 b1) eq_refl), (proj2 (bool_cmp_eq b2 b2) eq_refl),
            (proj2 (bool_cmp_eq b3 b3) eq_refl). apply str_cmp_eq. reflexivity.
Qed.

(* transitivity of the order *)
Lemma bool_cmp_trans c a b d : bool_cmp a b = c -> bool_cmp b d = c -> bool_cmp a d = c.
Proof. destruct a, b, d; simpl; congruence. Qed.

Lemma str_cmp_lt_trans a b d : str_cmp a b = Lt -> str_cmp b d = Lt -> str_cmp a d = Lt.
Proof.
  revert b d; induction a as [|x a IH]; intros [|y b] [|z d]; simpl; try congruence.
  destruct (N.compare x y) eqn:E1; destruct (N.compare y z) eqn:E2; try discriminate; intros H1 H2.
  - apply N.compare_eq in E1, E2. subst. rewrite N.compare_refl. eauto.
  - apply N.compare_eq in E1. subst. rewrite E2. reflexivity.
  - apply N.compare_eq in E2. subst. rewrite E1. reflexivity.
  - rewrite N.compare_lt_iff in *. assert (x < z)%N by (eapply N.lt_trans; eauto).
    apply N.compare_lt_iff in H. rewrite H. reflexivity.
Qed.

Definition skey_lt a b := skey_cmp a b = Lt.

Lemma skey_lt_trans a b d : skey_lt a b -> skey_lt b d -> skey_lt a d.
Proof.
  unfold skey_lt.
  destruct a as [[[a1 a2] a3] a4], b as [[[b1 b2] b3] b4], d as [[[d1 d2] d3] d4]. simpl.
  destruct (bool_cmp a1 b1) eqn:A1; try discriminate;
  destruct (bool_cmp b1 d1) eqn:B1; try discriminate;
  try (apply bool_cmp_eq in A1; subst a1); try (apply bool_cmp_eq in B1; subst b1);
  try rewrite A1; try rewrite B1; auto;
  try (rewrite (bool_cmp_trans Lt _ _ _ A1 B1); auto; fail).
  rewrite (proj2 (bool_cmp_eq d1 d1) eq_refl).
  destruct (bool_cmp a2 b2) eqn:A2; try discriminate;
  destruct (bool_cmp b2 d2) eqn:B2; try discriminate;
  try (apply bool_cmp_eq in A2; subst a2); try (apply bool_cmp_eq in B2; subst b2);
  try rewrite A2; try rewrite B2; auto;
  try (rewrite (bool_cmp_trans Lt _ _ _ A2 B2); auto; fail).
  rewrite (proj2 (bool_cmp_eq d2 d2) eq_refl).
  destruct (bool_cmp a3 b3) eqn:A3; try discriminate;
  destruct (bool_cmp b3 d3) eqn:B3; try discriminate;
  try (apply bool_cmp_eq in A3; subst a3); try (apply bool_cmp_eq in B3; subst b3);
  try rewrite A3; try rewrite B3; auto;
  try (rewrite (bool_cmp_trans Lt _ _ _ A3 B3); auto; fail).
  rewrite (proj2 (bool_cmp_eq d3 d3) eq_refl).
  apply str_cmp_lt_trans.
Qed.

Lemma skey_leb_trans a b d : skey_leb a b = true -> skey_leb b d = true -> skey_leb a d = true.
Proof.
  unfold skey_leb. intros H1 H2.
  destruct (skey_cmp a b) eqn:E1; try discriminate;
  destruct (skey_cmp b d) eqn:E2; try discriminate.
  - apply skey_cmp_eq in E1, E2. subst. rewrite (proj2 (skey_cmp_eq d d) eq_refl). reflexivity.
  - apply skey_cmp_eq in E1. subst. rewrite E2. reflexivity.
  - apply skey_cmp_eq in E2. subst. rewrite E1. reflexivity.
  - rewrite (skey_lt_trans _ _ _ E1 E2). reflexivity.
Qed.

Section S.
Variable like : str.
Let le (a b : completion) : Prop := skey_leb (sort_key like a) (sort_key like b) = true.

Lemma insert_perm x l : Permutation (x :: l) (insert_by like x l).
Proof.
  induction l as [|y r IH]; simpl; [apply Permutation_refl|].
  destruct (skey_leb _ _); [apply Permutation_refl|].
  eapply Permutation_trans; [apply perm_swap|]. apply perm_skip. exact IH.
Qed.

Lemma sort_perm l : Permutation l (sort_completions like l).
Proof.
  induction l as [|x l IH]; simpl; [constructor|].
  eapply Permutation_trans; [|apply insert_perm]. apply perm_skip. exact IH.
Qed.

Lemma insert_sorted x l : StronglySorted le l -> StronglySorted le (insert_by like x l).
Proof.
  induction l as [|y r IH]; simpl; intros Hs.
  - constructor; constructor.
  - destruct (skey_leb (sort_key like x) (sort_key like y)) eqn:E.
    + constructor; [exact Hs|]. constructor; [exact E|].
      inversion Hs; subst. eapply Forall_impl; [|eassumption].
      intros a Ha. unfold le in *. eapply skey_leb_trans; eauto.
    + inversion Hs; subst. constructor; [apply IH; assumption|].
      apply (Permutation_Forall (insert_perm x r)). constructor; [|assumption].
      apply skey_leb_total. exact E.
Qed.

Lemma sort_sorted l : StronglySorted le (sort_completions like l).
Proof. induction l as [|x l IH]; simpl; [constructor|apply insert_sorted; exact IH]. Qed.

Definition skey_eqb (a b : skey) : bool := match skey_cmp a b with Eq => true | _ => false end.

Lemma insert_stable k x l :
  filter (fun c => skey_eqb (sort_key like c) k) (insert_by like x l) =
  filter (fun c => skey_eqb (sort_key like c) k) (x :: l).
Proof.
  induction l as [|y r IH]; [reflexivity|].
  simpl insert_by. destruct (skey_leb (sort_key like x) (sort_key like y)) eqn:E; [reflexivity|].
  simpl filter in *. rewrite IH.
  destruct (skey_eqb (sort_key like x) k) eqn:Ex; destruct (skey_eqb (sort_key like y) k) eqn:Ey; auto.
  exfalso. unfold skey_eqb in Ex, Ey.
  destruct (skey_cmp (sort_key like x) k) eqn:Cx; try discriminate.
  destruct (skey_cmp (sort_key like y) k) eqn:Cy; try discriminate.
  apply skey_cmp_eq in Cx, Cy. unfold skey_leb in E. rewrite Cx, Cy in E.
  rewrite (proj2 (skey_cmp_eq k k) eq_refl) in E. discriminate.
Qed.

Lemma sort_stable k l :
  filter (fun c => skey_eqb (sort_key like c) k) (sort_completions like l) =
  filter (fun c => skey_eqb (sort_key like c) k) l.
Proof.
  induction l as [|x l IH]; [reflexivity|].
  simpl sort_completions. rewrite insert_stable. simpl. rewrite IH. reflexivity.
Qed.

End S.

(* what the key order means, clause by clause *)
Lemma order_case_match_first like a b :
  starts_with (c_name a) like = true -> starts_with (c_name b) like = false ->
  skey_cmp (sort_key like a) (sort_key like b) = Lt.
Proof. unfold sort_key. intros -> ->. reflexivity. Qed.

Lemma order_public_private_dunder like a b :
  starts_with (c_name a) like = starts_with (c_name b) like ->
  (starts_with (c_name a) [95;95]%N = false /\ starts_with (c_name b) [95;95]%N = true) \/
  (starts_with (c_name a) [95;95]%N = starts_with (c_name b) [95;95]%N /\
   starts_with (c_name a) [95]%N = false /\ starts_with (c_name b) [95]%N = true) ->
  skey_cmp (sort_key like a) (sort_key like b) = Lt.
Proof.
  unfold sort_key.
  generalize (starts_with (c_name a) like) (starts_with (c_name b) like)
             (starts_with (c_name a) [95;95]%N) (starts_with (c_name b) [95;95]%N)
             (starts_with (c_name a) [95]%N) (starts_with (c_name b) [95]%N)
             (lpname (c_src a)) (lpname (c_src b)).
  intros a1 b1 a2 b2 a3 b3 s1 s2 -> [[-> ->]|[-> [-> ->]]]; destruct b1; try destruct b2; reflexivity.
Qed.

Lemma order_alphabetical like a b :
  starts_with (c_name a) like = starts_with (c_name b) like ->
  starts_with (c_name a) [95;95]%N = starts_with (c_name b) [95;95]%N ->
  starts_with (c_name a) [95]%N = starts_with (c_name b) [95]%N ->
  skey_cmp (sort_key like a) (sort_key like b) = str_cmp (lpname (c_src a)) (lpname (c_src b)).
Proof.
  unfold sort_key.
  generalize (starts_with (c_name a) like) (starts_with (c_name b) like)
             (starts_with (c_name a) [95;95]%N) (starts_with (c_name b) [95;95]%N)
             (starts_with (c_name a) [95]%N) (starts_with (c_name b) [95]%N)
             (lpname (c_src a)) (lpname (c_src b)).
  intros a1 b1 a2 b2 a3 b3 s1 s2 -> -> ->. destruct b1, b2, b3; reflexivity.
Qed.

(* ---- statements about the whole pipeline (what Script.complete returns) ---- *)

Definition extends_fragment (fuzzy : bool) (llike s : str) : Prop :=
  if fuzzy then Subseq llike s else Prefix llike s.

Lemma model_results_extend ab like llike fuzzy imported names c :
  In c (complete_model ab like llike fuzzy imported names) ->
  In (c_src c) names /\ extends_fragment fuzzy llike (lname (c_src c)) /\
  c_prefix_len c = length like /\ is_del (c_src c) = false /\
  c_name_with_symbols ab c = firstn (length like) (c_name c) ++ c_complete_str ab c /\
  c_complete ab c = (if fuzzy then None else Some (c_complete_str ab c)).
Proof.
  intros H. unfold complete_model in H.
  apply (Permutation_in _ (Permutation_sym (sort_perm like _))) in H.
  apply go_good in H. destruct H as [H1 [H2 [H3 [H4 [H5 H6]]]]].
  split; [exact H1|]. split.
  { unfold extends_fragment, match_ in *. destruct fuzzy.
    - apply fuzzy_match_subseq. exact H2.
    - apply start_match_prefix. exact H2. }
  split; [exact H3|]. split; [exact H5|]. split.
  - rewrite <- H3. apply complete_suffix.
  - unfold c_complete. rewrite H4. reflexivity.
Qed.

Lemma model_no_duplicate_pairs ab like llike fuzzy imported names :
  NoDup (map (c_key ab) (complete_model ab like llike fuzzy imported names)).
Proof.
  unfold complete_model.
  eapply Permutation_NoDup; [apply Permutation_map, sort_perm|].
  apply go_nodup.
Qed.

Lemma model_sorted ab like llike fuzzy imported names :
  let out := complete_model ab like llike fuzzy imported names in
  StronglySorted (fun a b => skey_leb (sort_key like a) (sort_key like b) = true) out /\
  Permutation (filter_names ab like llike fuzzy imported names) out /\
  (forall k, filter (fun c => skey_eqb (sort_key like c) k) out =
             filter (fun c => skey_eqb (sort_key like c) k) (filter_names ab like llike fuzzy imported names)).
Proof.
  simpl. split; [apply sort_sorted|]. split; [apply sort_perm|]. intro k. apply sort_stable.
Qed.

Lemma model_filter_complete ab like llike fuzzy imported names n :
  In n names ->
  (str_in (sname n) imported && negb (str_eqb (sname n) llike)) = false ->
  match_ (lname n) llike fuzzy = true ->
  In (c_key ab {| c_src := n; c_like_len := length like; c_fuzzy := fuzzy |})
     (map (c_key ab) (complete_model ab like llike fuzzy imported names)) \/
  (exists m, In m names /\ is_del m = true /\
             c_key ab {| c_src := m; c_like_len := length like; c_fuzzy := fuzzy |} =
             c_key ab {| c_src := n; c_like_len := length like; c_fuzzy := fuzzy |}).
Proof.
  intros H1 H2 H3.
  destruct (go_complete ab like llike fuzzy imported names [] n H1 H2 H3) as [H|[H|H]].
  - contradiction.
  - left. unfold complete_model.
    eapply Permutation_in; [apply Permutation_map, sort_perm|]. exact H.
  - right. exact H.
Qed.
