(* Proofs about the C12 routing model. *)
From JV Require Import Base.Str Proofs.Str_Proofs Model.C12_Routes.

(* ------------------------------------------------------------------ basics *)

Lemma smem_In x l : smem x l = true <-> In x l.
Proof.
  induction l as [|y l IH]; simpl.
  - split; [discriminate|tauto].
  - rewrite orb_true_iff, str_eqb_eq, IH. split; intros [H|H]; auto.
Qed.

Lemma remove_first_incl x l : incl (remove_first x l) l.
Proof.
  induction l as [|y l IH]; simpl.
  - apply incl_refl.
  - destruct (str_eqb x y).
    + apply incl_tl, incl_refl.
    + intros z [->|Hz]; [left; reflexivity | right; apply IH, Hz].
Qed.

Lemma base_incl_env c : incl (base_sys_path c) (env_path c).
Proof. apply remove_first_incl. Qed.

Lemma safe_filter_incl_arg c sp : incl (safe_filter c sp) sp.
Proof.
  unfold safe_filter. destruct (unsafe c); [apply incl_refl|].
  intros x Hx. apply filter_In in Hx. tauto.
Qed.

Lemma safe_filter_incl_base c sp : unsafe c = false -> incl (safe_filter c sp) (base_sys_path c).
Proof.
  intros Hu x Hx. unfold safe_filter in Hx. rewrite Hu in Hx.
  apply filter_In in Hx. apply smem_In. tauto.
Qed.

(* the filter keeps exactly the entries of the argument that are base entries, in order *)
Lemma safe_filter_spec c sp x :
  unsafe c = false -> (In x (safe_filter c sp) <-> In x sp /\ In x (base_sys_path c)).
Proof.
  intros Hu. unfold safe_filter. rewrite Hu, filter_In, smem_In. tauto.
Qed.

(* ------------------------------------------------------ the routing table *)

Lemma route_search_eq c name0 dotted fr sp d s :
  import_route c name0 dotted fr sp = CompiledImport d s -> d = dotted /\ s = safe_filter c sp.
Proof.
  unfold import_route. destruct (smem name0 (auto_import c)).
  - intros H; inversion H; auto.
  - destruct fr; intros H; inversion H; auto.
Qed.

Lemma exec_only_from_base_path c name0 dotted fr sp :
  unsafe c = false ->
  forall d, In d (search_of (import_route c name0 dotted fr sp)) ->
            In d (base_sys_path c) /\ In d (env_path c) /\ In d sp.
Proof.
  intros Hu d Hd.
  destruct (import_route c name0 dotted fr sp) eqn:E; simpl in Hd; try contradiction.
  apply route_search_eq in E as [_ ->].
  pose proof (safe_filter_incl_base c sp Hu d Hd) as Hb.
  repeat split; auto.
  - apply base_incl_env, Hb.
  - apply (safe_filter_incl_arg c sp), Hd.
Qed.

Lemma no_project_dir_searched c name0 dotted fr sp (project_dirs : list str) :
  unsafe c = false ->
  (forall d, In d project_dirs -> ~ In d (env_path c)) ->
  forall d, In d project_dirs -> ~ In d (search_of (import_route c name0 dotted fr sp)).
Proof.
  intros Hu Hdis d Hd Hs.
  apply (exec_only_from_base_path c name0 dotted fr sp Hu) in Hs as (_ & He & _).
  exact (Hdis d Hd He).
Qed.

Lemma exec_iff c name0 dotted fr sp :
  is_exec (import_route c name0 dotted fr sp) = true <->
  (In name0 (auto_import c) \/ fr = FNoSource).
Proof.
  unfold import_route. destruct (smem name0 (auto_import c)) eqn:E.
  - simpl. split; auto. intros _. left. apply smem_In, E.
  - assert (~ In name0 (auto_import c)) as Hn by (rewrite <- smem_In; congruence).
    destruct fr; simpl; split; intro H; try discriminate; auto;
      destruct H as [H|H]; try contradiction; discriminate.
Qed.

Lemma source_is_parsed c name0 dotted f sp :
  ~ In name0 (auto_import c) ->
  import_route c name0 dotted (FSource f) sp = ParseSource f.
Proof.
  intros Hn. unfold import_route.
  destruct (smem name0 (auto_import c)) eqn:E; auto.
  apply smem_In in E. contradiction.
Qed.

(* ---------------------------------------------------- try / finally programs *)

Definition load_status (e : effect) : status :=
  match raises e with
  | Some BaseExc => Raised BaseExc
  | _ => Returned
  end.

Definition info_status (e : effect) : status :=
  match raises e with
  | None => Returned
  | Some ImportError => Returned
  | Some x => Raised x
  end.

Lemma load_module_exec sp eff m :
  exec (Some sp) eff load_module_prog m =
  ({| sys_path := sys_path m; temp := sys_path m; events := EImport sp :: events m |},
   load_status eff).
Proof.
  unfold load_status. destruct eff as [f r]. simpl.
  destruct r as [[| |]|]; reflexivity.
Qed.

Lemma get_module_info_exec_some sp eff m :
  exec (Some sp) eff get_module_info_prog m =
  ({| sys_path := sys_path m; temp := sys_path m; events := EFind sp :: events m |},
   info_status eff).
Proof.
  unfold info_status. destruct eff as [f r]. simpl.
  destruct r as [[| |]|]; reflexivity.
Qed.

Lemma get_module_info_exec_none eff m :
  exec None eff get_module_info_prog m =
  ({| sys_path := on_path eff (sys_path m); temp := temp m;
      events := EFind (sys_path m) :: events m |},
   info_status eff).
Proof.
  unfold info_status. destruct eff as [f r]. simpl.
  destruct r as [[| |]|]; reflexivity.
Qed.

Lemma sys_path_restored sp eff m :
  sys_path (fst (exec (Some sp) eff load_module_prog m)) = sys_path m /\
  sys_path (fst (exec (Some sp) eff get_module_info_prog m)) = sys_path m /\
  snd (exec (Some sp) eff load_module_prog m) = load_status eff /\
  snd (exec (Some sp) eff get_module_info_prog m) = info_status eff.
Proof.
  rewrite load_module_exec, get_module_info_exec_some. simpl. auto.
Qed.

Lemma import_runs_under_argument sp eff m :
  events (fst (exec (Some sp) eff load_module_prog m)) = EImport sp :: events m.
Proof. rewrite load_module_exec. reflexivity. Qed.

Lemma nofinally_not_restored :
  exists sp eff m,
    sys_path (fst (exec (Some sp) eff load_module_prog_nofinally m)) <> sys_path m /\
    raises eff = Some ImportError.
Proof.
  exists [[1%N]], {| on_path := fun p => p; raises := Some ImportError |}, (init_mem [[2%N]]).
  split; [|reflexivity]. vm_compute. discriminate.
Qed.

Lemma nofinally_restored_on_normal_exit sp eff m :
  raises eff = None ->
  sys_path (fst (exec (Some sp) eff load_module_prog_nofinally m)) = sys_path m.
Proof. destruct eff as [f r]. simpl. intros ->. reflexivity. Qed.

(* ------------------------------------------------------- the helper machine *)

Definition confined (allowed : list str -> Prop) (m : mem) : Prop :=
  forall s, In s (import_searches (events m)) -> allowed s.

Lemma step_invariant (allowed : list str -> Prop) m r eff :
  (swaps r = false -> neutral eff) ->
  (forall sp, r = RLoadModule sp -> allowed sp) ->
  allowed (sys_path m) ->
  confined allowed m ->
  sys_path (step m (r, eff)) = sys_path m /\ confined allowed (step m (r, eff)).
Proof.
  intros Hn Hl Ha Hc. destruct r as [[sp|]|sp| |]; simpl.
  - rewrite get_module_info_exec_some. simpl. split; auto.
  - rewrite get_module_info_exec_none. simpl. split.
    + apply Hn. reflexivity.
    + exact Hc.
  - rewrite load_module_exec. simpl. split; auto.
    intros s [<-|Hs]; [apply Hl; reflexivity | apply Hc, Hs].
  - split.
    + apply Hn. reflexivity.
    + intros s [<-|Hs]; [exact Ha | apply Hc, Hs].
  - split; auto.
Qed.

Lemma run_invariant (allowed : list str -> Prop) rqs : forall m,
  (forall r eff, In (r, eff) rqs -> swaps r = false -> neutral eff) ->
  (forall sp eff, In (RLoadModule sp, eff) rqs -> allowed sp) ->
  allowed (sys_path m) ->
  confined allowed m ->
  sys_path (run m rqs) = sys_path m /\ confined allowed (run m rqs).
Proof.
  unfold run.
  induction rqs as [|[r eff] rqs IH]; intros m Hn Hl Ha Hc; cbn [fold_left].
  - auto.
  - destruct (step_invariant allowed m r eff) as [Hp Hc']; auto.
    + intros H. apply (Hn r eff); simpl; auto.
    + intros sp ->. apply (Hl sp eff). simpl. auto.
    + destruct (IH (step m (r, eff))) as [Hp2 Hc2]; auto.
      * intros r' e' Hin. apply Hn. simpl. auto.
      * intros sp e' Hin. apply (Hl sp e'). simpl. auto.
      * rewrite Hp. exact Ha.
      * split; [rewrite Hp2; exact Hp | exact Hc2].
Qed.

(* requests generated by the host's routing with load_unsafe_extensions = false *)
Lemma requests_load_in_env c op sp :
  unsafe c = false -> In (RLoadModule sp) (requests_of c op) -> incl sp (env_path c).
Proof.
  intros Hu Hin. destruct op as [name0 dotted fr sp0 top| |]; simpl in Hin.
  - apply in_app_or in Hin as [Hin|Hin].
    + destruct (asks_finder c name0); simpl in Hin; [destruct Hin as [Hin|[]]; discriminate | contradiction].
    + destruct (import_route c name0 dotted fr sp0) eqn:E; simpl in Hin; try contradiction.
      destruct Hin as [Hin|[]]. inversion Hin; subst.
      intros d Hd.
      apply (exec_only_from_base_path c name0 dotted fr sp0 Hu d).
      rewrite E. exact Hd.
  - destruct Hin as [Hin|[]]; discriminate.
  - destruct Hin as [Hin|[]]; discriminate.
Qed.

Lemma query_confined c (ops : list host_op) (rqs : list (request * effect)) :
  unsafe c = false ->
  (forall r eff, In (r, eff) rqs -> exists op, In op ops /\ In r (requests_of c op)) ->
  (forall r eff, In (r, eff) rqs -> swaps r = false -> neutral eff) ->
  sys_path (run (init_mem (env_path c)) rqs) = env_path c /\
  (forall s, In s (import_searches (events (run (init_mem (env_path c)) rqs))) ->
             incl s (env_path c)).
Proof.
  intros Hu Hgen Hn.
  destruct (run_invariant (fun s => incl s (env_path c)) rqs (init_mem (env_path c))) as [H1 H2]; auto.
  - intros sp eff Hin. destruct (Hgen _ _ Hin) as (op & _ & Hr).
    apply (requests_load_in_env c op sp Hu Hr).
  - simpl. apply incl_refl.
  - intros s [].
Qed.

Lemma query_never_searches_project c ops rqs (project_dirs : list str) :
  unsafe c = false ->
  (forall d, In d project_dirs -> ~ In d (env_path c)) ->
  (forall r eff, In (r, eff) rqs -> exists op, In op ops /\ In r (requests_of c op)) ->
  (forall r eff, In (r, eff) rqs -> swaps r = false -> neutral eff) ->
  forall s d, In s (import_searches (events (run (init_mem (env_path c)) rqs))) ->
              In d project_dirs -> ~ In d s.
Proof.
  intros Hu Hdis Hgen Hn s d Hs Hd Hin.
  destruct (query_confined c ops rqs Hu Hgen Hn) as [_ H].
  exact (Hdis d Hd (H s Hs d Hin)).
Qed.

(* ------------------------------------------------ non-vacuity / refutations *)


Lemma unsafe_searches_project :
  exists c name0 dotted fr sp d,
    unsafe c = effective_unsafe (Discovered (Some true)) /\
    ~ In d (env_path c) /\
    In d (search_of (import_route c name0 dotted fr sp)).
Proof.
  exists (ex_cfg true), ex_gi, ex_gi, (FSource [120]%N), (ex_proj :: ex_env), ex_proj.
  split; [reflexivity|]. split.
  - simpl. intros [H|[H|[H|[]]]]; discriminate.
  - vm_compute. left. reflexivity.
Qed.

Lemma safe_example :
  import_route (ex_cfg false) ex_gi ex_gi (FSource [120]%N) (ex_proj :: ex_env)
  = CompiledImport ex_gi [[115;116;100]; [115;105;116;101]]%N.
Proof. vm_compute. reflexivity. Qed.

(* ------------------------------------------------------------ the site table *)

Lemma exec_sites_are_the_two_imports :
  exec_sites = [site_getattr_paths_import; site_load_module_import] /\
  forallb (fun s => implb (exec_kind (let '(_, _, k) := site_key s in k)) (is_exec_import_role (site_role_of s)))
          site_table = true.
Proof. split; vm_compute; reflexivity. Qed.
