(* C20: lemmas about the sys.path composition and the settings round trip. *)
From Coq Require Import List NArith Bool Arith Lia.
From JV Require Import Base.Str Proofs.Str_Proofs Model.C20_SysPath.
Import ListNotations.

(* ------------------------------------------------------------------ basic list/string facts *)
Lemma inb_In x l : inb x l = true <-> In x l.
Proof.
  induction l as [|y l IH]; simpl.
  - split; [discriminate|tauto].
  - rewrite orb_true_iff, str_eqb_eq, IH. split; intros [H|H]; auto.
Qed.

Lemma inb_false x l : inb x l = false <-> ~ In x l.
Proof.
  rewrite <- inb_In. destruct (inb x l); split; congruence.
Qed.

Lemma inb_app x a b : inb x (a ++ b) = inb x a || inb x b.
Proof. induction a as [|y a IH]; simpl; auto. rewrite IH. apply orb_assoc. Qed.

Lemma strs_eqb_eq a b : strs_eqb a b = true <-> a = b.
Proof.
  revert b; induction a as [|x a IH]; intros [|y b]; simpl; split; intro H; try congruence; auto.
  - apply andb_true_iff in H as [H1 H2]. apply str_eqb_eq in H1. apply IH in H2. congruence.
  - inversion H; subst. rewrite str_eqb_refl. simpl. apply IH. reflexivity.
Qed.

Lemma path_eqb_eq a b : path_eqb a b = true <-> a = b.
Proof.
  unfold path_eqb. rewrite andb_true_iff, str_eqb_eq, strs_eqb_eq.
  destruct a, b; simpl. split; [intros [-> ->]; reflexivity|]. intros H; inversion H; auto.
Qed.

Lemma path_eqb_refl a : path_eqb a a = true.
Proof. apply path_eqb_eq. reflexivity. Qed.

Lemma filter_none {A} (f : A -> bool) l : (forall x, In x l -> f x = false) -> filter f l = [].
Proof.
  induction l as [|a l IH]; simpl; intros H; auto.
  rewrite (H a) by auto. apply IH. intros x Hx. apply H. auto.
Qed.

Lemma filter_all {A} (f : A -> bool) l : (forall x, In x l -> f x = true) -> filter f l = l.
Proof.
  induction l as [|a l IH]; simpl; intros H; auto.
  rewrite (H a) by auto. f_equal. apply IH. intros x Hx. apply H. auto.
Qed.

Lemma filter_filter {A} (f g : A -> bool) l :
  filter f (filter g l) = filter (fun x => g x && f x) l.
Proof.
  induction l as [|a l IH]; simpl; auto.
  destruct (g a); simpl; [destruct (f a)|]; rewrite IH; reflexivity.
Qed.

Lemma filter_rev' {A} (f : A -> bool) l : filter f (rev l) = rev (filter f l).
Proof.
  induction l as [|a l IH]; simpl; auto.
  rewrite filter_app, IH. simpl. destruct (f a); simpl; auto. rewrite app_nil_r. reflexivity.
Qed.

(* ------------------------------------------------------------------ Sub *)
Lemma Sub_refl {A} (l : list A) : Sub l l.
Proof. induction l; [apply Sub_nil|apply Sub_take; auto]. Qed.

Lemma Sub_app_l {A} (a pre l : list A) : Sub a l -> Sub a (pre ++ l).
Proof. induction pre; simpl; auto. intros. apply Sub_skip. auto. Qed.

Lemma Sub_app_r {A} (a l post : list A) : Sub a l -> Sub a (l ++ post).
Proof. induction 1; simpl; [apply Sub_nil|apply Sub_skip; auto|apply Sub_take; auto]. Qed.

Lemma Sub_In {A} (a l : list A) x : Sub a l -> In x a -> In x l.
Proof. induction 1; simpl; intros H1; tauto. Qed.

(* ------------------------------------------------------------------ _remove_duplicates_from_path *)
Lemma dedupe_acc_In used l x : In x (dedupe_acc used l) <-> In x l /\ ~ In x used.
Proof.
  revert used; induction l as [|a l IH]; simpl; intros used.
  - tauto.
  - destruct (inb a used) eqn:E.
    + rewrite IH. apply inb_In in E. split; [tauto|]. intros [[->|H] Hn]; [contradiction|tauto].
    + apply inb_false in E. simpl. rewrite IH. simpl. split.
      * intros [->|[H Hn]]; [tauto|]. split; [tauto|]. intro; apply Hn; right; auto.
      * intros [[->|H] Hn]; [left; reflexivity|].
        destruct (str_eqb a x) eqn:E2.
        -- apply str_eqb_eq in E2. left; auto.
        -- right. split; auto. intros [->|Hu]; [rewrite str_eqb_refl in E2; discriminate|contradiction].
Qed.

Lemma dedupe_acc_NoDup used l : NoDup (dedupe_acc used l).
Proof.
  revert used; induction l as [|a l IH]; simpl; intros used; [constructor|].
  destruct (inb a used); auto. constructor; auto.
  rewrite dedupe_acc_In. intros [_ H]. apply H. left. reflexivity.
Qed.

Lemma dedupe_acc_ext u1 u2 l : (forall x, inb x u1 = inb x u2) -> dedupe_acc u1 l = dedupe_acc u2 l.
Proof.
  revert u1 u2; induction l as [|a l IH]; simpl; intros u1 u2 H; auto.
  rewrite (H a). destruct (inb a u2); auto. f_equal. apply IH. intros x. simpl. rewrite H. reflexivity.
Qed.

Lemma dedupe_acc_filter l : forall u w,
  dedupe_acc (u ++ w) l = filter (fun x => negb (inb x u)) (dedupe_acc w l).
Proof.
  induction l as [|a l IH]; simpl; intros u w; auto.
  rewrite inb_app. destruct (inb a w) eqn:Ew.
  - rewrite orb_true_r. apply IH.
  - rewrite orb_false_r. destruct (inb a u) eqn:Eu; simpl; rewrite Eu; simpl.
    + rewrite <- IH. apply dedupe_acc_ext. intros x. rewrite !inb_app. simpl.
      destruct (str_eqb x a) eqn:E; simpl; auto.
      apply str_eqb_eq in E. subst. rewrite Eu. reflexivity.
    + f_equal. rewrite <- IH. apply dedupe_acc_ext. intros x. simpl. rewrite !inb_app. simpl.
      destruct (str_eqb x a), (inb x u); reflexivity.
Qed.

Lemma dedupe_acc_app a : forall u b,
  dedupe_acc u (a ++ b) = dedupe_acc u a ++ dedupe_acc (a ++ u) b.
Proof.
  induction a as [|x a IH]; simpl; intros u b; auto.
  destruct (inb x u) eqn:E.
  - rewrite IH. f_equal. apply dedupe_acc_ext. intros y. simpl.
    destruct (str_eqb y x) eqn:E2; simpl; auto.
    apply str_eqb_eq in E2. subst. rewrite inb_app, E. apply orb_true_r.
  - simpl. f_equal. rewrite IH. f_equal. apply dedupe_acc_ext. intros y. simpl. rewrite !inb_app. simpl.
    destruct (str_eqb y x), (inb y a); reflexivity.
Qed.

Lemma remove_duplicates_app a b :
  remove_duplicates (a ++ b) =
  remove_duplicates a ++ filter (fun x => negb (inb x a)) (remove_duplicates b).
Proof.
  unfold remove_duplicates. rewrite dedupe_acc_app. f_equal.
  rewrite <- (dedupe_acc_filter b a []). reflexivity.
Qed.

Lemma remove_duplicates_In l x : In x (remove_duplicates l) <-> In x l.
Proof. unfold remove_duplicates. rewrite dedupe_acc_In. simpl. tauto. Qed.

Lemma dedupe_acc_id l : forall used,
  NoDup l -> (forall x, In x l -> ~ In x used) -> dedupe_acc used l = l.
Proof.
  induction l as [|a l IH]; simpl; intros used Hn Hd; auto.
  inversion Hn; subst.
  assert (E : inb a used = false) by (apply inb_false; apply Hd; auto).
  rewrite E. f_equal. apply IH; auto.
  intros x Hx [->|Hu]; [contradiction|]. apply (Hd x); auto.
Qed.

Lemma remove_duplicates_id l : NoDup l -> remove_duplicates l = l.
Proof. intros H. apply dedupe_acc_id; auto. Qed.

(* ------------------------------------------------------------------ composition theorems *)
Section Compose.
Variables (p : project) (env : list str) (script : option path) (inits : list path)
          (buildout : list str) (ap ai : bool).

Let result := get_sys_path p env script inits buildout ap ai.
Let pre := prefixed p.
Let base := base_sys_path p env.
Let suf := suffixed p script inits buildout ap ai.

Lemma sys_path_nodup : NoDup (get_sys_path p env script inits buildout ap ai).
Proof. apply dedupe_acc_NoDup. Qed.

Lemma sys_path_project_first :
  pr_smart p = true ->
  exists rest, get_sys_path p env script inits buildout ap ai = path_str (pr_path p) :: rest.
Proof.
  intros H. unfold get_sys_path, prefixed, remove_duplicates. rewrite H. simpl. eexists. reflexivity.
Qed.

Lemma sys_path_decomposition :
  get_sys_path p env script inits buildout ap ai =
  remove_duplicates (prefixed p) ++
  filter (fun x => negb (inb x (prefixed p))) (remove_duplicates (base_sys_path p env)) ++
  filter (fun x => negb (inb x (prefixed p ++ base_sys_path p env)))
         (remove_duplicates (suffixed p script inits buildout ap ai)).
Proof.
  unfold get_sys_path. rewrite remove_duplicates_app. f_equal.
  rewrite remove_duplicates_app, filter_app. f_equal.
  rewrite filter_filter. apply filter_ext. intros x. rewrite inb_app, negb_orb. apply andb_comm.
Qed.

Lemma sys_path_front_tail :
  get_sys_path p env script inits buildout ap ai =
  remove_duplicates (prefixed p ++ base_sys_path p env) ++
  filter (fun x => negb (inb x (prefixed p ++ base_sys_path p env)))
         (remove_duplicates (suffixed p script inits buildout ap ai)).
Proof.
  unfold get_sys_path. rewrite app_assoc. apply remove_duplicates_app.
Qed.

Lemma sys_path_keeps_base_order :
  Sub (filter (fun x => negb (inb x (prefixed p))) (remove_duplicates (base_sys_path p env)))
      (get_sys_path p env script inits buildout ap ai).
Proof.
  rewrite sys_path_decomposition. apply Sub_app_l. apply Sub_app_r. apply Sub_refl.
Qed.

Lemma sys_path_members_raw x :
  In x (get_sys_path p env script inits buildout ap ai) <->
  In x (prefixed p) \/ In x (base_sys_path p env) \/ In x (suffixed p script inits buildout ap ai).
Proof.
  unfold get_sys_path. rewrite remove_duplicates_In, !in_app_iff. tauto.
Qed.

End Compose.

Lemma sys_path_keeps_explicit_sys_path p env script inits buildout ap ai l :
  pr_sys_path p = Some l -> NoDup l -> ~ In (path_str (pr_path p)) l ->
  Sub l (get_sys_path p env script inits buildout ap ai).
Proof.
  intros Hs Hn Hp.
  pose proof (sys_path_keeps_base_order p env script inits buildout ap ai) as H.
  unfold base_sys_path in H. rewrite Hs in H. rewrite remove_duplicates_id in H by auto.
  rewrite filter_all in H; auto.
  intros x Hx. apply negb_true_iff, inb_false. unfold prefixed.
  destruct (pr_smart p), (pr_django p); simpl; intros Hf; try tauto;
    repeat destruct Hf as [Hf|Hf]; try tauto; subst; contradiction.
Qed.

Lemma sys_path_not_smart p env script inits buildout ap ai :
  pr_smart p = false -> pr_django p = false ->
  get_sys_path p env script inits buildout ap ai =
  remove_duplicates (base_sys_path p env ++ pr_added p).
Proof.
  intros H1 H2. unfold get_sys_path, prefixed, suffixed. rewrite H1, H2. simpl.
  rewrite app_nil_r. reflexivity.
Qed.

Lemma sys_path_smart_shape p env sp inits buildout ai :
  pr_smart p = true -> pr_django p = false ->
  get_sys_path p env (Some sp) inits buildout true ai =
  remove_duplicates (path_str (pr_path p) :: base_sys_path p env) ++
  filter (fun x => negb (inb x (path_str (pr_path p) :: base_sys_path p env)))
         (remove_duplicates (pr_added p ++ buildout ++ rev (traversed p sp inits ai))).
Proof.
  intros H1 H2. rewrite sys_path_front_tail. unfold prefixed, suffixed. rewrite H1, H2. reflexivity.
Qed.

Lemma sys_path_members p env script inits buildout ap ai x :
  In x (get_sys_path p env script inits buildout ap ai) <->
  In x (prefixed p) \/ In x (base_sys_path p env) \/ In x (pr_added p) \/
  (pr_smart p = true /\ exists sp, script = Some sp /\
     (In x buildout \/ (ap = true /\ In x (traversed p sp inits ai)))).
Proof.
  rewrite sys_path_members_raw. unfold suffixed. rewrite in_app_iff.
  destruct (pr_smart p); [destruct script as [sp|]|].
  - rewrite in_app_iff. destruct ap.
    + rewrite <- in_rev. split.
      * intros [H|[H|[H|[H|H]]]]; auto; right; right; right; split; auto; exists sp; auto.
      * intros [H|[H|[H|[_ [sp' [E H]]]]]]; auto. inversion E; subst.
        destruct H as [H|[_ H]]; auto 6.
    + simpl. split.
      * intros [H|[H|[H|[H|[]]]]]; auto. right; right; right; split; auto; exists sp; auto.
      * intros [H|[H|[H|[_ [sp' [E H]]]]]]; auto. destruct H as [H|[H _]]; [auto 6|discriminate].
  - simpl. split.
    + intros [H|[H|[H|[]]]]; auto.
    + intros [H|[H|[H|[_ [sp' [E _]]]]]]; auto. discriminate.
  - simpl. split.
    + intros [H|[H|[H|[]]]]; auto.
    + intros [H|[H|[H|[E _]]]]; auto. discriminate.
Qed.

(* ------------------------------------------------------------------ parents / inside / traverse *)
Definition down (n : nat) : list nat := rev (seq 0 n).

Lemma down_S n : down (S n) = n :: down n.
Proof. unfold down. rewrite seq_S. simpl. rewrite rev_app_distr. reflexivity. Qed.

Lemma down_lt n k : In k (down n) -> k < n.
Proof. unfold down. rewrite <- in_rev, in_seq. lia. Qed.

Lemma strict_prefixb_spec a b :
  strict_prefixb a b = true <-> exists c r, b = a ++ c :: r.
Proof.
  revert b; induction a as [|x a IH]; intros [|y b]; simpl.
  - split; [discriminate|]. intros [c [r H]]. discriminate.
  - split; auto. intros _. exists y, b. reflexivity.
  - split; [discriminate|]. intros [c [r H]]. discriminate.
  - rewrite andb_true_iff, str_eqb_eq, IH. split.
    + intros [-> [c [r ->]]]. exists c, r. reflexivity.
    + intros [c [r H]]. inversion H; subst. split; auto. exists c, r. reflexivity.
Qed.

Lemma strict_prefix_firstn {A} (a b : list A) :
  (exists c r, b = a ++ c :: r) <-> exists k, k < length b /\ a = firstn k b.
Proof.
  split.
  - intros [c [r ->]]. exists (length a). split.
    + rewrite app_length. simpl. lia.
    + rewrite firstn_app, Nat.sub_diag, firstn_all. simpl. rewrite app_nil_r. reflexivity.
  - intros [k [Hk ->]]. pose proof (firstn_skipn k b) as F.
    destruct (skipn k b) as [|c r] eqn:E.
    + exfalso. assert (H : length (skipn k b) = 0) by (rewrite E; reflexivity).
      rewrite skipn_length in H. lia.
    + exists c, r. symmetry. exact F.
Qed.

Lemma inside_spec a q :
  inside a q = true <-> p_root a = p_root q /\ exists c r, p_parts q = p_parts a ++ c :: r.
Proof. unfold inside. rewrite andb_true_iff, str_eqb_eq, strict_prefixb_spec. tauto. Qed.

Lemma in_parents_spec a q :
  in_parents a q = true <->
  exists k, k < length (p_parts q) /\ a = mkpath (p_root q) (firstn k (p_parts q)).
Proof.
  unfold in_parents, parents. rewrite existsb_exists. split.
  - intros [x [Hx E]]. apply in_map_iff in Hx as [k [<- Hk]].
    apply path_eqb_eq in E. exists k. split; auto.
    rewrite <- in_rev, in_seq in Hk. lia.
  - intros [k [Hk ->]]. eexists. split; [|apply path_eqb_refl].
    apply in_map_iff. exists k. split; auto. rewrite <- in_rev, in_seq. lia.
Qed.

Lemma in_parents_inside a q : in_parents a q = inside a q.
Proof.
  apply eq_true_iff_eq. rewrite in_parents_spec, inside_spec, strict_prefix_firstn.
  destruct a as [ra pa]; simpl. split.
  - intros [k [Hk E]]. inversion E; subst. split; auto. exists k. auto.
  - intros [-> [k [Hk ->]]]. exists k. auto.
Qed.

Lemma inside_irrefl a : inside a a = false.
Proof.
  apply not_true_iff_false. rewrite inside_spec. intros [_ [c [r H]]].
  assert (L : length (p_parts a) = length (p_parts a ++ c :: r)) by (rewrite <- H; reflexivity).
  rewrite app_length in L. simpl in L. lia.
Qed.

Lemma firstn_le_app {A} (l : list A) : forall k k', k <= k' -> exists t, firstn k' l = firstn k l ++ t.
Proof.
  induction l as [|x l IH]; intros k k' H.
  - exists []. destruct k, k'; reflexivity.
  - destruct k; [exists (firstn k' (x :: l)); reflexivity|].
    destruct k'; [lia|]. simpl. destruct (IH k k') as [t Ht]; [lia|].
    exists t. rewrite Ht. reflexivity.
Qed.

Lemma inside_firstn_mono proj r l k k' :
  k <= k' -> inside proj (mkpath r (firstn k l)) = true -> inside proj (mkpath r (firstn k' l)) = true.
Proof.
  intros Hk. rewrite !inside_spec. simpl. intros [Hr [c [t E]]]. split; auto.
  destruct (firstn_le_app l k k' Hk) as [u Hu]. rewrite Hu, E.
  exists c, (t ++ u). rewrite <- app_assoc. reflexivity.
Qed.

Definition keep_dir (proj : path) (ai : bool) (inits : list path) (q : path) : bool :=
  inside proj q && (ai || negb (has_init inits q)).

Lemma traverse_down proj ai inits r l : forall n,
  traverse proj ai inits (map (fun k => mkpath r (firstn k l)) (down n)) =
  map path_str (filter (keep_dir proj ai inits) (map (fun k => mkpath r (firstn k l)) (down n))).
Proof.
  induction n as [|n IH]; [reflexivity|].
  rewrite down_S. cbn [map traverse filter]. rewrite in_parents_inside. unfold keep_dir at 1.
  destruct (inside proj (mkpath r (firstn n l))) eqn:Ei.
  - assert (Ep : path_eqb (mkpath r (firstn n l)) proj = false).
    { apply not_true_iff_false. intros H. apply path_eqb_eq in H. rewrite H in Ei.
      rewrite inside_irrefl in Ei. discriminate. }
    rewrite Ep. cbn [orb negb andb].
    destruct ai; cbn [negb andb orb].
    + cbn [map]. rewrite IH. reflexivity.
    + destruct (has_init inits (mkpath r (firstn n l))); cbn [negb]; [apply IH|].
      cbn [map]. rewrite IH. reflexivity.
  - rewrite orb_true_r. cbn [andb]. rewrite filter_none; [reflexivity|].
    intros x Hx. apply in_map_iff in Hx as [k [<- Hk]]. apply down_lt in Hk.
    unfold keep_dir. destruct (inside proj (mkpath r (firstn k l))) eqn:E; auto.
    apply (inside_firstn_mono proj r l k n) in E; [congruence|lia].
Qed.

Lemma traversed_spec p sp inits ai :
  traversed p sp inits ai =
  map path_str (filter (fun q => inside (pr_path p) q && (ai || negb (has_init inits q))) (parents sp)).
Proof. unfold traversed, parents. apply traverse_down. Qed.

Lemma traversed_deepest_last p sp inits ai :
  rev (traversed p sp inits ai) =
  map path_str
    (filter (fun q => inside (pr_path p) q && (ai || negb (has_init inits q)))
       (map (fun k => mkpath (p_root sp) (firstn k (p_parts sp))) (seq 0 (length (p_parts sp))))).
Proof.
  rewrite traversed_spec. unfold parents. rewrite <- map_rev, <- filter_rev', <- map_rev, rev_involutive.
  reflexivity.
Qed.

Lemma traversed_members p sp inits ai x :
  In x (traversed p sp inits ai) <->
  exists q, In q (parents sp) /\ inside (pr_path p) q = true /\
            (ai = true \/ has_init inits q = false) /\ x = path_str q.
Proof.
  rewrite traversed_spec, in_map_iff. split.
  - intros [q [<- H]]. apply filter_In in H as [H1 H2]. apply andb_true_iff in H2 as [H2 H3].
    exists q. repeat split; auto. destruct ai; auto. right. simpl in H3. apply negb_true_iff in H3. auto.
  - intros [q [H1 [H2 [H3 ->]]]]. exists q. split; auto. apply filter_In. split; auto.
    rewrite H2. destruct H3 as [->| ->]; auto. apply orb_true_r.
Qed.

Lemma traversed_outside p sp inits ai :
  (forall q, In q (parents sp) -> inside (pr_path p) q = false) -> traversed p sp inits ai = [].
Proof.
  intros H. rewrite traversed_spec, filter_none; auto. intros q Hq. rewrite (H q Hq). reflexivity.
Qed.

(* a script that is textually inside the project: every directory strictly between is listed,
   shallowest first, deepest (the script's own directory) last *)
Lemma map_seq_ext {B} (f g : nat -> B) n : forall a b,
  (forall i, i < n -> f (a + i) = g (b + i)) -> map f (seq a n) = map g (seq b n).
Proof.
  induction n as [|n IH]; simpl; intros a b H; auto. f_equal.
  - specialize (H 0). rewrite !Nat.add_0_r in H. apply H. lia.
  - apply IH. intros i Hi. specialize (H (S i)). rewrite !Nat.add_succ_r in H. simpl. apply H. lia.
Qed.

Lemma traversed_inside_explicit r ps ds f inits p :
  pr_path p = mkpath r ps ->
  rev (traversed p (mkpath r (ps ++ ds ++ [f])) inits true) =
  map (fun k => path_str (mkpath r (ps ++ firstn k ds))) (seq 1 (length ds)).
Proof.
  intros Hp. rewrite traversed_deepest_last. rewrite Hp. cbn [p_root p_parts].
  rewrite !app_length. cbn [length].
  replace (length ps + (length ds + 1)) with (S (length ps) + length ds) by lia.
  rewrite seq_app, map_app, filter_app.
  rewrite filter_none.
  2:{ intros q Hq. apply in_map_iff in Hq as [k [<- Hk]]. apply in_seq in Hk.
      rewrite orb_true_l, andb_true_r. apply not_true_iff_false. rewrite inside_spec. cbn [p_root p_parts].
      intros [_ [c [t E]]].
      assert (L : length (firstn k (ps ++ ds ++ [f])) = length (ps ++ c :: t)) by (rewrite E; reflexivity).
      rewrite firstn_length, !app_length in L. cbn [length] in L. lia. }
  rewrite filter_all.
  2:{ intros q Hq. apply in_map_iff in Hq as [k [<- Hk]]. apply in_seq in Hk.
      rewrite orb_true_l, andb_true_r. apply inside_spec. cbn [p_root p_parts]. split; auto.
      apply strict_prefix_firstn. exists (length ps). split.
      - rewrite firstn_length, !app_length. cbn [length]. lia.
      - rewrite firstn_firstn. replace (Init.Nat.min (length ps) k) with (length ps) by lia.
        rewrite firstn_app, Nat.sub_diag, firstn_all. simpl. rewrite app_nil_r. reflexivity. }
  cbn [app]. rewrite map_map.
  apply map_seq_ext. intros i Hi. do 2 f_equal.
  rewrite firstn_app. replace (0 + S (length ps) + i - length ps) with (S i) by lia.
  rewrite firstn_all2 by lia. f_equal. rewrite firstn_app.
  replace (S i - length ds) with 0 by lia. simpl. rewrite app_nil_r. reflexivity.
Qed.

(* ------------------------------------------------------------------ pathlib parsing / printing *)
Lemma slash_eqb_refl : N.eqb slash slash = true.
Proof. reflexivity. Qed.

Lemma split_noslash x : ~ In slash x -> split_slash x = [x].
Proof.
  induction x as [|c x IH]; simpl; intros H; auto.
  destruct (N.eqb c slash) eqn:E.
  - apply N.eqb_eq in E. exfalso. apply H. left. auto.
  - rewrite IH; auto.
Qed.

Lemma split_app x s : ~ In slash x -> split_slash (x ++ slash :: s) = x :: split_slash s.
Proof.
  induction x as [|c x IH]; simpl; intros H.
  - reflexivity.
  - destruct (N.eqb c slash) eqn:E.
    + apply N.eqb_eq in E. exfalso. apply H. left. auto.
    + rewrite IH; auto.
Qed.

Lemma split_join ps :
  Forall (fun x => ~ In slash x) ps -> ps <> [] -> split_slash (join_slash ps) = ps.
Proof.
  induction ps as [|x ps IH]; intros Hf Hne; [congruence|].
  inversion Hf; subst. destruct ps as [|y ps].
  - simpl. apply split_noslash. auto.
  - change (join_slash (x :: y :: ps)) with (x ++ slash :: join_slash (y :: ps)).
    rewrite split_app by auto. f_equal. apply IH; auto. discriminate.
Qed.

Lemma keep_part_good x : keep_part x = true <-> x <> [] /\ x <> [dot].
Proof.
  unfold keep_part. rewrite negb_true_iff, orb_false_iff.
  rewrite <- !not_true_iff_false, !str_eqb_eq. tauto.
Qed.

Lemma parts_roundtrip ps :
  Forall good_part ps -> filter keep_part (split_slash (join_slash ps)) = ps.
Proof.
  intros H. destruct ps as [|x ps]; [reflexivity|].
  rewrite split_join.
  - apply filter_all. intros y Hy. rewrite Forall_forall in H. apply keep_part_good.
    destruct (H y Hy) as [? [? ?]]. auto.
  - eapply Forall_impl; [|exact H]. intros a [? [? ?]]. auto.
  - discriminate.
Qed.

Lemma split_slash_noslash s : Forall (fun x => ~ In slash x) (split_slash s).
Proof.
  induction s as [|c s IH]; simpl.
  - constructor; auto.
  - destruct (N.eqb c slash) eqn:E.
    + constructor; auto.
    + destruct (split_slash s) as [|h t]; inversion IH; subst; constructor; auto.
      * simpl. intros [H|[]]. subst. rewrite N.eqb_refl in E. discriminate.
      * simpl. intros [H|H]; [|contradiction]. subst. rewrite N.eqb_refl in E. discriminate.
Qed.

Lemma parse_wf s : wf_path (parse_path s).
Proof.
  unfold wf_path, parse_path. cbn [p_root p_parts]. split.
  - destruct (leading_slashes s) as [|[|[|n]]]; auto.
  - apply Forall_forall. intros x Hx. apply filter_In in Hx as [H1 H2].
    apply keep_part_good in H2 as [? ?]. repeat split; auto.
    pose proof (split_slash_noslash s) as F. rewrite Forall_forall in F. apply F. auto.
Qed.

Lemma join_head ps : Forall good_part ps -> leading_slashes (join_slash ps) = 0.
Proof.
  intros H. destruct ps as [|x ps]; [reflexivity|]. inversion H as [|? ? [Hne [_ Hs]] _]; subst.
  destruct x as [|c x]; [congruence|].
  assert (E : N.eqb c slash = false).
  { apply not_true_iff_false. intros E. apply N.eqb_eq in E. apply Hs. left. auto. }
  destruct ps; simpl; rewrite E; reflexivity.
Qed.

Lemma parse_str p : wf_path p -> parse_path (path_str p) = p.
Proof.
  destruct p as [r ps]. unfold wf_path. cbn [p_root p_parts]. intros [Hr Hp].
  unfold path_str. cbn [p_root p_parts].
  assert (G : parse_path (r ++ join_slash ps) = mkpath r ps).
  { unfold parse_path. pose proof (join_head ps Hp) as L. pose proof (parts_roundtrip ps Hp) as R.
    destruct Hr as [->|[->| ->]]; cbn [app leading_slashes split_slash]; rewrite ?slash_eqb_refl.
    - rewrite L, R. reflexivity.
    - rewrite L. cbn [filter keep_part str_eqb orb negb]. rewrite R. reflexivity.
    - rewrite L. cbn [filter keep_part str_eqb orb negb]. rewrite R. reflexivity. }
  destruct r as [|c r]; [destruct ps as [|x ps]|]; auto.
Qed.

Lemma absolute_wf cwd p : wf_path cwd -> wf_path p -> wf_path (absolute cwd p).
Proof.
  intros [Hc1 Hc2] [Hp1 Hp2]. unfold absolute. destruct (is_abs p); [split; auto|].
  split; cbn [p_root p_parts]; auto. apply Forall_app. auto.
Qed.

Lemma absolute_abs cwd p : is_abs cwd = true -> is_abs (absolute cwd p) = true.
Proof. intros H. unfold absolute. destruct (is_abs p) eqn:E; auto. Qed.

Lemma absolute_of_abs cwd p : is_abs p = true -> absolute cwd p = p.
Proof. intros H. unfold absolute. rewrite H. reflexivity. Qed.

(* ------------------------------------------------------------------ save / load *)
Lemma map_arg_str_PStr l : map arg_str (map PStr l) = l.
Proof. induction l; simpl; congruence. Qed.

Lemma env_as_str_id e :
  match e with Some (PPath _) => False | _ => True end -> env_as_str e = e.
Proof. destruct e as [[x|x]|]; simpl; intros H; auto. contradiction. Qed.

Lemma set_env_same p : set_env (pr_env p) p = p.
Proof. destruct p. reflexivity. Qed.

Lemma save_load_general cwd a :
  wf_path cwd ->
  load cwd (save (mk_project cwd a)) =
  set_env (env_as_str (a_env a))
          (set_path (absolute cwd (pr_path (mk_project cwd a))) (mk_project cwd a)).
Proof.
  intros Hc.
  assert (W : wf_path (pr_path (mk_project cwd a))).
  { unfold mk_project. cbn [pr_path]. destruct (a_path a); [apply absolute_wf; auto|]; apply parse_wf. }
  destruct a as [pa e un sp ad sm].
  unfold load, save, set_env, set_path, env_as_str.
  cbn [mk_project pr_env a_env a_path a_unsafe a_sys_path a_added a_smart
       j_path j_env j_sys_path j_smart j_unsafe j_added
       pr_path pr_env pr_sys_path pr_smart pr_unsafe pr_django pr_added] in *.
  unfold mk_project. cbn [a_env a_path a_unsafe a_sys_path a_added a_smart].
  rewrite parse_str by exact W. rewrite map_arg_str_PStr.
  assert (E : option_map PStr (option_map arg_str e) = option_map (fun x => PStr (arg_str x)) e)
    by (destruct e; reflexivity).
  rewrite E.
  destruct sp as [l|]; cbn [option_map]; [rewrite map_arg_str_PStr|]; reflexivity.
Qed.

Lemma set_path_same p : set_path (pr_path p) p = p.
Proof. destruct p. reflexivity. Qed.

Lemma path_arg_ok_abs cwd a :
  is_abs cwd = true ->
  match a_path a with PStr _ => True | PPath s => is_abs (parse_path s) = true end ->
  absolute cwd (pr_path (mk_project cwd a)) = pr_path (mk_project cwd a).
Proof.
  intros Ha Hp. apply absolute_of_abs. unfold mk_project. cbn [pr_path].
  destruct (a_path a); auto. apply absolute_abs. auto.
Qed.

(* path argument fine, environment_path of any kind: everything survives, environment_path as its str *)
Lemma save_load_roundtrip_any_env cwd a :
  wf_path cwd -> is_abs cwd = true ->
  match a_path a with PStr _ => True | PPath s => is_abs (parse_path s) = true end ->
  load cwd (save (mk_project cwd a)) = set_env (env_as_str (a_env a)) (mk_project cwd a).
Proof.
  intros Hc Ha Hp. rewrite save_load_general by auto. rewrite path_arg_ok_abs by auto.
  rewrite set_path_same. reflexivity.
Qed.

Lemma save_load_roundtrip cwd a :
  wf_path cwd -> is_abs cwd = true ->
  match a_path a with PStr _ => True | PPath s => is_abs (parse_path s) = true end ->
  match a_env a with Some (PPath _) => False | _ => True end ->
  load cwd (save (mk_project cwd a)) = mk_project cwd a.
Proof.
  intros Hc Ha Hp He. rewrite save_load_roundtrip_any_env by auto.
  rewrite env_as_str_id by auto. apply (set_env_same (mk_project cwd a)).
Qed.

(* the str that comes back for a pathlib.Path environment_path is str(Path) *)
Lemma loaded_env_of_path_object cwd a s :
  a_env a = Some (PPath s) ->
  pr_env (load cwd (save (mk_project cwd a))) = Some (PStr (path_str (parse_path s))).
Proof.
  intros H. unfold load, save, mk_project. cbn [pr_env j_env a_env]. rewrite H. reflexivity.
Qed.

(* old behaviour (before ba5f9c2) *)
Lemma save_old_failed_on_path_object cwd a s :
  a_env a = Some (PPath s) -> save_old (mk_project cwd a) = None.
Proof. intros H. unfold save_old, mk_project. cbn [pr_env]. rewrite H. reflexivity. Qed.

Lemma save_old_agrees p j : save_old p = Some j -> j = save p.
Proof. unfold save_old. destruct (pr_env p) as [[x|x]|]; intros H; inversion H; reflexivity. Qed.

(* ------------------------------------------------------------------ import resolution *)
Lemma resolve_first has l e :
  resolve has l = Some e ->
  exists l1 l2, l = l1 ++ e :: l2 /\ has e = true /\ forall x, In x l1 -> has x = false.
Proof.
  unfold resolve. induction l as [|y l IH]; simpl; [discriminate|].
  destruct (has y) eqn:E.
  - intros H. inversion H; subst. exists [], l. repeat split; auto. intros x [].
  - intros H. destruct (IH H) as [l1 [l2 [-> [H1 H2]]]]. exists (y :: l1), l2. repeat split; auto.
    intros x [<-|Hx]; auto.
Qed.

Lemma resolve_none has l : resolve has l = None <-> forall x, In x l -> has x = false.
Proof.
  unfold resolve. induction l as [|y l IH]; simpl.
  - split; auto. intros _ x [].
  - destruct (has y) eqn:E.
    + split; [discriminate|]. intros H. rewrite (H y) in E by auto. discriminate.
    + rewrite IH. split; intros H x; [intros [<-|Hx]; auto|]. intros Hx. apply H. auto.
Qed.

Lemma import_resolves_first p env script inits buildout mods has e :
  resolve has (importer_sys_path None p env script inits buildout mods false) = Some e ->
  exists l1 l2,
    get_sys_path p env script inits buildout true true ++ mods = l1 ++ e :: l2 /\
    has e = true /\ forall x, In x l1 -> has x = false.
Proof. intros H. apply resolve_first in H. exact H. Qed.

(* ------------------------------------------------------------------ refutation witnesses *)
Definition w_cwd : path := mkpath [slash] [[119%N]].                      (* /w *)
Definition w_rel_args : ctor_args := mkargs (PPath [114%N; 101%N; 108%N]) None false None [] true.   (* Path('rel') *)

Lemma w_cwd_wf : wf_path w_cwd.
Proof.
  split; [right; left; reflexivity|]. constructor; [|constructor].
  repeat split; try discriminate. simpl. intros [H|[]]. discriminate.
Qed.

Lemma roundtrip_relative_path_refuted :
  exists cwd a,
    wf_path cwd /\ is_abs cwd = true /\ a_env a = None /\
    pr_path (load cwd (save (mk_project cwd a))) <> pr_path (mk_project cwd a).
Proof.
  exists w_cwd, w_rel_args. split; [apply w_cwd_wf|]. split; [reflexivity|]. split; [reflexivity|].
  vm_compute. discriminate.
Qed.

Lemma relative_project_no_ancestors_refuted :
  exists cwd a script,
    wf_path cwd /\ is_abs cwd = true /\ a_smart a = true /\
    inside (absolute cwd (pr_path (mk_project cwd a))) script = true /\
    is_abs script = true /\
    traversed (mk_project cwd a) script [] true = [].
Proof.
  exists w_cwd, w_rel_args, (mkpath [slash] [[119%N]; [114%N; 101%N; 108%N]; [97%N]; [109%N]]).
  split; [apply w_cwd_wf|]. repeat split; vm_compute; reflexivity.
Qed.
