From JV Require Import Base.Str Model.C03_Resolve Model.C05_Rename.

(* ---------------- text level ---------------- *)

Definition new_value (new : str) (l : leaf) : str := if l_sel l then new else l_value l.

(* the rewritten file is the old one with exactly the value bytes of the selected leaves
   replaced: every prefix (whitespace, comments, line ends) and every other token is
   identical and in place *)
Lemma rename_text_splice new ls :
  rename_text new ls = flat_map (fun l => l_prefix l ++ new_value new l) ls.
Proof.
  unfold rename_text, code_of. induction ls as [|l ls IH]; [reflexivity|].
  simpl. rewrite IH. unfold rename_leaf, new_value. destruct (l_sel l); reflexivity.
Qed.

Lemma rename_text_app new a b : rename_text new (a ++ b) = rename_text new a ++ rename_text new b.
Proof. unfold rename_text, code_of. rewrite map_app, flat_map_app. reflexivity. Qed.

Lemma rename_text_nothing_selected new ls :
  forallb (fun l => negb (l_sel l)) ls = true -> rename_text new ls = code_of ls.
Proof.
  rewrite rename_text_splice. unfold code_of. induction ls as [|l ls IH]; [reflexivity|].
  simpl. intro H. apply andb_true_iff in H as [H1 H2]. rewrite (IH H2).
  unfold new_value. apply negb_true_iff in H1. rewrite H1. reflexivity.
Qed.

(* renaming back restores the original text byte for byte *)
Lemma str_eqb_true_eq (v old : str) : str_eqb v old = true -> v = old.
Proof.
  revert old. induction v as [|c v IHv]; intros [|d o]; simpl; try discriminate; auto.
  intro H. apply andb_true_iff in H as [Ha Hb]. apply N.eqb_eq in Ha. subst. f_equal. auto.
Qed.

Lemma rename_roundtrip old new ls :
  forallb (fun l => implb (l_sel l) (str_eqb (l_value l) old)) ls = true ->
  rename_text old (map (rename_leaf new) ls) = code_of ls.
Proof.
  rewrite rename_text_splice. unfold code_of. induction ls as [|l ls IH]; [reflexivity|].
  simpl. intro H. apply andb_true_iff in H as [H1 H2]. rewrite (IH H2).
  assert (Hp : l_prefix (rename_leaf new l) = l_prefix l)
    by (unfold rename_leaf; destruct (l_sel l); reflexivity).
  assert (Hv : new_value old (rename_leaf new l) = l_value l).
  { unfold new_value, rename_leaf. destruct (l_sel l) eqn:E; simpl.
    - simpl in H1. symmetry. apply str_eqb_true_eq. exact H1.
    - rewrite E. reflexivity. }
  rewrite Hp, Hv. reflexivity.
Qed.

(* ---------------- the merging loop ---------------- *)

Lemma memN_In a l : memN a l = true <-> In a l.
Proof.
  induction l as [|b r IH]; simpl; [split; [discriminate|tauto]|].
  rewrite orb_true_iff, N.eqb_eq, IH. split; intros [H|H]; auto.
Qed.

Lemma union_In a b x : In x (union a b) <-> In x a \/ In x b.
Proof.
  induction a as [|y r IH]; simpl; [tauto|].
  destruct (memN y b) eqn:E.
  - rewrite IH. apply memN_In in E. split; [tauto|]. intros [[->|H]|H]; auto.
  - simpl. rewrite IH. tauto.
Qed.

Lemma fold_union_In (g : N -> list N) ts acc x :
  In x (fold_left (fun acc t => union (g t) acc) ts acc) <-> In x acc \/ exists t, In t ts /\ In x (g t).
Proof.
  revert acc. induction ts as [|t ts IH]; intros acc; simpl.
  - split; [tauto|]. intros [H|[t [[] _]]]. exact H.
  - rewrite IH, union_In. split.
    + intros [[H|H]|[t' [H1 H2]]]; eauto.
    + intros [H|[t' [[->|H1] H2]]]; eauto.
Qed.

(* everything already found stays found *)
Lemma merge_loop_mono cands : forall found parked x, In x found -> In x (merge_loop cands found parked).
Proof.
  induction cands as [|new rest IH]; intros found parked x H; simpl; [exact H|].
  destruct (inter new found); [|apply IH; exact H].
  apply IH. apply fold_union_In. left. apply union_In. right. exact H.
Qed.

(* nothing is invented: a result is an initial name or a member of some candidate set *)
Lemma merge_loop_sound cands : forall found parked x,
  In x (merge_loop cands found parked) ->
  In x found \/ (exists s, In s cands /\ In x s) \/ (exists t s, In (t, s) parked /\ In x s).
Proof.
  induction cands as [|new rest IH]; intros found parked x H; simpl in H; [auto|].
  destruct (inter new found) eqn:E.
  - apply IH in H. destruct H as [H|[[s [H1 H2]]|[t [s [H1 H2]]]]].
    + apply fold_union_In in H. destruct H as [H|[t [H1 H2]]].
      * apply union_In in H. destruct H as [H|H]; [right; left; exists new; simpl; auto | auto].
      * right. right. unfold parked_for in H2. apply in_flat_map in H2 as [[t' s] [H3 H4]].
        simpl in H4. destruct (N.eqb t' t); [|contradiction]. eauto.
    + right. left. exists s. simpl. auto.
    + right. right. unfold drop_parked in H1. apply filter_In in H1 as [H1 _]. eauto.
  - apply IH in H. destruct H as [H|[[s [H1 H2]]|[t [s [H1 H2]]]]].
    + auto.
    + right. left. exists s. simpl. auto.
    + apply in_app_or in H1. destruct H1 as [H1|H1].
      * apply in_map_iff in H1 as [t' [H3 _]]. inversion H3; subst. right. left. exists s. simpl. auto.
      * right. right. eauto.
Qed.

Lemma find_refs_sound found0 cands x :
  In x (find_refs found0 cands) -> In x found0 \/ exists s, In s cands /\ In x s.
Proof.
  intro H. apply merge_loop_sound in H.
  destruct H as [H|[H|[t [s [[] _]]]]]; auto.
Qed.

Lemma find_refs_keeps_start found0 cands x : In x found0 -> In x (find_refs found0 cands).
Proof. apply merge_loop_mono. Qed.

(* ---------------- renaming a variable of the scope-tree language ---------------- *)
From JV Require Import Proofs.C03_Proofs.

Section Alpha.
Variables x y : N.
Variable dV : nat.
Hypothesis Hxy : x <> y.

Notation ren_o := (ren_occ x y dV).
Notation ren_f := (ren_frame x y dV).
Notation ren_c := (ren_chain x y dV).

Lemma ren_chain_length c : length (ren_c c) = length c.
Proof. induction c as [|f r IH]; simpl; auto. Qed.

Lemma ren_occ_role c o : o_role (ren_o c o) = o_role o.
Proof. unfold ren_occ. destruct (should_rename x dV c o); reflexivity. Qed.

Lemma ren_occ_id c o : o_id (ren_o c o) = o_id o.
Proof. unfold ren_occ. destruct (should_rename x dV c o); reflexivity. Qed.

Lemma ren_occ_name_other c o z : z <> x -> z <> y -> N.eqb (o_name (ren_o c o)) z = N.eqb (o_name o) z.
Proof.
  intros Hzx Hzy. unfold ren_occ. destruct (should_rename x dV c o) eqn:E; [|reflexivity].
  unfold should_rename in E. apply andb_true_iff in E as [E _]. apply N.eqb_eq in E.
  simpl. rewrite E. destruct (N.eqb_spec y z); destruct (N.eqb_spec x z); congruence.
Qed.

Lemma is_ren_other r c o z : z <> x -> z <> y -> is r z (ren_o c o) = is r z o.
Proof. intros. unfold is. rewrite ren_occ_role, ren_occ_name_other; auto. Qed.

(* declarations are never renamed *)
Lemma is_decl_ren r c o z : (r = DeclG \/ r = DeclN) -> is r z (ren_o c o) = is r z o.
Proof.
  intros Hr. unfold ren_occ. destruct (should_rename x dV c o) eqn:E; [|reflexivity].
  unfold should_rename in E. apply andb_true_iff in E as [_ E].
  unfold is. simpl. destruct (o_role o), r; simpl; try reflexivity; try discriminate; destruct Hr; discriminate.
Qed.

Lemma existsb_map {A B} (g : A -> B) p l : existsb p (map g l) = existsb (fun a => p (g a)) l.
Proof. induction l; simpl; congruence. Qed.

Lemma existsb_ext {A} (p q : A -> bool) l : (forall a, In a l -> p a = q a) -> existsb p l = existsb q l.
Proof.
  induction l as [|a l IH]; simpl; auto. intro H. rewrite (H a (or_introl eq_refl)), IH; auto.
Qed.

Lemma declg_ren c f z : declg z (ren_f c f) = declg z f.
Proof. unfold declg. simpl. rewrite existsb_map. apply existsb_ext. intros. apply is_decl_ren. auto. Qed.
Lemma decln_ren c f z : decln z (ren_f c f) = decln z f.
Proof. unfold decln. simpl. rewrite existsb_map. apply existsb_ext. intros. apply is_decl_ren. auto. Qed.

Lemma bound_ren_other c f z : z <> x -> z <> y -> bound z (ren_f c f) = bound z f.
Proof. intros. unfold bound. simpl. rewrite existsb_map. apply existsb_ext. intros. apply is_ren_other; auto. Qed.

Lemma bound_before_ren_other c f z p : z <> x -> z <> y -> bound_before z p (ren_f c f) = bound_before z p f.
Proof.
  intros. unfold bound_before. simpl. rewrite existsb_map. apply existsb_ext. intros.
  rewrite is_ren_other, ren_occ_id; auto.
Qed.

Definition freshf (f : frame) : bool := forallb (fun o => negb (N.eqb (o_name o) y)) (f_occs f).

Lemma fresh_cons f rest : fresh y (f :: rest) = true -> freshf f = true /\ fresh y rest = true.
Proof. unfold fresh. simpl. intro H. apply andb_true_iff in H. exact H. Qed.

Lemma fresh_not_y f o : freshf f = true -> In o (f_occs f) -> o_name o <> y.
Proof.
  unfold freshf. intros H Hin. rewrite forallb_forall in H. specialize (H o Hin).
  apply negb_true_iff in H. apply N.eqb_neq in H. exact H.
Qed.

(* in a frame without declarations for x, every binding of x writes the frame itself *)
Lemma should_rename_bind f rest o :
  wf_chain (f :: rest) = true -> NoD x (f :: rest) -> is Bind x o = true ->
  should_rename x dV (f :: rest) o = Nat.eqb (length (f :: rest)) dV.
Proof.
  intros Hwf Hnd Hb. destruct (is_name _ _ _ Hb) as [Hn Hr].
  pose proof (bind_scope_found x (f :: rest) [] f rest o Hwf Hnd eq_refl Hb) as Hbs.
  unfold should_rename. rewrite Hn, N.eqb_refl, Hr, Hbs. reflexivity.
Qed.

Lemma is_bind_x_ren f rest o :
  wf_chain (f :: rest) = true -> NoD x (f :: rest) ->
  is Bind x (ren_o (f :: rest) o) = is Bind x o && negb (Nat.eqb (length (f :: rest)) dV).
Proof.
  intros Hwf Hnd. destruct (is Bind x o) eqn:Hb.
  - unfold ren_occ. rewrite (should_rename_bind f rest o Hwf Hnd Hb).
    destruct (Nat.eqb (length (f :: rest)) dV); simpl; [|exact Hb].
    unfold is. simpl. destruct (N.eqb_spec y x); [congruence|]. apply andb_false_r.
  - simpl. unfold ren_occ. destruct (should_rename x dV (f :: rest) o) eqn:E; [|exact Hb].
    unfold is in *. simpl. destruct (N.eqb_spec y x); [congruence|]. apply andb_false_r.
Qed.

Lemma is_bind_y_ren f rest o :
  wf_chain (f :: rest) = true -> NoD x (f :: rest) -> o_name o <> y ->
  is Bind y (ren_o (f :: rest) o) = is Bind x o && Nat.eqb (length (f :: rest)) dV.
Proof.
  intros Hwf Hnd Hny. destruct (is Bind x o) eqn:Hb.
  - unfold ren_occ. rewrite (should_rename_bind f rest o Hwf Hnd Hb).
    destruct (Nat.eqb (length (f :: rest)) dV); simpl.
    + destruct (is_name _ _ _ Hb) as [_ Hr]. unfold is. simpl. rewrite Hr, N.eqb_refl. reflexivity.
    + unfold is. apply N.eqb_neq in Hny. rewrite Hny. apply andb_false_r.
  - simpl. unfold ren_occ. destruct (should_rename x dV (f :: rest) o) eqn:E.
    + (* renamed, so it was a Use of x: not a Bind *)
      unfold should_rename in E. apply andb_true_iff in E as [En E].
      unfold is in *. simpl. apply N.eqb_eq in En. rewrite En, N.eqb_refl, andb_true_r in Hb.
      rewrite Hb. reflexivity.
    + unfold is. apply N.eqb_neq in Hny. rewrite Hny. apply andb_false_r.
Qed.

Lemma bound_x_ren f rest :
  wf_chain (f :: rest) = true -> NoD x (f :: rest) ->
  bound x (ren_f (f :: rest) f) = bound x f && negb (Nat.eqb (length (f :: rest)) dV).
Proof.
  intros Hwf Hnd. unfold bound. simpl f_occs. rewrite existsb_map.
  rewrite (existsb_ext _ (fun o => is Bind x o && negb (Nat.eqb (length (f :: rest)) dV)))
    by (intros; apply is_bind_x_ren; assumption).
  generalize (negb (Nat.eqb (length (f :: rest)) dV)). intros b.
  induction (f_occs f) as [|o l IH]; simpl; [reflexivity|]. rewrite IH. destruct (is Bind x o), b; simpl; auto;
  rewrite ?andb_false_r; reflexivity.
Qed.

Lemma bound_y_ren f rest :
  wf_chain (f :: rest) = true -> NoD x (f :: rest) -> freshf f = true ->
  bound y (ren_f (f :: rest) f) = bound x f && Nat.eqb (length (f :: rest)) dV.
Proof.
  intros Hwf Hnd Hfr. unfold bound. simpl f_occs. rewrite existsb_map.
  rewrite (existsb_ext _ (fun o => is Bind x o && Nat.eqb (length (f :: rest)) dV))
    by (intros o Ho; apply is_bind_y_ren; auto; eapply fresh_not_y; eauto).
  generalize (Nat.eqb (length (f :: rest)) dV). intros b.
  induction (f_occs f) as [|o l IH]; simpl; [reflexivity|]. rewrite IH. destruct (is Bind x o), b; simpl; auto;
  rewrite ?andb_false_r; reflexivity.
Qed.

Lemma bound_before_x_ren f rest p :
  wf_chain (f :: rest) = true -> NoD x (f :: rest) ->
  bound_before x p (ren_f (f :: rest) f) = bound_before x p f && negb (Nat.eqb (length (f :: rest)) dV).
Proof.
  intros Hwf Hnd. unfold bound_before. simpl f_occs. rewrite existsb_map.
  rewrite (existsb_ext _ (fun o => (is Bind x o && N.ltb (o_id o) p) && negb (Nat.eqb (length (f :: rest)) dV))).
  2:{ intros o _. rewrite is_bind_x_ren, ren_occ_id by assumption.
      destruct (is Bind x o), (N.ltb (o_id o) p), (Nat.eqb (length (f :: rest)) dV); reflexivity. }
  generalize (negb (Nat.eqb (length (f :: rest)) dV)). intros b.
  induction (f_occs f) as [|o l IH]; simpl; [reflexivity|]. rewrite IH.
  destruct (is Bind x o && N.ltb (o_id o) p), b; simpl; auto; rewrite ?andb_false_r; reflexivity.
Qed.

Lemma bound_before_y_ren f rest p :
  wf_chain (f :: rest) = true -> NoD x (f :: rest) -> freshf f = true ->
  bound_before y p (ren_f (f :: rest) f) = bound_before x p f && Nat.eqb (length (f :: rest)) dV.
Proof.
  intros Hwf Hnd Hfr. unfold bound_before. simpl f_occs. rewrite existsb_map.
  rewrite (existsb_ext _ (fun o => (is Bind x o && N.ltb (o_id o) p) && Nat.eqb (length (f :: rest)) dV)).
  2:{ intros o Ho. rewrite is_bind_y_ren, ren_occ_id; auto; [|eapply fresh_not_y; eauto].
      destruct (is Bind x o), (N.ltb (o_id o) p), (Nat.eqb (length (f :: rest)) dV); reflexivity. }
  generalize (Nat.eqb (length (f :: rest)) dV). intros b.
  induction (f_occs f) as [|o l IH]; simpl; [reflexivity|]. rewrite IH.
  destruct (is Bind x o && N.ltb (o_id o) p), b; simpl; auto; rewrite ?andb_false_r; reflexivity.
Qed.

Lemma wf_tail' f rest : wf_chain (f :: rest) = true -> rest <> [] -> wf_chain rest = true.
Proof. destruct rest as [|g r]; [congruence|]. intros H _. eapply wf_tail; eauto. Qed.

Lemma freshf_no_decl f z : freshf f = true -> z = y -> declg z f = false /\ decln z f = false /\ bound z f = false.
Proof.
  intros Hf ->. unfold declg, decln, bound.
  assert (H : forall r, existsb (is r y) (f_occs f) = false).
  { intro r. apply not_true_is_false. intro H. apply existsb_exists in H as [o [Ho Hi]].
    apply is_name in Hi as [Hn _]. eapply fresh_not_y; eauto. }
  auto.
Qed.

(* --- efb under renaming --- *)

Lemma efb_other c z : z <> x -> z <> y -> efb z (ren_c c) = efb z c.
Proof.
  intros Hzx Hzy. induction c as [|f rest IH]; [reflexivity|].
  cbn [ren_chain efb]. simpl f_kind. rewrite declg_ren, decln_ren, bound_ren_other, IH by assumption.
  simpl length. rewrite ren_chain_length. reflexivity.
Qed.

Lemma efb_x_keep c : wf_chain c = true -> NoD x c ->
  forall d, efb x c = Some d -> d <> dV -> efb x (ren_c c) = Some d.
Proof.
  induction c as [|f rest IH]; intros Hwf Hnd d He Hd; [discriminate|].
  rewrite (efb_cons x f rest Hnd) in He. destruct (NoD_cons x _ _ Hnd) as [Hg [Hn Hnd']].
  cbn [ren_chain efb]. simpl f_kind. rewrite declg_ren, decln_ren, Hg, Hn. simpl negb. rewrite !andb_true_r, andb_false_r.
  rewrite (bound_x_ren f rest Hwf Hnd). simpl length. rewrite ren_chain_length.
  destruct (funclike (f_kind f) && bound x f) eqn:E.
  - inversion He; subst d. apply andb_true_iff in E as [E1 E2]. rewrite E1, E2. cbn [andb].
    simpl length in Hd. apply Nat.eqb_neq in Hd. rewrite Hd. reflexivity.
  - assert (E' : funclike (f_kind f) && (bound x f && negb (Nat.eqb (S (length rest)) dV)) = false).
    { destruct (funclike (f_kind f)), (bound x f); simpl in *; try discriminate; reflexivity. }
    simpl length in E'. rewrite E'. destruct rest as [|g r]; [discriminate|].
    apply IH; auto. eapply wf_tail; eauto.
Qed.

Lemma efb_x_none c : wf_chain c = true -> NoD x c -> efb x c = None -> efb x (ren_c c) = None.
Proof.
  induction c as [|f rest IH]; intros Hwf Hnd He; [reflexivity|].
  rewrite (efb_cons x f rest Hnd) in He. destruct (NoD_cons x _ _ Hnd) as [Hg [Hn Hnd']].
  cbn [ren_chain efb]. simpl f_kind. rewrite declg_ren, decln_ren, Hg, Hn. simpl negb. rewrite !andb_true_r, andb_false_r.
  rewrite (bound_x_ren f rest Hwf Hnd).
  destruct (funclike (f_kind f) && bound x f) eqn:E; [discriminate|].
  assert (E' : funclike (f_kind f) && (bound x f && negb (Nat.eqb (length (f :: rest)) dV)) = false).
  { destruct (funclike (f_kind f)), (bound x f); simpl in *; try discriminate; reflexivity. }
  rewrite E'. destruct rest as [|g r]; [reflexivity|]. apply IH; auto. eapply wf_tail; eauto.
Qed.

Lemma efb_y_hit c : wf_chain c = true -> NoD x c -> fresh y c = true ->
  efb x c = Some dV -> efb y (ren_c c) = Some dV.
Proof.
  induction c as [|f rest IH]; intros Hwf Hnd Hfr He; [discriminate|].
  rewrite (efb_cons x f rest Hnd) in He. destruct (fresh_cons _ _ Hfr) as [Hff Hfr'].
  destruct (NoD_cons x _ _ Hnd) as [_ [_ Hnd']].
  destruct (freshf_no_decl f y Hff eq_refl) as [Hg [Hn _]].
  cbn [ren_chain efb]. simpl f_kind. rewrite declg_ren, decln_ren, Hg, Hn. simpl negb. rewrite !andb_true_r, andb_false_r.
  rewrite (bound_y_ren f rest Hwf Hnd Hff). simpl length. rewrite ren_chain_length.
  destruct (funclike (f_kind f) && bound x f) eqn:E.
  - inversion He as [Hl]. apply andb_true_iff in E as [E1 E2]. rewrite E1, E2. simpl length in Hl. rewrite Hl, Nat.eqb_refl. reflexivity.
  - assert (E' : funclike (f_kind f) && (bound x f && Nat.eqb (S (length rest)) dV) = false).
    { destruct (funclike (f_kind f)), (bound x f); simpl in *; try discriminate; reflexivity. }
    rewrite E'. destruct rest as [|g r]; [discriminate|]. apply IH; auto. eapply wf_tail; eauto.
Qed.

Lemma efb_y_none c : wf_chain c = true -> NoD x c -> fresh y c = true ->
  (efb x c = None \/ dV = 1) -> efb y (ren_c c) = None.
Proof.
  induction c as [|f rest IH]; intros Hwf Hnd Hfr He; [reflexivity|].
  rewrite (efb_cons x f rest Hnd) in He. destruct (fresh_cons _ _ Hfr) as [Hff Hfr'].
  destruct (NoD_cons x _ _ Hnd) as [_ [_ Hnd']].
  destruct (freshf_no_decl f y Hff eq_refl) as [Hg [Hn _]].
  cbn [ren_chain efb]. simpl f_kind. rewrite declg_ren, decln_ren, Hg, Hn. simpl negb. rewrite !andb_true_r, andb_false_r.
  rewrite (bound_y_ren f rest Hwf Hnd Hff).
  assert (E' : funclike (f_kind f) && (bound x f && Nat.eqb (length (f :: rest)) dV) = false).
  { destruct (funclike (f_kind f)) eqn:Ef; [|reflexivity]. destruct (bound x f) eqn:Eb; [|reflexivity]. simpl.
    destruct He as [He|He]; [simpl in He; discriminate|]. subst dV.
    destruct rest as [|g r]; [|reflexivity].
    (* a chain of length 1 is the module, which is not function-like *)
    simpl in Hwf. destruct (f_kind f); simpl in Ef; discriminate. }
  rewrite E'. destruct rest as [|g r]; [reflexivity|]. apply IH; auto; [eapply wf_tail; eauto|].
  destruct He as [He|He]; [|right; exact He].
  left. destruct (funclike (f_kind f) && bound x f); [discriminate|exact He].
Qed.

End Alpha.

(* the class body that contains the use must not bind x only later (that use reads the global
   by LOAD_NAME; renaming the class variable would turn it into a free variable) *)
Definition no_early_class_use (c : chain) (u : occ) : bool :=
  match c with
  | f :: _ => match f_kind f with
              | Class => implb (bound (o_name u) f) (bound_before (o_name u) (o_id u) f)
              | _ => true
              end
  | [] => true
  end.

Lemma or_module_cases o d : or_module o = d -> (o = Some d) \/ (o = None /\ d = 1).
Proof. destruct o; simpl; intro H; subst; auto. Qed.

(* MAIN: renaming variable (x, depth dV) to a fresh y leaves the scope every use resolves to
   unchanged -- no capture, no escape -- and renames exactly the uses of that variable *)
Lemma alpha_preserves_use x y dV c u :
  x <> y -> wf_chain c = true -> NoD x c -> fresh y c = true ->
  (exists f rest, c = f :: rest /\ In u (f_occs f)) -> o_role u = Use ->
  no_early_class_use c u = true ->
  py_scope (ren_chain x y dV c) (ren_occ x y dV c u) = py_scope c u /\
  (o_name (ren_occ x y dV c u) = y <-> (o_name u = x /\ py_scope c u = Some dV)).
Proof.
  intros Hxy Hwf Hnd Hfr [f [rest [-> Hin]]] Hrole Hcls.
  destruct (fresh_cons y _ _ Hfr) as [Hff Hfr'].
  pose proof (fresh_not_y y f u Hff Hin) as Huy.
  destruct (NoD_cons x _ _ Hnd) as [Hgx [Hnx Hnd']].
  destruct (freshf_no_decl y f y Hff eq_refl) as [Hgy [Hny Hby]].
  assert (Hwf' : rest <> [] -> wf_chain rest = true) by exact (wf_tail' f rest Hwf).
  assert (Hlen : length (ren_chain x y dV (f :: rest)) = length (f :: rest)) by apply ren_chain_length.
  destruct (N.eq_dec (o_name u) x) as [Hux|Hux].
  - (* a use of x *)
    unfold ren_occ, should_rename. rewrite Hux, N.eqb_refl, Hrole. cbn [andb].
    destruct (py_scope (f :: rest) u) as [d|] eqn:Epy.
    2:{ exfalso. unfold py_scope in Epy. rewrite Hux, Hgx, Hnx in Epy.
        destruct (f_kind f); simpl funclike in Epy; cbv iota in Epy; try discriminate;
        destruct (bound x f); try discriminate; destruct (bound_before x (o_id u) f); discriminate. }
    destruct (Nat.eqb_spec d dV) as [Hd|Hd].
    + (* renamed *)
      subst d. split; [|split; [auto | intros _; reflexivity]].
      unfold py_scope in Epy |- *. cbn [ren_chain]. simpl f_kind. simpl o_name. simpl o_id.
      rewrite Hux in Epy. rewrite Hgx, Hnx in Epy.
      rewrite declg_ren, decln_ren, Hgy, Hny.
      rewrite (bound_y_ren x y dV f rest Hwf Hnd Hff).
      rewrite (bound_before_y_ren x y dV f rest (o_id u) Hwf Hnd Hff).
      fold (ren_chain x y dV rest). simpl length in *. rewrite ren_chain_length.
      unfold no_early_class_use in Hcls. rewrite Hux in Hcls.
      destruct (f_kind f) eqn:Ek; simpl funclike in *; cbv iota in *.
      * exact Epy.
      * destruct (bound x f) eqn:Eb.
        -- injection Epy as Hl. rewrite Hl, Nat.eqb_refl. reflexivity.
        -- cbn [andb]. injection Epy as Ho. apply or_module_cases in Ho as [Ho|[Ho H1]].
           ++ destruct rest as [|g r]; [discriminate|].
              rewrite (efb_y_hit x y dV (g :: r) (Hwf' ltac:(discriminate)) Hnd' Hfr' Ho). reflexivity.
           ++ destruct rest as [|g r]; [subst; reflexivity|].
              rewrite (efb_y_none x y dV (g :: r) (Hwf' ltac:(discriminate)) Hnd' Hfr' (or_introl Ho)). subst. reflexivity.
      * destruct (bound x f) eqn:Eb.
        -- injection Epy as Hl. rewrite Hl, Nat.eqb_refl. reflexivity.
        -- cbn [andb]. injection Epy as Ho. apply or_module_cases in Ho as [Ho|[Ho H1]].
           ++ destruct rest as [|g r]; [discriminate|].
              rewrite (efb_y_hit x y dV (g :: r) (Hwf' ltac:(discriminate)) Hnd' Hfr' Ho). reflexivity.
           ++ destruct rest as [|g r]; [subst; reflexivity|].
              rewrite (efb_y_none x y dV (g :: r) (Hwf' ltac:(discriminate)) Hnd' Hfr' (or_introl Ho)). subst. reflexivity.
      * destruct (bound x f) eqn:Eb.
        -- injection Epy as Hl. rewrite Hl, Nat.eqb_refl. reflexivity.
        -- cbn [andb]. injection Epy as Ho. apply or_module_cases in Ho as [Ho|[Ho H1]].
           ++ destruct rest as [|g r]; [discriminate|].
              rewrite (efb_y_hit x y dV (g :: r) (Hwf' ltac:(discriminate)) Hnd' Hfr' Ho). reflexivity.
           ++ destruct rest as [|g r]; [subst; reflexivity|].
              rewrite (efb_y_none x y dV (g :: r) (Hwf' ltac:(discriminate)) Hnd' Hfr' (or_introl Ho)). subst. reflexivity.
      * destruct (bound x f) eqn:Eb.
        -- simpl in Hcls. rewrite Hcls in Epy |- *. injection Epy as Hl. rewrite Hl, Nat.eqb_refl. reflexivity.
        -- cbn [andb]. injection Epy as Ho. apply or_module_cases in Ho as [Ho|[Ho H1]].
           ++ destruct rest as [|g r]; [discriminate|].
              rewrite (efb_y_hit x y dV (g :: r) (Hwf' ltac:(discriminate)) Hnd' Hfr' Ho). reflexivity.
           ++ destruct rest as [|g r]; [subst; reflexivity|].
              rewrite (efb_y_none x y dV (g :: r) (Hwf' ltac:(discriminate)) Hnd' Hfr' (or_introl Ho)). subst. reflexivity.
    + (* not renamed: still a use of x, and it must keep resolving to d <> dV *)
      split; [|split; [intro H; congruence | intros [_ H]; inversion H; congruence]].
      unfold py_scope in Epy |- *. cbn [ren_chain]. simpl f_kind. rewrite Hux in *.
      rewrite Hgx, Hnx in Epy. rewrite declg_ren, decln_ren, Hgx, Hnx.
      rewrite (bound_x_ren x y dV Hxy f rest Hwf Hnd).
      rewrite (bound_before_x_ren x y dV Hxy f rest (o_id u) Hwf Hnd).
      fold (ren_chain x y dV rest). simpl length in *. rewrite ren_chain_length.
      unfold no_early_class_use in Hcls. rewrite Hux in Hcls.
      assert (Hkeep : forall o, Some (or_module o) = Some d -> o = efb x rest ->
                      Some (or_module (efb x (ren_chain x y dV rest))) = Some d).
      { intros o Ho ->. injection Ho as Ho'. apply or_module_cases in Ho' as [Ho'|[Ho' H1]].
        - destruct rest as [|g r]; [discriminate|].
          rewrite (efb_x_keep x y dV Hxy (g :: r) (Hwf' ltac:(discriminate)) Hnd' d Ho' Hd). reflexivity.
        - destruct rest as [|g r]; [subst; reflexivity|].
          rewrite (efb_x_none x y dV Hxy (g :: r) (Hwf' ltac:(discriminate)) Hnd' Ho'). subst. reflexivity. }
      destruct (f_kind f) eqn:Ek; simpl funclike in *; cbv iota in *.
      * exact Epy.
      * destruct (bound x f) eqn:Eb.
        -- injection Epy as Hl. subst d. apply Nat.eqb_neq in Hd. rewrite Hd. reflexivity.
        -- cbn [andb]. eapply Hkeep; eauto.
      * destruct (bound x f) eqn:Eb.
        -- injection Epy as Hl. subst d. apply Nat.eqb_neq in Hd. rewrite Hd. reflexivity.
        -- cbn [andb]. eapply Hkeep; eauto.
      * destruct (bound x f) eqn:Eb.
        -- injection Epy as Hl. subst d. apply Nat.eqb_neq in Hd. rewrite Hd. reflexivity.
        -- cbn [andb]. eapply Hkeep; eauto.
      * destruct (bound x f) eqn:Eb.
        -- simpl in Hcls. rewrite Hcls in Epy |- *. injection Epy as Hl. subst d.
           apply Nat.eqb_neq in Hd. rewrite Hd. reflexivity.
        -- cbn [andb]. eapply Hkeep; eauto.
  - (* a use of some other identifier z: untouched, and resolves as before *)
    assert (Hren : ren_occ x y dV (f :: rest) u = u).
    { unfold ren_occ, should_rename. apply N.eqb_neq in Hux. rewrite Hux. reflexivity. }
    rewrite Hren. split; [|split; [intro H; congruence | intros [H _]; congruence]].
    unfold py_scope. cbn [ren_chain]. simpl f_kind.
    rewrite declg_ren, decln_ren, bound_ren_other, bound_before_ren_other by assumption.
    fold (ren_chain x y dV rest). rewrite (efb_other x y dV rest (o_name u) Hux Huy).
    simpl length. rewrite ren_chain_length. reflexivity.
Qed.

(* bindings keep writing the same scope, and exactly the bindings of the variable are renamed *)
Lemma alpha_preserves_bind x y dV c b :
  x <> y -> wf_chain c = true -> NoD x c -> fresh y c = true ->
  (exists f rest, c = f :: rest /\ In b (f_occs f)) -> o_role b = Bind ->
  bind_scope (ren_chain x y dV c) (ren_occ x y dV c b) = bind_scope c b /\
  (o_name (ren_occ x y dV c b) = y <-> (o_name b = x /\ bind_scope c b = Some dV)).
Proof.
  intros Hxy Hwf Hnd Hfr [f [rest [-> Hin]]] Hrole.
  destruct (fresh_cons y _ _ Hfr) as [Hff _].
  pose proof (fresh_not_y y f b Hff Hin) as Hby.
  destruct (NoD_cons x _ _ Hnd) as [Hgx [Hnx _]].
  destruct (freshf_no_decl y f y Hff eq_refl) as [Hgy [Hny _]].
  destruct (N.eq_dec (o_name b) x) as [Hbx|Hbx].
  - assert (Hb : is Bind x b = true) by (unfold is; rewrite Hrole, Hbx, N.eqb_refl; reflexivity).
    pose proof (bind_scope_found x (f :: rest) [] f rest b Hwf Hnd eq_refl Hb) as Hbs.
    unfold ren_occ. rewrite (should_rename_bind x dV f rest b Hwf Hnd Hb).
    destruct (Nat.eqb_spec (length (f :: rest)) dV) as [Hd|Hd].
    + split; [|split; [auto | intros _; reflexivity]; rewrite Hbs, Hd; auto].
      rewrite Hbs. unfold bind_scope. cbn [ren_chain]. simpl f_kind. simpl o_name.
      rewrite declg_ren, decln_ren, Hgy, Hny. simpl length. rewrite ren_chain_length.
      destruct (f_kind f) eqn:Ek; try reflexivity.
      rewrite (wf_module_last _ _ Hwf Ek). reflexivity.
    + split; [|split; [intro H; congruence | intros [_ H]; rewrite Hbs in H; inversion H; congruence]].
      rewrite Hbs. unfold bind_scope. cbn [ren_chain]. simpl f_kind. rewrite Hbx.
      rewrite declg_ren, decln_ren, Hgx, Hnx. simpl length. rewrite ren_chain_length.
      destruct (f_kind f) eqn:Ek; try reflexivity.
      rewrite (wf_module_last _ _ Hwf Ek). reflexivity.
  - assert (Hren : ren_occ x y dV (f :: rest) b = b).
    { unfold ren_occ, should_rename. apply N.eqb_neq in Hbx. rewrite Hbx. reflexivity. }
    rewrite Hren. split; [|split; [intro H; congruence | intros [H _]; congruence]].
    unfold bind_scope. cbn [ren_chain]. simpl f_kind. rewrite declg_ren, decln_ren.
    fold (ren_chain x y dV rest).
    assert (He : efb_nonlocal (o_name b) (ren_chain x y dV rest) = efb_nonlocal (o_name b) rest).
    { clear -Hbx Hby. induction rest as [|g r IH]; [reflexivity|].
      cbn [ren_chain efb_nonlocal]. simpl f_kind. rewrite declg_ren, decln_ren, bound_ren_other, IH by assumption.
      simpl length. rewrite ren_chain_length. reflexivity. }
    rewrite He. simpl length. rewrite ren_chain_length. reflexivity.
Qed.
