(* C16: lemmas about Model/C16_Determinism.v (orders, the stable sort, Name.__eq__ vs the sort key,
   set semantics, the API-level result functions, completion order, the transient-state machine). *)
From Coq Require Import Sorting.Sorted Sorting.Permutation.
From JV Require Import Base.Str Proofs.Str_Proofs Model.C16_Determinism.

(* ---------------------------------------------------------------- orders *)

Definition ord_ok {K : Type} (cmp : K -> K -> comparison) : Prop :=
  (forall a b, cmp b a = CompOpp (cmp a b)) /\
  (forall a b, cmp a b = Eq <-> a = b) /\
  (forall a b c, cmp a b = Lt -> cmp b c = Lt -> cmp a c = Lt).

Lemma bcmp_ok : ord_ok bcmp.
Proof.
  split; [|split].
  - intros [] []; reflexivity.
  - intros [] []; simpl; split; congruence.
  - intros [] [] []; simpl; congruence.
Qed.

Lemma Ncmp_ok : ord_ok N.compare.
Proof.
  split; [|split].
  - intros a b. apply N.compare_antisym.
  - intros a b. apply N.compare_eq_iff.
  - intros a b c. rewrite !N.compare_lt_iff. apply N.lt_trans.
Qed.

Lemma scmp_opp a b : scmp b a = CompOpp (scmp a b).
Proof.
  revert b; induction a as [|x a IH]; intros [|y b]; simpl; auto.
  rewrite (N.compare_antisym x y). destruct (N.compare x y); simpl; auto.
Qed.

Lemma scmp_eq a b : scmp a b = Eq <-> a = b.
Proof.
  revert b; induction a as [|x a IH]; intros [|y b]; simpl; split; intro H; try congruence; auto.
  - destruct (N.compare x y) eqn:E; try discriminate. apply N.compare_eq in E. apply IH in H. congruence.
  - inversion H; subst. rewrite N.compare_refl. apply IH. reflexivity.
Qed.

Lemma scmp_lt_trans a b d : scmp a b = Lt -> scmp b d = Lt -> scmp a d = Lt.
Proof.
  revert b d; induction a as [|x a IH]; intros [|y b] [|z d]; simpl; try congruence.
  destruct (N.compare x y) eqn:E1; destruct (N.compare y z) eqn:E2; try discriminate; intros H1 H2.
  - apply N.compare_eq in E1, E2. subst. rewrite N.compare_refl. eauto.
  - apply N.compare_eq in E1. subst. rewrite E2. reflexivity.
  - apply N.compare_eq in E2. subst. rewrite E1. reflexivity.
  - rewrite N.compare_lt_iff in *. assert (x < z)%N by (eapply N.lt_trans; eauto).
    apply N.compare_lt_iff in H. rewrite H. reflexivity.
Qed.

Lemma scmp_ok : ord_ok scmp.
Proof. split; [|split]; [intros; apply scmp_opp | apply scmp_eq | apply scmp_lt_trans]. Qed.

Lemma lex_ok {A B : Type} (ca : A -> A -> comparison) (cb : B -> B -> comparison) :
  ord_ok ca -> ord_ok cb -> ord_ok (lex ca cb).
Proof.
  intros [Ao [Ae At]] [Bo [Be Bt]]. split; [|split].
  - intros [a1 b1] [a2 b2]. unfold lex; simpl. rewrite (Ao a1 a2), (Bo b1 b2).
    destruct (ca a1 a2); simpl; reflexivity.
  - intros [a1 b1] [a2 b2]. unfold lex; simpl. split.
    + destruct (ca a1 a2) eqn:E; try discriminate. intros H. apply Ae in E. apply Be in H. congruence.
    + intros H. inversion H; subst. rewrite (proj2 (Ae a2 a2) eq_refl). apply Be. reflexivity.
  - intros [a1 b1] [a2 b2] [a3 b3]. unfold lex; simpl.
    destruct (ca a1 a2) eqn:E1; try discriminate; destruct (ca a2 a3) eqn:E2; try discriminate; intros H1 H2.
    + apply Ae in E1, E2. subst. rewrite (proj2 (Ae a3 a3) eq_refl). eauto.
    + apply Ae in E1. subst. rewrite E2. reflexivity.
    + apply Ae in E2. subst. rewrite E1. reflexivity.
    + rewrite (At _ _ _ E1 E2). reflexivity.
Qed.

Lemma dkey_cmp_ok : ord_ok dkey_cmp.
Proof. unfold dkey_cmp. repeat apply lex_ok; auto using scmp_ok, Ncmp_ok. Qed.

Lemma ckey_cmp_ok : ord_ok ckey_cmp.
Proof. unfold ckey_cmp. repeat apply lex_ok; auto using scmp_ok, bcmp_ok. Qed.

(* ---------------------------------------------------------------- the stable sort *)

Section GenSortProofs.
Variables (A K : Type) (key : A -> K) (cmp : K -> K -> comparison).
Hypothesis Hok : ord_ok cmp.

Let leb := leb_by A K key cmp.
Let ins := insert_by A K key cmp.
Let srt := sort_by A K key cmp.
Let le (a b : A) : Prop := leb a b = true.

Lemma cmp_refl k : cmp k k = Eq.
Proof. destruct Hok as [_ [He _]]. apply He. reflexivity. Qed.

Lemma leb_total a b : leb a b = false -> leb b a = true.
Proof.
  destruct Hok as [Ho _]. unfold leb, leb_by. rewrite (Ho (key a) (key b)).
  destruct (cmp (key a) (key b)); simpl; congruence.
Qed.

Lemma leb_trans a b c : leb a b = true -> leb b c = true -> leb a c = true.
Proof.
  destruct Hok as [Ho [He Ht]]. unfold leb, leb_by. intros H1 H2.
  destruct (cmp (key a) (key b)) eqn:E1; try discriminate;
  destruct (cmp (key b) (key c)) eqn:E2; try discriminate.
  - apply He in E1. apply He in E2. rewrite E1, E2, cmp_refl. reflexivity.
  - apply He in E1. rewrite E1, E2. reflexivity.
  - apply He in E2. rewrite <- E2, E1. reflexivity.
  - rewrite (Ht _ _ _ E1 E2). reflexivity.
Qed.

Lemma leb_antisym a b : leb a b = true -> leb b a = true -> key a = key b.
Proof.
  destruct Hok as [Ho [He Ht]]. unfold leb, leb_by. rewrite (Ho (key a) (key b)).
  destruct (cmp (key a) (key b)) eqn:E; simpl; try discriminate.
  intros _ _. apply He. exact E.
Qed.

Lemma insert_perm x l : Permutation (x :: l) (ins x l).
Proof.
  induction l as [|y r IH]; simpl; [apply Permutation_refl|].
  destruct (leb_by A K key cmp x y); [apply Permutation_refl|].
  eapply Permutation_trans; [apply perm_swap|]. apply perm_skip. exact IH.
Qed.

Lemma sort_perm l : Permutation l (srt l).
Proof.
  induction l as [|x l IH]; simpl; [constructor|].
  eapply Permutation_trans; [|apply insert_perm]. apply perm_skip. exact IH.
Qed.

Lemma insert_sorted x l : StronglySorted le l -> StronglySorted le (ins x l).
Proof.
  induction l as [|y r IH]; simpl; intros Hs.
  - constructor; constructor.
  - destruct (leb_by A K key cmp x y) eqn:E.
    + constructor; [exact Hs|]. constructor; [exact E|].
      inversion Hs; subst. eapply Forall_impl; [|eassumption].
      intros a Ha. unfold le in *. eapply leb_trans; eauto.
    + inversion Hs; subst. constructor; [apply IH; assumption|].
      apply (Permutation_Forall (insert_perm x r)). constructor; [|assumption].
      apply leb_total. exact E.
Qed.

Lemma sort_sorted l : StronglySorted le (srt l).
Proof. induction l as [|x l IH]; simpl; [constructor|apply insert_sorted; exact IH]. Qed.

Lemma insert_stable k x l :
  filter (key_eqb_by A K key cmp k) (ins x l) = filter (key_eqb_by A K key cmp k) (x :: l).
Proof.
  destruct Hok as [Ho [He Ht]].
  induction l as [|y r IH]; [reflexivity|].
  simpl insert_by. unfold ins. simpl. destruct (leb_by A K key cmp x y) eqn:E; [reflexivity|].
  simpl filter in *. unfold ins in IH. rewrite IH.
  destruct (key_eqb_by A K key cmp k x) eqn:Ex; destruct (key_eqb_by A K key cmp k y) eqn:Ey; auto.
  exfalso. unfold key_eqb_by in Ex, Ey.
  destruct (cmp (key x) k) eqn:Cx; try discriminate.
  destruct (cmp (key y) k) eqn:Cy; try discriminate.
  apply He in Cx. apply He in Cy. unfold leb_by in E. rewrite Cx, Cy, cmp_refl in E. discriminate.
Qed.

Lemma sort_stable k l :
  filter (key_eqb_by A K key cmp k) (srt l) = filter (key_eqb_by A K key cmp k) l.
Proof.
  induction l as [|x l IH]; [reflexivity|].
  unfold srt in *. simpl sort_by. fold ins. rewrite insert_stable. simpl. rewrite IH. reflexivity.
Qed.

(* two sorted enumerations of the same multiset coincide when equal keys mean equal elements *)
Lemma sorted_perm_unique l1 : forall l2,
  StronglySorted le l1 -> StronglySorted le l2 -> Permutation l1 l2 ->
  (forall a b, In a l1 -> In b l1 -> key a = key b -> a = b) -> l1 = l2.
Proof.
  induction l1 as [|x l1 IH]; intros l2 S1 S2 P Hinj.
  - apply Permutation_nil in P. auto.
  - destruct l2 as [|y l2]; [apply Permutation_sym, Permutation_nil in P; discriminate|].
    assert (Hxy : x = y).
    { inversion S1 as [|? ? S1' F1]; subst. inversion S2 as [|? ? S2' F2]; subst.
      assert (Hy : In y (x :: l1)) by (eapply Permutation_in; [apply Permutation_sym; exact P|left; reflexivity]).
      assert (Hx : In x (y :: l2)) by (eapply Permutation_in; [exact P|left; reflexivity]).
      destruct Hy as [Hy|Hy]; [auto|]. destruct Hx as [Hx|Hx]; [auto|].
      rewrite Forall_forall in F1, F2.
      apply Hinj; [left; reflexivity | right; exact Hy |].
      apply leb_antisym; [apply F1; exact Hy | apply F2; exact Hx]. }
    subst y. f_equal. apply IH.
    + inversion S1; assumption.
    + inversion S2; assumption.
    + eapply Permutation_cons_inv; exact P.
    + intros a b Ha Hb. apply Hinj; right; assumption.
Qed.

Lemma sort_perm_eq l1 l2 :
  Permutation l1 l2 -> (forall a b, In a l1 -> In b l1 -> key a = key b -> a = b) -> srt l1 = srt l2.
Proof.
  intros P Hinj. apply sorted_perm_unique; try apply sort_sorted.
  - eapply Permutation_trans; [apply Permutation_sym, sort_perm|].
    eapply Permutation_trans; [exact P|apply sort_perm].
  - intros a b Ha Hb. apply Hinj; eapply Permutation_in; try (apply Permutation_sym, sort_perm); assumption.
Qed.

Lemma in_two_split (a b : A) l : In a l -> In b l -> a <> b ->
  exists l0 l1 l2, l = l0 ++ a :: l1 ++ b :: l2 \/ l = l0 ++ b :: l1 ++ a :: l2.
Proof.
  intros Ha Hb Hne. apply in_split in Ha as [p [q ->]].
  apply in_app_or in Hb as [Hb|Hb].
  - apply in_split in Hb as [p1 [p2 ->]]. exists p1, p2, q. right. rewrite <- app_assoc. reflexivity.
  - destruct Hb as [Hb|Hb]; [congruence|]. apply in_split in Hb as [q1 [q2 ->]].
    exists p, q1, q2. left. reflexivity.
Qed.

(* a key shared by two different elements makes the output depend on the enumeration *)
Lemma tie_makes_order_dependent l a b :
  In a l -> In b l -> a <> b -> key a = key b ->
  exists l', Permutation l l' /\ srt l <> srt l'.
Proof.
  intros Ha Hb Hne Hk.
  assert (Hsw : forall l0 l1 l2, srt (l0 ++ a :: l1 ++ b :: l2) <> srt (l0 ++ b :: l1 ++ a :: l2)).
  { intros l0 l1 l2 Heq.
    assert (F := f_equal (filter (key_eqb_by A K key cmp (key a))) Heq).
    rewrite !sort_stable in F. rewrite !filter_app in F. simpl in F. rewrite !filter_app in F. simpl in F.
    assert (Ea : key_eqb_by A K key cmp (key a) a = true) by (unfold key_eqb_by; rewrite cmp_refl; reflexivity).
    assert (Eb : key_eqb_by A K key cmp (key a) b = true) by (unfold key_eqb_by; rewrite <- Hk, cmp_refl; reflexivity).
    rewrite Ea, Eb in F. apply app_inv_head in F. inversion F. congruence. }
  assert (Hp : forall l0 l1 l2, Permutation (l0 ++ a :: l1 ++ b :: l2) (l0 ++ b :: l1 ++ a :: l2)).
  { intros l0 l1 l2. apply Permutation_app_head.
    eapply Permutation_trans; [apply perm_skip, Permutation_sym, Permutation_middle|].
    eapply Permutation_trans; [apply perm_swap|].
    apply perm_skip. apply Permutation_middle. }
  destruct (in_two_split a b l Ha Hb Hne) as [l0 [l1 [l2 [-> | ->]]]].
  - exists (l0 ++ b :: l1 ++ a :: l2). split; [apply Hp | apply Hsw].
  - exists (l0 ++ a :: l1 ++ b :: l2). split; [apply Permutation_sym, Hp | intro H; apply (Hsw l0 l1 l2); auto].
Qed.

End GenSortProofs.


(* ---------------------------------------------------------------- Name.__eq__ and the key *)

Lemma pos_eqb_eq a b : pos_eqb a b = true <-> a = b.
Proof.
  destruct a as [a1 a2], b as [b1 b2]. unfold pos_eqb; simpl.
  rewrite andb_true_iff, !N.eqb_eq. split; [intros [-> ->]; reflexivity | intros H; inversion H; auto].
Qed.

Lemma opt_pos_eqb_eq a b : opt_pos_eqb a b = true <-> a = b.
Proof.
  destruct a, b; simpl; split; intro H; try congruence; auto.
  - apply pos_eqb_eq in H. congruence.
  - inversion H. apply pos_eqb_eq. reflexivity.
Qed.

Lemma opt_str_eqb_eq a b : opt_str_eqb a b = true <-> a = b.
Proof.
  destruct a, b; simpl; split; intro H; try congruence; auto.
  - apply str_eqb_eq in H. congruence.
  - inversion H. apply str_eqb_refl.
Qed.

Lemma name_eqb_ident a b : name_eqb a b = true <-> ident a = ident b.
Proof.
  unfold name_eqb, ident.
  rewrite !andb_true_iff, opt_pos_eqb_eq, opt_str_eqb_eq, str_eqb_eq, N.eqb_eq. split.
  - intros [[[-> ->] ->] ->]. reflexivity.
  - intros H. inversion H. auto.
Qed.

Lemma name_eqb_refl a : name_eqb a a = true.
Proof. apply name_eqb_ident. reflexivity. Qed.

Lemma name_eqb_sym a b : name_eqb a b = name_eqb b a.
Proof.
  destruct (name_eqb a b) eqn:E1; destruct (name_eqb b a) eqn:E2; auto.
  - apply name_eqb_ident in E1. symmetry in E1. apply name_eqb_ident in E1. congruence.
  - apply name_eqb_ident in E2. symmetry in E2. apply name_eqb_ident in E2. congruence.
Qed.

Lemma name_eqb_trans a b c : name_eqb a b = true -> name_eqb b c = true -> name_eqb a c = true.
Proof. rewrite !name_eqb_ident. congruence. Qed.

Lemma res_eqb_eq a b : res_eqb a b = true <-> a = b.
Proof.
  unfold res_eqb. rewrite andb_true_iff, name_eqb_ident, N.eqb_eq. split.
  - destruct a, b; unfold ident; simpl. intros [H ->]. inversion H. reflexivity.
  - intros ->. auto.
Qed.

Lemma name_eqb_strip a b : name_eqb (strip a) (strip b) = name_eqb a b.
Proof. reflexivity. Qed.

Lemma sort_key_strip a : sort_key (strip a) = sort_key a.
Proof. reflexivity. Qed.

(* the sort key determines the __eq__ tuple of well-formed results of one inference state *)
Lemma key_determines_identity a b :
  wf a -> wf b -> r_ist a = r_ist b -> sort_key a = sort_key b -> name_eqb a b = true.
Proof.
  intros [Pa Qa] [Pb Qb] Hi Hk. apply name_eqb_ident.
  destruct a as [pa fa na ia ya], b as [pb fb nb ib yb].
  unfold sort_key, path_str, r_line, r_col, ident in *; simpl in *.
  destruct fa as [x|], fb as [y|]; destruct pa as [[l c]|], pb as [[l' c']|]; simpl in *;
    inversion Hk; subst; try reflexivity;
    try (exfalso; apply Qa; reflexivity); try (exfalso; apply Qb; reflexivity);
    try (exfalso; apply Pa; reflexivity); try (exfalso; apply Pb; reflexivity).
Qed.

(* ... and conversely, always *)
Lemma identity_determines_key a b : name_eqb a b = true -> sort_key a = sort_key b.
Proof.
  intros H. apply name_eqb_ident in H. destruct a, b. unfold ident in H; simpl in H.
  inversion H; subst. reflexivity.
Qed.

(* without the side conditions the key is not injective: None vs (0, 0), None vs a path printing as '' *)
Lemma key_not_injective_unrestricted :
  exists a b, r_ist a = r_ist b /\ name_eqb a b = false /\ sort_key a = sort_key b.
Proof.
  exists {| r_pos := None; r_path := None; r_name := [120%N]; r_ist := 0; r_pay := 0 |},
         {| r_pos := Some (0%N, 0%N); r_path := None; r_name := [120%N]; r_ist := 0; r_pay := 0 |}.
  repeat split.
Qed.

Lemma wfb_wf r : wfb r = true <-> wf r.
Proof.
  unfold wfb, wf. rewrite andb_true_iff, !negb_true_iff. split.
  - intros [H1 H2]. split; intro E.
    + apply opt_str_eqb_eq in E. congruence.
    + apply opt_pos_eqb_eq in E. congruence.
  - intros [H1 H2]. split.
    + destruct (opt_str_eqb (r_path r) (Some [])) eqn:E; auto. apply opt_str_eqb_eq in E. contradiction.
    + destruct (opt_pos_eqb (r_pos r) (Some (0%N, 0%N))) eqn:E; auto. apply opt_pos_eqb_eq in E. contradiction.
Qed.

(* ---------------------------------------------------------------- set(defs) *)

Lemma dedup_In x l : In x (dedup l) -> In x l.
Proof.
  revert x; induction l as [|y l IH]; simpl; intros x H; [contradiction|].
  destruct H as [->|H]; [left; reflexivity|]. apply filter_In in H as [H _]. right. apply IH. exact H.
Qed.

(* every element is represented by an __eq__-equal survivor *)
Lemma dedup_represents x l : In x l -> exists y, In y (dedup l) /\ name_eqb y x = true.
Proof.
  induction l as [|z l IH]; simpl; intros H; [contradiction|].
  destruct H as [->|H].
  - exists x. split; [left; reflexivity | apply name_eqb_refl].
  - destruct (IH H) as [y [Hy Hxy]].
    destruct (name_eqb z y) eqn:E.
    + exists z. split; [left; reflexivity|]. eapply name_eqb_trans; eauto.
    + exists y. split; [|exact Hxy]. right. apply filter_In. split; [exact Hy|]. rewrite E. reflexivity.
Qed.

(* no two survivors are equal for __eq__ *)
Lemma dedup_distinct l a b :
  In a (dedup l) -> In b (dedup l) -> name_eqb a b = true -> a = b.
Proof.
  induction l as [|z l IH]; simpl; intros Ha Hb E; [contradiction|].
  destruct Ha as [<-|Ha]; destruct Hb as [<-|Hb]; auto.
  - apply filter_In in Hb as [_ Hb]. rewrite E in Hb. discriminate.
  - apply filter_In in Ha as [_ Ha]. rewrite name_eqb_sym, E in Ha. discriminate.
  - apply filter_In in Ha as [Ha _]. apply filter_In in Hb as [Hb _]. auto.
Qed.

Lemma dedup_NoDup l : NoDup (dedup l).
Proof.
  induction l as [|z l IH]; simpl; [constructor|]. constructor.
  - intro H. apply filter_In in H as [_ H]. rewrite name_eqb_refl in H. discriminate.
  - apply NoDup_filter. exact IH.
Qed.

Lemma dedup_keeps_coherent l x : coherent l -> In x l -> In x (dedup l).
Proof.
  intros Hc Hx. destruct (dedup_represents x l Hx) as [y [Hy E]].
  assert (y = x) by (apply Hc; auto using dedup_In). subst. exact Hy.
Qed.

Lemma map_filter_strip f l :
  map strip (filter (fun y => negb (name_eqb f y)) l) =
  filter (fun y => negb (name_eqb (strip f) y)) (map strip l).
Proof.
  induction l as [|y l IH]; simpl; [reflexivity|].
  change (name_eqb (strip f) (strip y)) with (name_eqb f y).
  destruct (name_eqb f y); simpl; rewrite IH; reflexivity.
Qed.

Lemma dedup_strip l : map strip (dedup l) = dedup (map strip l).
Proof.
  induction l as [|x l IH]; simpl; [reflexivity|].
  rewrite map_filter_strip, IH. reflexivity.
Qed.

Lemma insert_strip x l :
  map strip (insert_by res dkey sort_key dkey_cmp x l) =
  insert_by res dkey sort_key dkey_cmp (strip x) (map strip l).
Proof.
  induction l as [|y l IH]; simpl; [reflexivity|].
  change (leb_by res dkey sort_key dkey_cmp (strip x) (strip y)) with (leb_by res dkey sort_key dkey_cmp x y).
  destruct (leb_by res dkey sort_key dkey_cmp x y); simpl; [reflexivity|]. rewrite IH. reflexivity.
Qed.

Lemma sort_defs_strip l : map strip (sort_defs l) = sort_defs (map strip l).
Proof.
  unfold sort_defs. induction l as [|x l IH]; simpl; [reflexivity|].
  rewrite insert_strip, IH. reflexivity.
Qed.

Lemma strip_coherent l : coherent (map strip l).
Proof.
  intros a b Ha Hb E. apply in_map_iff in Ha as [a' [<- _]]. apply in_map_iff in Hb as [b' [<- _]].
  apply name_eqb_ident in E. destruct a', b'. unfold ident, strip in *; simpl in *. inversion E. reflexivity.
Qed.

Lemma strip_wf l : Forall wf l -> Forall wf (map strip l).
Proof. intros H. apply Forall_map. eapply Forall_impl; [|exact H]. intros a Ha. exact Ha. Qed.

Lemma strip_same_ist l : same_ist l -> same_ist (map strip l).
Proof.
  intros H a b Ha Hb. apply in_map_iff in Ha as [a' [<- Ha]]. apply in_map_iff in Hb as [b' [<- Hb]].
  apply (H a' b'); assumption.
Qed.

(* ---------------------------------------------------------------- the API-level results *)

Definition sorted_defs (l : list res) : Prop :=
  StronglySorted (fun a b => leb_by res dkey sort_key dkey_cmp a b = true) l.

Lemma key_inj_on l :
  Forall wf l -> same_ist l -> coherent l ->
  forall a b, In a l -> In b l -> sort_key a = sort_key b -> a = b.
Proof.
  intros Hw Hi Hc a b Ha Hb Hk. apply Hc; auto.
  rewrite Forall_forall in Hw. apply key_determines_identity; auto.
Qed.

Lemma sub_wf l l' : (forall x, In x l' -> In x l) -> Forall wf l -> Forall wf l'.
Proof. intros H Hw. rewrite Forall_forall in *. auto. Qed.

Lemma infer_function_of_set l1 l2 :
  (forall x, In x l1 <-> In x l2) -> Forall wf l1 -> same_ist l1 -> coherent l1 ->
  infer_out l1 = infer_out l2.
Proof.
  intros Hs Hw Hi Hc. unfold infer_out, sort_defs.
  apply (sort_perm_eq res dkey sort_key dkey_cmp dkey_cmp_ok).
  - apply NoDup_Permutation; try apply dedup_NoDup.
    assert (Hc2 : coherent l2) by (intros a b Ha Hb; apply Hc; apply Hs; assumption).
    intros x; split; intro H.
    + apply dedup_keeps_coherent; [exact Hc2|]. apply Hs. apply dedup_In. exact H.
    + apply dedup_keeps_coherent; [exact Hc|]. apply Hs. apply dedup_In. exact H.
  - apply key_inj_on.
    + eapply sub_wf; [|exact Hw]. intros x0; apply dedup_In.
    + intros a b Ha Hb. apply Hi; apply dedup_In; assumption.
    + intros a b Ha Hb. apply Hc; apply dedup_In; assumption.
Qed.

(* without coherence: everything __eq__ and the sort key can see of the output is determined *)
Lemma infer_identity_function_of_set l1 l2 :
  (forall x, In x (map strip l1) <-> In x (map strip l2)) -> Forall wf l1 -> same_ist l1 ->
  map strip (infer_out l1) = map strip (infer_out l2).
Proof.
  intros Hs Hw Hi. unfold infer_out. rewrite !sort_defs_strip, !dedup_strip.
  apply infer_function_of_set; auto using strip_wf, strip_same_ist, strip_coherent.
Qed.

(* which of several __eq__-equal results survives depends on the enumeration *)
Lemma infer_survivor_depends_on_enumeration :
  exists l1 l2, Permutation l1 l2 /\ Forall wf l1 /\ same_ist l1 /\ infer_out l1 <> infer_out l2.
Proof.
  set (a := {| r_pos := Some (1%N, 6%N); r_path := None; r_name := [65%N]; r_ist := 0; r_pay := 0 |}).
  set (b := {| r_pos := Some (1%N, 6%N); r_path := None; r_name := [65%N]; r_ist := 0; r_pay := 1 |}).
  exists [a; b], [b; a]. split; [apply perm_swap|]. split.
  - repeat constructor; discriminate.
  - split.
    + intros x y [<-|[<-|[]]] [<-|[<-|[]]]; reflexivity.
    + vm_compute. discriminate.
Qed.

Lemma refs_function_of_multiset l1 l2 :
  Permutation l1 l2 -> Forall wf l1 -> same_ist l1 -> coherent l1 -> refs_out l1 = refs_out l2.
Proof.
  intros P Hw Hi Hc. unfold refs_out, sort_defs.
  apply (sort_perm_eq res dkey sort_key dkey_cmp dkey_cmp_ok); [exact P|]. apply key_inj_on; assumption.
Qed.

Lemma refs_sorted_perm l : sorted_defs (refs_out l) /\ Permutation l (refs_out l).
Proof.
  split; [apply (sort_sorted res dkey sort_key dkey_cmp dkey_cmp_ok) | apply sort_perm].
Qed.

Lemma infer_sorted l : sorted_defs (infer_out l).
Proof. apply (sort_sorted res dkey sort_key dkey_cmp dkey_cmp_ok). Qed.

Lemma goto_set_spec l x : coherent l -> (In x (goto_set l) <-> In x l).
Proof.
  intros Hc. unfold goto_set, sort_defs. split; intro H.
  - apply dedup_In in H. eapply Permutation_in; [apply Permutation_sym, sort_perm|exact H].
  - apply dedup_keeps_coherent.
    + intros a b Ha Hb. apply Hc; (eapply Permutation_in; [apply Permutation_sym, sort_perm|]); eassumption.
    + eapply Permutation_in; [apply sort_perm|exact H].
Qed.

Lemma goto_same_set l1 l2 :
  (forall x, In x l1 <-> In x l2) -> coherent l1 ->
  forall x, In x (goto_set l1) <-> In x (goto_set l2).
Proof.
  intros Hs Hc x.
  assert (Hc2 : coherent l2) by (intros a b Ha Hb; apply Hc; apply Hs; assumption).
  rewrite (goto_set_spec l1 x Hc), (goto_set_spec l2 x Hc2). apply Hs.
Qed.

Lemma goto_identity_same_set l1 l2 :
  (forall x, In x (map strip l1) <-> In x (map strip l2)) ->
  forall x, In x (map strip (goto_set l1)) <-> In x (map strip (goto_set l2)).
Proof.
  intros Hs x. unfold goto_set. rewrite !dedup_strip, !sort_defs_strip.
  apply goto_same_set; [exact Hs | apply strip_coherent].
Qed.

Lemma goto_canon_equal l1 l2 :
  (forall x, In x l1 <-> In x l2) -> Forall wf l1 -> same_ist l1 -> coherent l1 ->
  goto_canon l1 = goto_canon l2.
Proof.
  intros Hs Hw Hi Hc. unfold goto_canon, sort_defs.
  assert (Hc2 : coherent l2) by (intros a b Ha Hb; apply Hc; apply Hs; assumption).
  apply (sort_perm_eq res dkey sort_key dkey_cmp dkey_cmp_ok).
  - apply NoDup_Permutation; try apply dedup_NoDup. apply goto_same_set; assumption.
  - apply key_inj_on.
    + rewrite Forall_forall in *. intros x Hx. apply Hw. apply (goto_set_spec l1 x Hc). exact Hx.
    + intros a b Ha Hb. apply Hi; apply (goto_set_spec l1 _ Hc); assumption.
    + intros a b Ha Hb. apply Hc; apply (goto_set_spec l1 _ Hc); assumption.
Qed.

(* get_signatures has no ordering step: its order IS the enumeration order *)
Lemma sigs_order_is_enumeration_order :
  (forall l, sigs_out l = l) /\
  exists l1 l2, Permutation l1 l2 /\ Forall wf l1 /\ same_ist l1 /\ coherent l1 /\ sigs_out l1 <> sigs_out l2.
Proof.
  split; [reflexivity|].
  set (a := {| r_pos := Some (2%N, 8%N); r_path := None; r_name := [109%N]; r_ist := 0; r_pay := 0 |}).
  set (b := {| r_pos := Some (4%N, 8%N); r_path := None; r_name := [109%N]; r_ist := 0; r_pay := 0 |}).
  exists [a; b], [b; a]. split; [apply perm_swap|]. split; [repeat constructor; discriminate|]. split.
  - intros x y [<-|[<-|[]]] [<-|[<-|[]]]; reflexivity.
  - split.
    + intros x y [<-|[<-|[]]] [<-|[<-|[]]] E; try reflexivity; vm_compute in E; discriminate.
    + unfold sigs_out. intro H. inversion H.
Qed.


(* ---------------------------------------------------------------- completions *)

Lemma cres_eqb_eq a b : cres_eqb a b = true <-> a = b.
Proof.
  unfold cres_eqb. rewrite !andb_true_iff, !str_eqb_eq, eqb_true_iff, N.eqb_eq.
  destruct a, b; simpl. split.
  - intros [[[-> ->] ->] ->]. reflexivity.
  - intros H. inversion H. auto.
Qed.

Definition csorted (like : str) (l : list cres) : Prop :=
  StronglySorted (fun a b => leb_by cres ckey (csort_key like) ckey_cmp a b = true) l.

Lemma complete_sorted_stable like l :
  csorted like (csort like l) /\ Permutation l (csort like l) /\
  (forall k, filter (key_eqb_by cres ckey (csort_key like) ckey_cmp k) (csort like l) =
             filter (key_eqb_by cres ckey (csort_key like) ckey_cmp k) l).
Proof.
  split; [apply (sort_sorted cres ckey (csort_key like) ckey_cmp ckey_cmp_ok)|].
  split; [apply sort_perm|]. intro k. apply (sort_stable cres ckey (csort_key like) ckey_cmp ckey_cmp_ok).
Qed.

(* the order is independent of the enumeration exactly when names with equal keys are equal *)
Lemma complete_order_indep_iff like l :
  (forall l', Permutation l l' -> csort like l = csort like l') <->
  (forall a b, In a l -> In b l -> csort_key like a = csort_key like b -> a = b).
Proof.
  split.
  - intros H a b Ha Hb Hk. destruct (cres_eqb a b) eqn:E; [apply cres_eqb_eq; exact E|].
    exfalso.
    assert (Hne : a <> b) by (intro Heq; apply cres_eqb_eq in Heq; congruence).
    destruct (tie_makes_order_dependent cres ckey (csort_key like) ckey_cmp ckey_cmp_ok l a b Ha Hb Hne Hk)
      as [l' [P D]].
    apply D. apply H. exact P.
  - intros Hinj l' P. apply (sort_perm_eq cres ckey (csort_key like) ckey_cmp ckey_cmp_ok); assumption.
Qed.

Lemma str_in_In s l : str_in s l = true <-> In s l.
Proof.
  induction l as [|x l IH]; simpl; [split; [discriminate|tauto]|].
  rewrite orb_true_iff, str_eqb_eq, IH. split; intros [H|H]; auto.
Qed.

Lemma cdedup_go_sub seen l c : In c (cdedup_go seen l) -> In c l /\ ~ In (c_name c) seen /\ c_del c = false.
Proof.
  revert seen; induction l as [|x l IH]; simpl; intros seen H; [contradiction|].
  destruct (str_in (c_name x) seen) eqn:E.
  - destruct (IH _ H) as [H1 H2]. auto.
  - assert (Hx : ~ In (c_name x) seen) by (intro Hi; apply str_in_In in Hi; congruence).
    destruct (c_del x) eqn:D.
    + destruct (IH _ H) as [H1 [H2 H3]]. split; [auto|]. split; [|exact H3]. intro Hi. apply H2. right. exact Hi.
    + destruct H as [<-|H]; [auto|].
      destruct (IH _ H) as [H1 [H2 H3]]. split; [auto|]. split; [|exact H3]. intro Hi. apply H2. right. exact Hi.
Qed.

(* filter_names never yields two completions with the same name *)
Lemma cdedup_go_names_distinct seen l : NoDup (map c_name (cdedup_go seen l)).
Proof.
  revert seen; induction l as [|x l IH]; simpl; intros seen; [constructor|].
  destruct (str_in (c_name x) seen); [apply IH|].
  destruct (c_del x); [apply IH|]. simpl. constructor; [|apply IH].
  intro Hi. apply in_map_iff in Hi as [c [Hn Hc]]. apply cdedup_go_sub in Hc as [_ [Hc _]].
  apply Hc. left. symmetry. exact Hn.
Qed.

Lemma complete_out_names_distinct like l : NoDup (map c_name (complete_out like l)).
Proof.
  unfold complete_out. eapply Permutation_NoDup; [apply Permutation_map, sort_perm|].
  apply cdedup_go_names_distinct.
Qed.

Lemma complete_out_function_of_survivors like l l' :
  Permutation (cdedup l) (cdedup l') ->
  (forall a b, In a (cdedup l) -> In b (cdedup l) -> csort_key like a = csort_key like b -> a = b) ->
  complete_out like l = complete_out like l'.
Proof.
  intros P H. unfold complete_out. apply (proj2 (complete_order_indep_iff like (cdedup l)) H). exact P.
Qed.

(* the two places where the enumeration order of the engine shows through *)
Lemma complete_key_tie_depends_on_enumeration :
  exists like l1 l2, Permutation l1 l2 /\ NoDup (map c_name l1) /\ complete_out like l1 <> complete_out like l2.
Proof.
  set (a := {| c_name := [70;111;111]%N; c_lname := [102;111;111]%N; c_del := false; c_pay := 0 |}).
  set (b := {| c_name := [102;111;111]%N; c_lname := [102;111;111]%N; c_del := false; c_pay := 0 |}).
  exists [], [a; b], [b; a]. split; [apply perm_swap|]. split.
  - simpl. repeat constructor; simpl; intuition discriminate.
  - vm_compute. discriminate.
Qed.

Lemma complete_survivor_depends_on_enumeration :
  exists like l1 l2, Permutation l1 l2 /\ complete_out like l1 <> complete_out like l2 /\
                     map c_name (complete_out like l1) = map c_name (complete_out like l2).
Proof.
  set (a := {| c_name := [98;97;114]%N; c_lname := [98;97;114]%N; c_del := false; c_pay := 0 |}).
  set (b := {| c_name := [98;97;114]%N; c_lname := [98;97;114]%N; c_del := false; c_pay := 1 |}).
  exists [], [a; b], [b; a]. split; [apply perm_swap|]. split; [vm_compute; discriminate | reflexivity].
Qed.

(* ---------------------------------------------------------------- transient state *)

Lemma key2_eqb_refl k : key2_eqb k k = true.
Proof. unfold key2_eqb. rewrite !N.eqb_refl. reflexivity. Qed.

Definition frame (s s' : tstate) : Prop :=
  t_rec s' = t_rec s /\ t_exlvl s' = t_exlvl s /\ t_exstk s' = t_exstk s /\ t_pre s' = t_pre s /\
  t_dyn s' = t_dyn s /\ (t_flow s' = true \/ t_flow s' = t_flow s) /\ (t_ana s' = false \/ t_ana s' = t_ana s).

Lemma frame_refl s : frame s s.
Proof. unfold frame. tauto. Qed.

Lemma frame_trans s1 s2 s3 : frame s1 s2 -> frame s2 s3 -> frame s1 s3.
Proof.
  unfold frame. intros [A1 [A2 [A3 [A4 [A5 [A6 A7]]]]]] [B1 [B2 [B3 [B4 [B5 [B6 B7]]]]]].
  repeat split; try congruence.
  - destruct B6 as [B6|B6]; [left; exact B6|]. destruct A6 as [A6|A6]; [left|right]; congruence.
  - destruct B7 as [B7|B7]; [left; exact B7|]. destruct A7 as [A7|A7]; [left|right]; congruence.
Qed.

Lemma exec_frame o : forall s, frame s (st_of (exec o s)).
Proof.
  induction o; intros s; simpl.
  - apply frame_refl.
  - apply frame_refl.
  - specialize (IHo1 s). destruct (exec o1 s) as [[s1 r1] t1]. destruct r1; [exact IHo1|].
    specialize (IHo2 s1). destruct (exec o2 s1) as [[s2 r2] t2]. eapply frame_trans; eauto.
  - specialize (IHo s). destruct (exec o s) as [[s1 r1] t1]. exact IHo.
  - match goal with |- context [exec o ?x] => specialize (IHo x); destruct (exec o x) as [[s1 r1] t1] end.
    unfold st_of, frame in *; simpl in *. intuition.
  - match goal with |- context [exec o ?x] => specialize (IHo x); destruct (exec o x) as [[s1 r1] t1] end.
    unfold st_of, frame in *; simpl in *. intuition.
  - destruct (mem_N n (t_rec s)); [apply frame_refl|].
    match goal with |- context [exec o ?x] => specialize (IHo x); destruct (exec o x) as [[s1 r1] t1] end.
    unfold st_of, frame in *; simpl in *. destruct IHo as [A1 [A2 [A3 [A4 [A5 [A6 A7]]]]]].
    rewrite A1. simpl. intuition.
  - match goal with |- context [exec o ?x] => specialize (IHo x); destruct (exec o x) as [[s1 r1] t1] end.
    unfold st_of, frame in *; simpl in *. destruct IHo as [A1 [A2 [A3 [A4 [A5 [A6 A7]]]]]].
    rewrite A2, A3. simpl. rewrite N.pred_succ. intuition.
  - destruct (mem_k2 (c, k) (t_pre s)) eqn:Hm.
    + match goal with |- context [exec o ?x] => specialize (IHo x); destruct (exec o x) as [[s1 r1] t1] end.
      unfold st_of, frame in *; simpl in *. try rewrite Hm in *.
      destruct IHo as [A1 [A2 [A3 [A4 [A5 [A6 A7]]]]]]. rewrite A4, Hm. intuition.
    + match goal with |- context [exec o ?x] => specialize (IHo x); destruct (exec o x) as [[s1 r1] t1] end.
      unfold st_of, frame in *; simpl in *. try rewrite Hm in *. simpl in *.
      destruct IHo as [A1 [A2 [A3 [A4 [A5 [A6 A7]]]]]].
      rewrite A4. simpl. rewrite key2_eqb_refl. intuition.
  - match goal with |- context [exec o ?x] => specialize (IHo x); destruct (exec o x) as [[s1 r1] t1] end.
    unfold st_of, frame in *; simpl in *. destruct IHo as [A1 [A2 [A3 [A4 [A5 [A6 A7]]]]]].
    rewrite A5. simpl. rewrite N.pred_succ. intuition.
  - destruct (memo_get k (t_memo s)); [apply frame_refl|].
    match goal with |- context [exec o ?x] => specialize (IHo x); destruct (exec o x) as [[s1 r1] t1] end.
    destruct r1; unfold st_of, frame in *; simpl in *; intuition.
Qed.

(* after any piece of code of that shape - whether it returns or raises - every transient
   has the value it had before (the two flags are restored to their constants) *)
Lemma exec_restores o s :
  t_flow s = true -> t_ana s = false -> transients (st_of (exec o s)) = transients s.
Proof.
  intros Hf Ha. destruct (exec_frame o s) as [A1 [A2 [A3 [A4 [A5 [A6 A7]]]]]].
  unfold transients. rewrite A1, A2, A3, A4, A5.
  assert (t_flow (st_of (exec o s)) = t_flow s) by (destruct A6; congruence).
  assert (t_ana (st_of (exec o s)) = t_ana s) by (destruct A7; congruence).
  congruence.
Qed.

Lemma query_keeps_idle o s : idle s -> idle (st_of (run_query o s)).
Proof.
  intros [I1 [I2 [I3 [I4 [I5 [I6 I7]]]]]]. unfold run_query.
  pose proof (exec_frame o (step s EReset)) as F.
  destruct (exec o (step s EReset)) as [[s1 r] t]. unfold st_of in *; simpl in *.
  destruct F as [A1 [A2 [A3 [A4 [A5 [A6 A7]]]]]]. simpl in *.
  unfold idle. repeat split; try congruence.
  - destruct A6; congruence.
  - destruct A7; congruence.
Qed.

Lemma query_restores o s : idle s -> transients (st_of (run_query o s)) = transients s.
Proof.
  intros I. pose proof (query_keeps_idle o s I) as I'.
  destruct I as [I1 [I2 [I3 [I4 [I5 [I6 I7]]]]]]. destruct I' as [J1 [J2 [J3 [J4 [J5 [J6 J7]]]]]].
  unfold transients. congruence.
Qed.

(* the flat trace of writes replays to the same state: this is what ties the structured
   semantics to the writes observed on the real objects *)
Lemma run_trace_app t1 t2 s : run_trace (t1 ++ t2) s = run_trace t2 (run_trace t1 s).
Proof. unfold run_trace. apply fold_left_app. Qed.

Lemma exec_trace_agrees o : forall s, run_trace (trace_of (exec o s)) s = st_of (exec o s).
Proof.
  induction o; intros s; simpl; try reflexivity.
  - specialize (IHo1 s). destruct (exec o1 s) as [[s1 r1] t1]. destruct r1; [exact IHo1|].
    specialize (IHo2 s1). destruct (exec o2 s1) as [[s2 r2] t2].
    unfold trace_of, st_of in *; simpl in *. rewrite run_trace_app, IHo1. exact IHo2.
  - specialize (IHo s). destruct (exec o s) as [[s1 r1] t1]. exact IHo.
  - match goal with |- context [exec o ?x] => specialize (IHo x); destruct (exec o x) as [[s1 r1] t1] end.
    unfold trace_of, st_of in *; simpl in *. rewrite run_trace_app. unfold run_trace in *. rewrite IHo. reflexivity.
  - match goal with |- context [exec o ?x] => specialize (IHo x); destruct (exec o x) as [[s1 r1] t1] end.
    unfold trace_of, st_of in *; simpl in *. rewrite run_trace_app. unfold run_trace in *. rewrite IHo. reflexivity.
  - destruct (mem_N n (t_rec s)); [reflexivity|].
    match goal with |- context [exec o ?x] => specialize (IHo x); destruct (exec o x) as [[s1 r1] t1] end.
    unfold trace_of, st_of in *; simpl in *. rewrite run_trace_app. unfold run_trace in *. rewrite IHo. reflexivity.
  - match goal with |- context [exec o ?x] => specialize (IHo x); destruct (exec o x) as [[s1 r1] t1] end.
    unfold trace_of, st_of in *; simpl in *. rewrite run_trace_app. unfold run_trace in *. rewrite IHo. reflexivity.
  - match goal with |- context [exec o ?x] => specialize (IHo x); destruct (exec o x) as [[s1 r1] t1] end.
    unfold trace_of, st_of in *; simpl in *. rewrite run_trace_app. unfold run_trace in *. rewrite IHo. reflexivity.
  - match goal with |- context [exec o ?x] => specialize (IHo x); destruct (exec o x) as [[s1 r1] t1] end.
    unfold trace_of, st_of in *; simpl in *. rewrite run_trace_app. unfold run_trace in *. rewrite IHo. reflexivity.
  - destruct (memo_get k (t_memo s)); [reflexivity|].
    match goal with |- context [exec o ?x] => specialize (IHo x); destruct (exec o x) as [[s1 r1] t1] end.
    destruct r1; unfold trace_of, st_of in *; simpl in *.
    + exact IHo.
    + rewrite run_trace_app. unfold run_trace in *. rewrite IHo. reflexivity.
Qed.

Lemma query_trace_agrees o s : run_trace (trace_of (run_query o s)) s = st_of (run_query o s).
Proof.
  unfold run_query. pose proof (exec_trace_agrees o (step s EReset)) as H.
  destruct (exec o (step s EReset)) as [[s1 r] t]. exact H.
Qed.

(* _memoize_default writes its recursion default without try/finally: an exception leaves it behind *)
Lemma memo_default_survives_exception :
  exists o s k, idle s /\ t_memo s = [] /\ raised_of (run_query o s) = true /\
                memo_default k (t_memo (st_of (run_query o s))) = true /\ idle (st_of (run_query o s)) /\
                (* ... and the same query, asked again, does not raise any more *)
                raised_of (run_query o (st_of (run_query o s))) = false.
Proof.
  exists (OMemo 7%N (ORec 1%N ORaise)), idle_state, 7%N.
  split; [unfold idle; repeat split|]. split; [reflexivity|]. split; [reflexivity|].
  split; [reflexivity|]. split; [unfold idle; vm_compute; repeat split | reflexivity].
Qed.

(* the memo key contains neither flow_analysis_enabled nor is_analysis: what one query computed with
   flow analysis switched off is served to a later query that runs with flow analysis on *)
Lemma memo_ignores_flow_mode :
  exists o1 o2 s k,
    idle s /\ t_memo s = [] /\
    let s1 := st_of (run_query o1 s) in
    let s2 := st_of (run_query o2 s1) in
    idle s1 /\ idle s2 /\ raised_of (run_query o1 s) = false /\
    memo_get k (t_memo s2) = Some (false, false, false) /\ t_flow s1 = true /\
    trace_of (run_query o2 s1) = [EReset] /\
    (* on a fresh state the second query computes the entry itself, under flow analysis *)
    memo_get k (t_memo (st_of (run_query o2 s))) = Some (false, true, false).
Proof.
  exists (OFlowOff (OMemo 3%N OSkip)), (OMemo 3%N OSkip), idle_state, 3%N.
  split; [unfold idle; repeat split|]. split; [reflexivity|].
  cbv zeta. split; [unfold idle; vm_compute; repeat split|]. split; [unfold idle; vm_compute; repeat split|].
  repeat split.
Qed.

Fixpoint raise_free (o : op) : bool :=
  match o with
  | OSkip => true | ORaise => false
  | OSeq a b => raise_free a && raise_free b
  | OCatch b | OFlowOff b | OAnalysis b | ORec _ b | OExec _ b | OPredef _ _ b | ODyn b | OMemo _ b => raise_free b
  end.

Lemma memo_get_set k d m k' :
  memo_get k' (memo_set k d m) = if N.eqb k' k then Some d else memo_get k' m.
Proof.
  induction m as [|[k0 d0] m IH]; simpl.
  - destruct (N.eqb k' k); reflexivity.
  - destruct (N.eqb k k0) eqn:E; simpl.
    + apply N.eqb_eq in E. subst k0. destruct (N.eqb k' k); reflexivity.
    + destruct (N.eqb k' k0) eqn:E2.
      * apply N.eqb_eq in E2. subst k0. rewrite N.eqb_sym, E. reflexivity.
      * exact IH.
Qed.

(* without an exception no recursion default is left behind *)
Lemma no_exception_no_default o : forall s,
  raise_free o = true ->
  raised_of (exec o s) = false /\
  forall k, memo_default k (t_memo (st_of (exec o s))) = true -> memo_default k (t_memo s) = true.
Proof.
  induction o; intros s Hrf; simpl in Hrf; simpl.
  - split; auto.
  - discriminate.
  - apply andb_true_iff in Hrf as [R1 R2].
    specialize (IHo1 s R1). destruct (exec o1 s) as [[s1 r1] t1].
    unfold raised_of, st_of in IHo1; simpl in IHo1. destruct IHo1 as [-> M1].
    specialize (IHo2 s1 R2). destruct (exec o2 s1) as [[s2 r2] t2].
    unfold raised_of, st_of in *; simpl in *. destruct IHo2 as [-> M2]. split; auto.
  - specialize (IHo s Hrf). destruct (exec o s) as [[s1 r1] t1].
    unfold raised_of, st_of in *; simpl in *. destruct IHo as [_ M]. split; auto.
  - match goal with |- context [exec o ?x] => specialize (IHo x Hrf); destruct (exec o x) as [[s1 r1] t1] end.
    unfold raised_of, st_of in *; simpl in *. exact IHo.
  - match goal with |- context [exec o ?x] => specialize (IHo x Hrf); destruct (exec o x) as [[s1 r1] t1] end.
    unfold raised_of, st_of in *; simpl in *. exact IHo.
  - destruct (mem_N n (t_rec s)); [split; auto|].
    match goal with |- context [exec o ?x] => specialize (IHo x Hrf); destruct (exec o x) as [[s1 r1] t1] end.
    unfold raised_of, st_of in *; simpl in *. exact IHo.
  - match goal with |- context [exec o ?x] => specialize (IHo x Hrf); destruct (exec o x) as [[s1 r1] t1] end.
    unfold raised_of, st_of in *; simpl in *. exact IHo.
  - destruct (mem_k2 (c, k) (t_pre s)) eqn:Hm;
    match goal with |- context [exec o ?x] => specialize (IHo x Hrf); destruct (exec o x) as [[s1 r1] t1] end;
    unfold raised_of, st_of in *; simpl in *; try (destruct (mem_k2 (c, k) (t_pre s1))); exact IHo.
  - match goal with |- context [exec o ?x] => specialize (IHo x Hrf); destruct (exec o x) as [[s1 r1] t1] end.
    unfold raised_of, st_of in *; simpl in *. exact IHo.
  - destruct (memo_get k (t_memo s)) eqn:Hit; [split; auto|].
    match goal with |- context [exec o ?x] => specialize (IHo x Hrf); destruct (exec o x) as [[s1 r1] t1] end.
    unfold raised_of, st_of in *; simpl in *. destruct IHo as [-> M]. split; [reflexivity|].
    intros k0. simpl. unfold memo_default in *. rewrite memo_get_set. destruct (N.eqb k0 k) eqn:E; [discriminate|].
    intros H. specialize (M k0). rewrite memo_get_set, E in M. apply M. exact H.
Qed.
