(* C14 proofs: the protocol invariant and its consequences for runs of any length. *)
From JV Require Import Model.C14_Protocol.

(* ======== part 1 ======== *)

Lemma memN_In : forall x l, memN x l = true <-> In x l.
Proof.
  induction l; simpl. { split; [discriminate | tauto]. }
  rewrite orb_true_iff, IHl, N.eqb_eq. split; intros [H|H]; auto.
Qed.

Lemma memN_false : forall x l, memN x l = false <-> ~ In x l.
Proof. intros. rewrite <- memN_In. destruct (memN x l); split; congruence. Qed.

Lemma removeN_In : forall x y l, In y (removeN x l) <-> In y l /\ y <> x.
Proof.
  induction l; simpl. { tauto. }
  destruct (N.eqb x a) eqn:E.
  - apply N.eqb_eq in E. subst. rewrite IHl. split; [tauto|]. intros [[H|H] Hn]; [congruence|tauto].
  - apply N.eqb_neq in E. simpl. rewrite IHl. split.
    + intros [H|[H1 H2]]; [subst; split; auto|tauto].
    + intros [[H|H] Hn]; auto.
Qed.

Lemma removeN_NoDup : forall x l, NoDup l -> NoDup (removeN x l).
Proof.
  induction l; simpl; intros H. { constructor. }
  inversion H; subst. destruct (N.eqb x a); auto.
  constructor; auto. rewrite removeN_In. tauto.
Qed.

Definition helper_ok (h : helper) : Prop :=
  (h_crashed h = true -> h_alive h = false /\ h_reaped h = true /\ h_states h = []) /\
  (h_crashed h = false -> h_alive h = true /\ h_reaped h = false).

(* helper-side ids = queued deletions + ids of the live used Scripts (U) *)
Definition P (h : helper) (U : N -> Prop) : Prop :=
  NoDup (h_states h) /\ NoDup (h_queue h) /\
  (forall id, In id (h_states h) <-> In id (h_queue h) \/ U id) /\
  (forall id, In id (h_queue h) -> ~ U id).

Definition raised (w : list wire) : Prop :=
  exists x, In x w /\ (w_fault x = FRaises \/ exists id, w_kind x = KCall id CRaise).

Lemma clean_app : forall a b, clean (a ++ b) = clean a && clean b.
Proof. intros. unfold clean. apply forallb_app. Qed.

Lemma raised_app_l : forall a b, raised a -> raised (a ++ b).
Proof. intros a b [x [H1 H2]]. exists x. split; auto. apply in_or_app; auto. Qed.
Lemma raised_app_r : forall a b, raised b -> raised (a ++ b).
Proof. intros a b [x [H1 H2]]. exists x. split; auto. apply in_or_app; auto. Qed.


Lemma send_crashed : forall fx sched h k, h_crashed h = true ->
  send fx sched h k = (h, SRaise EInternal, 0, []).
Proof. intros. unfold send. rewrite H. reflexivity. Qed.

(* a send on a helper that is not crashed: three shapes *)
Lemma send_live : forall sched h k h' r n w,
  helper_ok h -> h_crashed h = false -> send true sched h k = (h', r, n, w) ->
  (h' = set_states (bump h) (fst (child_apply k (h_states h))) /\ n = 0 /\ clean w = true /\
   r = (if snd (child_apply k (h_states h)) then SRaise EChildKey else answer k) /\
   (exists x, w = [x] /\ w_kind x = k)) \/
  (h' = set_states (bump h) (fst (child_apply k (h_states h))) /\ n = 0 /\ clean w = false /\
   r = SRaise EHelper /\ (exists x, w = [x] /\ w_fault x = FRaises) /\
   match k with KCall _ _ | KNoId => True | _ => False end) \/
  (h' = kill (die (bump h)) /\ n = 1 /\ clean w = false /\ r = SRaise EInternal).
Proof.
  intros sched h k h' r n w [Hc Ha] C H. unfold send in H. rewrite C in H.
  destruct (Ha C) as [Hal _]. rewrite Hal in H.
  destruct (eff_fault k (sched (h_gen h) (h_nreq h))) eqn:F; inversion H; subst; clear H.
  - left. repeat split; auto. eexists. split; reflexivity.
  - right; right. repeat split; auto.
  - right; right. repeat split; auto.
  - right; right. repeat split; auto.
  - right; left. repeat split; auto.
    + eexists. split; [reflexivity|reflexivity].
    + destruct (sched (h_gen h) (h_nreq h)); destruct k; simpl in F; try discriminate; exact I.
Qed.
Lemma helper_ok_kill : forall h, helper_ok (kill h).
Proof. intros h. split; simpl; intros; try discriminate; auto. Qed.

Lemma helper_ok_set_states_bump : forall h s, h_crashed h = false -> helper_ok h -> helper_ok (set_states (bump h) s).
Proof. intros h s C [H1 H2]. split; simpl; intros E; [congruence|auto]. Qed.

Lemma helper_ok_set_queue : forall h q, helper_ok h -> helper_ok (set_queue h q).
Proof. intros h q [H1 H2]. split; simpl; auto. Qed.

(* ---- flush *)
(* what a whole flush / run_call / query can end in *)
Inductive fin (h : helper) (U : N -> Prop) : helper -> option exc -> nat -> list wire -> Prop :=
| F_done : forall h' w, h_crashed h' = false -> helper_ok h' -> h_gen h' = h_gen h ->
    h_queue h' = [] -> P h' U -> clean w = true ->
    fin h U h' None 0 w
| F_dead : forall h' w, h_crashed h' = true -> helper_ok h' -> h_gen h' = h_gen h -> clean w = false ->
    fin h U h' (Some EInternal) 1 w.

Lemma flush_fin : forall sched U q h,
  h_crashed h = false -> helper_ok h -> h_queue h = q -> P h U ->
  exists h' r n w, flush true sched h q = (h', r, n, w) /\ fin h U h' r n w.
Proof.
  induction q as [|d q IH]; intros h C Hok Hq HP.
  - simpl. do 4 eexists. split; [reflexivity|].
    apply F_done.
    + simpl; auto.
    + apply helper_ok_set_queue; auto.
    + reflexivity.
    + reflexivity.
    + destruct HP as [A [B [Cc D]]]. rewrite Hq in *. unfold P; simpl. repeat split; auto.
      * intros H. apply Cc in H. auto.
      * intros H. apply Cc. auto.
    + reflexivity.
  - simpl. destruct (send true sched (set_queue h q) (KDel d)) as [[[h1 r1] n1] w1] eqn:S.
    assert (Hok1 : helper_ok (set_queue h q)) by (apply helper_ok_set_queue; auto).
    destruct HP as [A [B [Cc D]]]. rewrite Hq in *.
    assert (Hd : In d (h_states h)) by (apply Cc; left; left; auto).
    inversion B as [|? ? Bd Bq]; subst.
    assert (M : memN d (h_states h) = true) by (apply memN_In; auto).
    apply send_live in S; auto. simpl in S. rewrite M in S. simpl in S.
    destruct S as [[E1 [E2 [E3 [E4 _]]]] | [[E1 [E2 [E3 [E4 [E5 E6]]]]] | [E1 [E2 [E3 E4]]]]].
    + subst h1 n1 r1.
      match goal with |- context [flush true sched ?hh q] =>
        destruct (IH hh) as [h2 [r2 [n2 [w2 [F2 Fin2]]]]] end.
      { simpl; auto. }
      { apply helper_ok_set_states_bump with (h := set_queue h q); auto. }
      { reflexivity. }
      { unfold P; simpl. split; [|split; [|split]].
        - apply removeN_NoDup; auto.
        - auto.
        - intros id. rewrite removeN_In. split.
          + intros [H1 H2]. apply Cc in H1. destruct H1 as [[H1|H1]|H1]; auto. congruence.
          + intros [H|H]; split.
            * apply Cc. left. right. auto.
            * intro; subst. auto.
            * apply Cc. auto.
            * intro; subst. apply (D d); auto. left; auto.
        - intros id Hid. apply D. right. auto. }
      rewrite F2. do 4 eexists. split; [reflexivity|].
      inversion Fin2; subst; simpl in *.
      * apply F_done; auto. rewrite clean_app. rewrite E3. auto.
      * apply F_dead; auto. rewrite clean_app. rewrite E3. auto.
    + destruct E6.
    + subst. do 4 eexists. split; [reflexivity|]. apply F_dead; simpl; auto.
      apply helper_ok_kill.
Qed.

Lemma P_ext : forall h U V, (forall x, U x <-> V x) -> P h U -> P h V.
Proof.
  intros h U V E [A [B [C D]]]. unfold P. repeat split; auto.
  - intros H. apply C in H. rewrite <- E. auto.
  - intros H. apply C. rewrite E. auto.
  - intros id H. rewrite <- E. auto.
Qed.

Definition plus_id (U : N -> Prop) (id : N) : N -> Prop := fun x => U x \/ x = id.

Lemma run_call_fin : forall sched U id c h,
  h_crashed h = false -> helper_ok h -> P h U ->
  exists h' r n w, run_call true sched h id c = (h', r, n, w) /\
   ((h_crashed h' = false /\ helper_ok h' /\ h_gen h' = h_gen h /\ h_queue h' = [] /\
     P h' (plus_id U id) /\ n = 0 /\
     (clean w = true -> r = answer (KCall id c)) /\
     ((exists a, r = SReply a) \/ (r = SRaise EHelper /\ raised w))) \/
    (h_crashed h' = true /\ helper_ok h' /\ h_gen h' = h_gen h /\ n = 1 /\ clean w = false /\
     r = SRaise EInternal)).
Proof.
  intros sched U id c h C Hok HP. unfold run_call.
  destruct (flush_fin sched U (h_queue h) h C Hok eq_refl HP) as [h1 [r1 [n1 [w1 [F1 Fin1]]]]].
  rewrite F1. inversion Fin1; subst.
  - destruct (send true sched h1 (KCall id c)) as [[[h2 r2] n2] w2] eqn:S.
    do 4 eexists. split; [reflexivity|].
    apply send_live in S; auto. simpl in S.
    assert (HP2 : P (set_states (bump h1) (if memN id (h_states h1) then h_states h1 else id :: h_states h1))
                    (plus_id U id)).
    { destruct H3 as [A [B [Cc D]]]. rewrite H2 in *. unfold P, plus_id; simpl. rewrite H2.
      split; [|split; [constructor|split]].
      - destruct (memN id (h_states h1)) eqn:M; auto. constructor; auto. apply memN_false; auto.
      - intros x. destruct (memN id (h_states h1)) eqn:M.
        + apply memN_In in M. split.
          * intros Hx. apply Cc in Hx. destruct Hx as [[]|Hx]. auto.
          * intros [[]|[Hx|Hx]]; [apply Cc; auto|subst; auto].
        + simpl. split.
          * intros [Hx|Hx]; [auto|]. apply Cc in Hx. destruct Hx as [[]|Hx]. auto.
          * intros [[]|[Hx|Hx]]; [right; apply Cc; auto|auto].
      - intros x []. }
    destruct S as [[E1 [E2 [E3 [E4 [x [E5 E6]]]]]] | [[E1 [E2 [E3 [E4 [E5 E6]]]]] | [E1 [E2 [E3 E4]]]]].
    + left. subst h2 n2.
      split; [simpl; exact H|]. split; [apply helper_ok_set_states_bump; auto|].
      split; [simpl; auto|]. split; [simpl; auto|]. split; [exact HP2|]. split; [reflexivity|].
      assert (R : r2 = answer (KCall id c)).
      { rewrite E4. destruct (memN id (h_states h1)); reflexivity. }
      split; [intros _; exact R|].
      rewrite R. destruct c; simpl; [left; eexists; reflexivity|].
      right. split; auto. apply raised_app_r. subst w2. exists x. split; [left; auto|].
      right. exists id. auto.
    + left. subst h2 n2 r2.
      split; [simpl; exact H|]. split; [apply helper_ok_set_states_bump; auto|].
      split; [simpl; auto|]. split; [simpl; auto|]. split; [exact HP2|]. split; [reflexivity|].
      split.
      * rewrite clean_app, E3, andb_false_r. discriminate.
      * right. split; auto. apply raised_app_r. destruct E5 as [x [E5 E7]]. subst w2. exists x. split; [left; auto|auto].
    + right. subst.
      split; [reflexivity|]. split; [apply helper_ok_kill|]. split; [simpl; auto|].
      split; [reflexivity|]. split; [|reflexivity].
      rewrite clean_app, E3, andb_false_r. auto.
  - do 4 eexists. split; [reflexivity|]. right.
    split; [auto|]. split; [auto|]. split; [auto|]. split; [reflexivity|]. split; [auto|reflexivity].
Qed.

Inductive qfin (h : helper) (U : N -> Prop) (id : N) (cs : list call)
  : helper -> outcome -> nat -> list wire -> Prop :=
| Q_live : forall h' o w, h_crashed h' = false -> helper_ok h' -> h_gen h' = h_gen h -> h_queue h' = [] ->
    P h' (plus_id U id) -> (clean w = true -> o = canon_calls cs) ->
    ((exists l, o = OOk l) \/ (o = OExc EHelper /\ raised w)) ->
    qfin h U id cs h' o 0 w
| Q_dead : forall h' w, h_crashed h' = true -> helper_ok h' -> h_gen h' = h_gen h -> clean w = false ->
    qfin h U id cs h' (OExc EInternal) 1 w.

Lemma run_calls_cons : forall fx sched h id c cs,
  run_calls fx sched h id (c :: cs) =
  match run_call fx sched h id c with
  | (h1, SRaise e, n, w) => (h1, OExc e, n, w)
  | (h1, SReply a, n, w) =>
      match run_calls fx sched h1 id cs with
      | (h2, OOk l, n2, w2) => (h2, OOk (a :: l), n + n2, w ++ w2)
      | (h2, o, n2, w2) => (h2, o, n + n2, w ++ w2)
      end
  end.
Proof. reflexivity. Qed.

Lemma canon_cons_echo : forall a cs,
  canon_calls (CEcho a :: cs) = match canon_calls cs with OOk l => OOk (a :: l) | o => o end.
Proof. reflexivity. Qed.

Lemma run_calls_fin : forall sched id cs c U h,
  h_crashed h = false -> helper_ok h -> P h U ->
  exists h' o n w, run_calls true sched h id (c :: cs) = (h', o, n, w) /\ qfin h U id (c :: cs) h' o n w.
Proof.
  intros sched id. induction cs as [|c' cs IH]; intros c U h C Hok HP.
  - rewrite run_calls_cons.
    destruct (run_call_fin sched U id c h C Hok HP) as [h1 [r [n [w [R Fin]]]]]. rewrite R.
    destruct Fin as [[A1 [A2 [A3 [A4 [A5 [A6 [A7 A8]]]]]]] | [A1 [A2 [A3 [A4 [A5 A6]]]]]].
    + subst n. destruct A8 as [[a Ea] | [Ee Er]]; subst r.
      * do 4 eexists. split; [reflexivity|]. simpl. rewrite app_nil_r.
        apply Q_live; auto.
        -- intros Cw. apply A7 in Cw. destruct c; simpl in Cw; inversion Cw. reflexivity.
        -- left. eexists. reflexivity.
      * do 4 eexists. split; [reflexivity|].
        apply Q_live; auto.
        intros Cw. apply A7 in Cw. destruct c; simpl in Cw; inversion Cw. reflexivity.
    + subst n r. do 4 eexists. split; [reflexivity|]. apply Q_dead; auto.
  - rewrite run_calls_cons.
    destruct (run_call_fin sched U id c h C Hok HP) as [h1 [r [n [w [R Fin]]]]]. rewrite R.
    destruct Fin as [[A1 [A2 [A3 [A4 [A5 [A6 [A7 A8]]]]]]] | [A1 [A2 [A3 [A4 [A5 A6]]]]]].
    + subst n. destruct A8 as [[a Ea] | [Ee Er]]; subst r.
      * destruct (IH c' (plus_id U id) h1 A1 A2 A5) as [h2 [o2 [n2 [w2 [R2 Fin2]]]]].
        rewrite R2.
        assert (Hc : clean w = true -> c = CEcho a).
        { intros Cw. apply A7 in Cw. destruct c; simpl in Cw; inversion Cw. reflexivity. }
        inversion Fin2; subst.
        -- assert (HP' : P h2 (plus_id U id)).
           { eapply P_ext; [|exact H3]. intros x. unfold plus_id. tauto. }
           destruct H5 as [[l El] | [Ee Er]]; subst o2.
           ++ do 4 eexists. split; [reflexivity|]. apply Q_live; auto; try congruence.
              ** intros Cw. rewrite clean_app in Cw. apply andb_true_iff in Cw. destruct Cw as [Cw1 Cw2].
                 rewrite (Hc Cw1). rewrite canon_cons_echo. rewrite <- (H4 Cw2). reflexivity.
              ** left. eexists. reflexivity.
           ++ do 4 eexists. split; [reflexivity|]. apply Q_live; auto; try congruence.
              ** intros Cw. rewrite clean_app in Cw. apply andb_true_iff in Cw. destruct Cw as [Cw1 Cw2].
                 rewrite (Hc Cw1). rewrite canon_cons_echo. rewrite <- (H4 Cw2). reflexivity.
              ** right. split; auto. apply raised_app_r; auto.
        -- do 4 eexists. split; [reflexivity|]. apply Q_dead; auto; try congruence.
           rewrite clean_app, H2, andb_false_r. reflexivity.
      * do 4 eexists. split; [reflexivity|].
        apply Q_live; auto.
        intros Cw. apply A7 in Cw. destruct c; simpl in Cw; inversion Cw. reflexivity.
    + subst n r. do 4 eexists. split; [reflexivity|]. apply Q_dead; auto.
Qed.

(* a query on a Script whose helper has crashed *)
Lemma run_calls_crashed : forall sched id cs c h, h_crashed h = true ->
  exists q, run_calls true sched h id (c :: cs) = (set_queue h q, OExc EInternal, 0, []).
Proof.
  intros. rewrite run_calls_cons. unfold run_call.
  destruct (h_queue h) as [|d q] eqn:Q.
  - simpl. rewrite send_crashed by (simpl; auto). exists []. reflexivity.
  - simpl. rewrite send_crashed by (simpl; auto). exists q. reflexivity.
Qed.

(* ======== part 2 ======== *)

Definition BU (g : N) (l : list script) (x : N) : Prop :=
  exists sc, In sc l /\ s_id sc = x /\ s_gen sc = g /\ s_used sc = true.
Definition bound_used (s : st) : N -> Prop := BU (h_gen (cur s)) (scripts s).

Lemma find_script_some : forall id l sc, find_script id l = Some sc -> In sc l /\ s_id sc = id.
Proof.
  intros id l sc H. unfold find_script in H. apply find_some in H. destruct H as [H1 H2].
  apply N.eqb_eq in H2. auto.
Qed.

Lemma find_script_none : forall id l, find_script id l = None -> ~ In id (map s_id l).
Proof.
  intros id l H Hin. apply in_map_iff in Hin. destruct Hin as [sc [E Hin]].
  unfold find_script in H. eapply find_none in H; eauto. simpl in H. rewrite E, N.eqb_refl in H. discriminate.
Qed.

Lemma NoDup_ids_inj : forall l a b, NoDup (map s_id l) -> In a l -> In b l -> s_id a = s_id b -> a = b.
Proof.
  induction l; simpl; intros x y H Hx Hy E. { tauto. }
  inversion H; subst. destruct Hx as [Hx|Hx]; destruct Hy as [Hy|Hy]; subst; auto.
  - exfalso. apply H2. rewrite E. apply in_map. auto.
  - exfalso. apply H2. rewrite <- E. apply in_map. auto.
Qed.

Lemma map_id_mark_used : forall id l, map s_id (mark_used id l) = map s_id l.
Proof.
  intros. unfold mark_used. rewrite map_map. apply map_ext. intros a. destruct (N.eqb id (s_id a)); reflexivity.
Qed.

Lemma Forall_gen_mark_used : forall (Q : N -> Prop) id l,
  Forall (fun sc => Q (s_gen sc)) l -> Forall (fun sc => Q (s_gen sc)) (mark_used id l).
Proof.
  intros Q id l H. unfold mark_used. apply Forall_forall. intros x Hx. apply in_map_iff in Hx.
  destruct Hx as [y [E Hy]]. rewrite Forall_forall in H. specialize (H y Hy).
  destruct (N.eqb id (s_id y)); subst; simpl; auto.
Qed.

Lemma BU_mark_used : forall g id l sc x, NoDup (map s_id l) -> In sc l -> s_id sc = id ->
  (BU g (mark_used id l) x <-> BU g l x \/ (x = id /\ s_gen sc = g)).
Proof.
  intros g id l sc x ND Hsc Eid. unfold BU, mark_used. split.
  - intros [y [Hy [E1 [E2 E3]]]]. apply in_map_iff in Hy. destruct Hy as [z [Ez Hz]].
    destruct (N.eqb id (s_id z)) eqn:T.
    + apply N.eqb_eq in T. subst y. simpl in *. right.
      assert (z = sc) by (eapply NoDup_ids_inj; eauto; congruence). subst z. split; congruence.
    + subst y. left. exists z. auto.
  - intros [[y [Hy [E1 [E2 E3]]]] | [E1 E2]].
    + exists (if N.eqb id (s_id y) then mkS (s_id y) (s_gen y) true else y). split.
      * apply in_map_iff. exists y. auto.
      * destruct (N.eqb id (s_id y)); simpl; auto.
    + exists (mkS (s_id sc) (s_gen sc) true). split.
      * apply in_map_iff. exists sc. rewrite Eid, N.eqb_refl. auto.
      * simpl. subst. auto.
Qed.

Lemma In_remove_script : forall id l a, In a (remove_script id l) <-> In a l /\ s_id a <> id.
Proof.
  intros. unfold remove_script. rewrite filter_In. rewrite negb_true_iff, N.eqb_neq.
  split; intros [A B]; split; auto.
Qed.

Lemma NoDup_remove_script : forall id l, NoDup (map s_id l) -> NoDup (map s_id (remove_script id l)).
Proof.
  induction l; simpl; intros H. { constructor. }
  inversion H; subst. destruct (negb (N.eqb id (s_id a))); simpl; auto.
  constructor; auto. intros Hin. apply H2. apply in_map_iff in Hin. destruct Hin as [y [E Hy]].
  apply In_remove_script in Hy. apply in_map_iff. exists y. tauto.
Qed.

Lemma BU_remove : forall g id l x, BU g (remove_script id l) x <-> BU g l x /\ x <> id.
Proof.
  intros. unfold BU. split.
  - intros [y [Hy [E1 E2]]]. apply In_remove_script in Hy. destruct Hy. split; [exists y; auto|congruence].
  - intros [[y [Hy [E1 E2]]] Hn]. exists y. split; auto. apply In_remove_script. split; auto. congruence.
Qed.

Lemma BU_cons_unused : forall g id g' l x, BU g (mkS id g' false :: l) x <-> BU g l x.
Proof.
  intros. unfold BU. split.
  - intros [y [[Hy|Hy] [E1 [E2 E3]]]]; [subst; simpl in *; discriminate|exists y; auto].
  - intros [y [Hy E]]. exists y. split; [right|]; auto.
Qed.

Definition b2n (b : bool) : N := if b then 1%N else 0%N.
Definition weight (s : st) : N := (h_gen (cur s) + b2n (h_crashed (cur s)))%N.

Definition Inv (s : st) : Prop :=
  helper_ok (cur s) /\
  Forall (fun h => helper_ok h /\ h_crashed h = true /\ (h_gen h < h_gen (cur s))%N) (old s) /\
  NoDup (map s_id (scripts s)) /\
  Forall (fun sc => (s_gen sc <= h_gen (cur s))%N) (scripts s) /\
  (h_crashed (cur s) = false -> P (cur s) (bound_used s)).

Lemma Inv_init : Inv init.
Proof.
  unfold Inv, init; simpl. split; [|split; [|split; [|split]]].
  - split; simpl; intros; try discriminate; auto.
  - constructor.
  - constructor.
  - constructor.
  - intros _. unfold P, bound_used, BU; simpl. split; [constructor|split; [constructor|split]].
    + intros id. split; [tauto|]. intros [[]|[sc [[] _]]].
    + intros id [].
Qed.

Lemma helper_ok_fresh : forall g, helper_ok (fresh_helper g).
Proof. intros. split; simpl; intros; try discriminate; auto. Qed.

Lemma get_subprocess_spec : forall sched s s1 r n w,
  Inv s -> get_subprocess true true sched s = (s1, r, n, w) ->
  Inv s1 /\ scripts s1 = scripts s /\ syspath s1 = syspath s /\
  weight s1 = (weight s + N.of_nat n)%N /\
  ((r = None /\ n = 0 /\ clean w = true /\ h_crashed (cur s1) = false) \/
   (r = Some EInternal /\ n = 1 /\ clean w = false)).
Proof.
  intros sched s s1 r n w HI H. unfold get_subprocess in H.
  destruct (h_crashed (cur s)) eqn:C; simpl in H.
  - destruct (send true sched (fresh_helper (N.succ (h_gen (cur s)))) KInfo) as [[[h1 r1] n1] w1] eqn:S.
    inversion H; subst s1 r n w; clear H.
    destruct HI as [I1 [I2 [I3 [I4 I5]]]].
    apply send_live in S; [|apply helper_ok_fresh|reflexivity]. simpl in S.
    assert (Hold : forall hc, h_gen hc = N.succ (h_gen (cur s)) ->
              Forall (fun h => helper_ok h /\ h_crashed h = true /\ (h_gen h < h_gen hc)%N) (cur s :: old s)).
    { intros hc E. constructor.
      - split; auto. split; auto. rewrite E. lia.
      - eapply Forall_impl; [|exact I2]. simpl. intros a [A1 [A2 A3]]. split; auto. split; auto. rewrite E. lia. }
    assert (Hsc : forall hc, h_gen hc = N.succ (h_gen (cur s)) ->
              Forall (fun sc => (s_gen sc <= h_gen hc)%N) (scripts s)).
    { intros hc E. eapply Forall_impl; [|exact I4]. simpl. intros a A. rewrite E. lia. }
    destruct S as [[E1 [E2 [E3 [E4 _]]]] | [[E1 [E2 [E3 [E4 [E5 E6]]]]] | [E1 [E2 [E3 E4]]]]].
    + subst h1 n1 r1. simpl.
      split; [|split; [reflexivity|split; [reflexivity|split]]].
      * unfold Inv; simpl. split; [|split; [|split; [|split]]].
        -- split; simpl; intros; try discriminate; auto.
        -- apply (Hold (fresh_helper (N.succ (h_gen (cur s))))). reflexivity.
        -- auto.
        -- apply (Hsc (fresh_helper (N.succ (h_gen (cur s))))). reflexivity.
        -- intros _. unfold P, bound_used, BU; simpl. split; [constructor|split; [constructor|split]].
           ++ intros id. split; [tauto|]. intros [[]|[sc [Hin [_ [G _]]]]].
              rewrite Forall_forall in I4. specialize (I4 sc Hin). lia.
           ++ intros id [].
      * unfold weight; simpl. rewrite C. simpl. lia.
      * left. auto.
    + destruct E6.
    + subst h1 n1 r1. simpl.
      split; [|split; [reflexivity|split; [reflexivity|split]]].
      * unfold Inv; simpl. split; [|split; [|split; [|split]]].
        -- split; simpl; intros; try discriminate; auto.
        -- apply (Hold (fresh_helper (N.succ (h_gen (cur s))))). reflexivity.
        -- auto.
        -- apply (Hsc (fresh_helper (N.succ (h_gen (cur s))))). reflexivity.
        -- intros; discriminate.
      * unfold weight; simpl. rewrite C. simpl. lia.
      * right. auto.
  - inversion H; subst; clear H. split; auto. split; auto. split; auto. split.
    + simpl. lia.
    + left. auto.
Qed.

(* ======== part 3 ======== *)

Definition EvOK (s : st) (o : op) (e : ev) (s' : st) : Prop :=
  e_deaths e <= 1 /\
  weight s' = (weight s + N.of_nat (e_deaths e))%N /\
  (e_stale e = true -> e_out e = OExc EInternal /\ e_deaths e = 0 /\ e_hand e = false) /\
  (e_deaths e = 1 -> e_stale e = false /\ clean (e_wire e) = false /\ e_out e = OExc EInternal) /\
  (e_deaths e = 0 -> e_stale e = false ->
       (exists l, e_out e = OOk l) \/ e_out e = ONoScript \/ (e_out e = OExc EHelper /\ raised (e_wire e))) /\
  (e_stale e = false -> clean (e_wire e) = true -> e_out e = ONoScript \/ e_out e = canon_out o) /\
  (forall id cs, o = OpQuery id cs -> cs <> [] -> e_stale e = false -> e_deaths e = 0 ->
       e_out e <> ONoScript ->
       h_crashed (cur s') = false /\ h_queue (cur s') = [] /\ In id (h_states (cur s'))).

Lemma EvOK_skip : forall s o out s',
  weight s' = weight s ->
  (out = ONoScript \/ (out = OOk [] /\ canon_out o = OOk [])) ->
  (forall id cs, o = OpQuery id cs -> cs <> [] -> out = ONoScript) ->
  EvOK s o (mkEv out 0 false false []) s'.
Proof.
  intros s o out s' W Ho Hq. unfold EvOK; simpl.
  split; [lia|]. split; [rewrite W; lia|]. split; [discriminate|]. split; [discriminate|].
  split; [|split].
  - intros _ _. destruct Ho as [Ho|[Ho _]]; subst; [right; left; auto|left; eexists; reflexivity].
  - intros _ _. destruct Ho as [Ho|[Ho Hc]]; subst; [left; auto|right; auto].
  - intros id cs E Hn _ _ Hne. exfalso. apply Hne. eapply Hq; eauto.
Qed.

Lemma step_query : forall sched s id cs s' e,
  Inv s -> step true true sched s (OpQuery id cs) = (s', e) -> Inv s' /\ EvOK s (OpQuery id cs) e s'.
Proof.
  intros sched s id cs s' e HI H. cbn [step] in H.
  destruct (find_script id (scripts s)) as [sc|] eqn:F.
  2:{ inversion H; subst. split; auto. apply EvOK_skip; auto. }
  destruct (get_h s (s_gen sc)) as [h|] eqn:G.
  2:{ inversion H; subst. split; auto. apply EvOK_skip; auto. }
  destruct cs as [|c cs].
  { inversion H; subst. split; auto. apply EvOK_skip; auto. intros ? ? E Hn. inversion E; subst. congruence. }
  apply find_script_some in F. destruct F as [Hsc Eid].
  destruct HI as [I1 [I2 [I3 [I4 I5]]]].
  unfold get_h in G. destruct (N.eqb (s_gen sc) (h_gen (cur s))) eqn:EG.
  - (* the Script is bound to the environment's current helper *)
    apply N.eqb_eq in EG. inversion G; subst h; clear G.
    destruct (h_crashed (cur s)) eqn:C.
    + (* stale *)
      destruct (run_calls_crashed sched id cs c (cur s) C) as [q R]. rewrite R in H.
      unfold set_h in H. simpl in H. rewrite N.eqb_refl in H. simpl in H. inversion H; subst s' e; clear H.
      split.
      * unfold Inv; simpl. split; [apply helper_ok_set_queue; auto|]. split; [auto|].
        split; [rewrite map_id_mark_used; auto|]. split; [apply (Forall_gen_mark_used (fun g => (g <= h_gen (cur s))%N)); auto|].
        intros; congruence.
      * unfold EvOK; simpl. split; [lia|]. split; [unfold weight; simpl; lia|].
        split; [auto|]. split; [discriminate|]. split; [discriminate|]. split; [discriminate|].
        intros; congruence.
    + destruct (run_calls_fin sched id cs c (bound_used s) (cur s) C I1 (I5 eq_refl)) as [h1 [o1 [n1 [w1 [R Q]]]]].
      rewrite R in H. unfold set_h in H.
      assert (EGh : h_gen h1 = h_gen (cur s)) by (inversion Q; auto).
      rewrite EGh, N.eqb_refl in H. simpl in H. inversion H; subst s' e; clear H.
      inversion Q; subst.
      * (* answered (or the helper function raised) *)
        assert (HP : P h1 (BU (h_gen h1) (mark_used (s_id sc) (scripts s)))).
        { eapply P_ext; [|exact H3]. intros x. unfold plus_id, bound_used.
          rewrite (BU_mark_used (h_gen h1) (s_id sc) (scripts s) sc x I3 Hsc eq_refl).
          rewrite EGh. split; intros [A|A]; auto. destruct A; auto. }
        split.
        -- unfold Inv; simpl. split; [auto|]. split; [rewrite EGh; auto|].
           split; [rewrite map_id_mark_used; auto|].
           split; [rewrite EGh; apply (Forall_gen_mark_used (fun g => (g <= h_gen (cur s))%N)); auto|].
           intros _. exact HP.
        -- unfold EvOK; simpl. split; [lia|]. split; [unfold weight; simpl; rewrite EGh, C, H; lia|].
           split; [discriminate|]. split; [discriminate|].
           split; [intros _ _; destruct H5 as [A|A]; auto|].
           split; [intros _ Cw; right; auto|].
           intros id' cs' E _ _ _ _. inversion E; subst id'. split; [auto|]. split; [auto|].
           destruct H3 as [_ [_ [Hs _]]]. apply Hs. right. right. reflexivity.
      * (* the helper died *)
        split.
        -- unfold Inv; simpl. split; [auto|]. split; [rewrite EGh; auto|].
           split; [rewrite map_id_mark_used; auto|].
           split; [rewrite EGh; apply (Forall_gen_mark_used (fun g => (g <= h_gen (cur s))%N)); auto|].
           intros; congruence.
        -- unfold EvOK; simpl. split; [lia|]. split; [unfold weight; simpl; rewrite EGh, C, H; simpl; lia|].
           split; [discriminate|].
           split; [intros _; split; [reflexivity|]; split; [assumption|reflexivity]|].
           split; [discriminate|]. split; [intros _ Cw; congruence|].
           intros; lia.
  - (* bound to a replaced helper: that one has crashed *)
    apply N.eqb_neq in EG.
    apply find_some in G. destruct G as [Hin Eg]. apply N.eqb_eq in Eg.
    assert (Hh : helper_ok h /\ h_crashed h = true /\ (h_gen h < h_gen (cur s))%N).
    { rewrite Forall_forall in I2. apply I2; auto. }
    destruct Hh as [Hh1 [Hh2 Hh3]].
    destruct (run_calls_crashed sched id cs c h Hh2) as [q R]. rewrite R in H.
    unfold set_h in H. simpl in H.
    assert (NE : N.eqb (h_gen h) (h_gen (cur s)) = false) by (apply N.eqb_neq; lia).
    rewrite NE in H. simpl in H. inversion H; subst s' e; clear H.
    split.
    + unfold Inv; simpl. split; [auto|]. split.
      * apply Forall_forall. intros x Hx. apply in_map_iff in Hx. destruct Hx as [y [E Hy]].
        rewrite Forall_forall in I2. specialize (I2 y Hy).
        destruct (N.eqb (h_gen h) (h_gen y)) eqn:T; subst x; auto.
      * split; [rewrite map_id_mark_used; auto|].
        split; [apply (Forall_gen_mark_used (fun g => (g <= h_gen (cur s))%N)); auto|].
        intros Cc. eapply P_ext; [|exact (I5 Cc)]. intros x. unfold bound_used.
        rewrite (BU_mark_used (h_gen (cur s)) id (scripts s) sc x I3 Hsc Eid).
        split; [auto|]. intros [A|[_ A]]; auto. congruence.
    + rewrite Hh2. unfold EvOK; simpl. split; [lia|]. split; [unfold weight; simpl; lia|].
      split; [auto|]. split; [discriminate|]. split; [discriminate|]. split; [discriminate|].
      intros; congruence.
Qed.

(* ======== part 4 ======== *)

Lemma EvOK_getsub_fail : forall s o s1 w,
  weight s1 = (weight s + N.of_nat 1)%N -> clean w = false ->
  (forall id cs, o <> OpQuery id cs) ->
  EvOK s o (mkEv (OExc EInternal) 1 false true w) s1.
Proof.
  intros s o s1 w W Cw Hq. unfold EvOK; simpl.
  split; [lia|]. split; [exact W|]. split; [discriminate|].
  split; [intros _; split; [reflexivity|]; split; [assumption|reflexivity]|].
  split; [discriminate|]. split; [intros _ C; congruence|].
  intros id cs E. exfalso. eapply Hq; eauto.
Qed.

Lemma step_new : forall sched s id s' e,
  Inv s -> step true true sched s (OpNew id) = (s', e) -> Inv s' /\ EvOK s (OpNew id) e s'.
Proof.
  intros sched s id s' e HI H. cbn [step] in H.
  destruct (find_script id (scripts s)) as [sc|] eqn:F.
  { inversion H; subst. split; auto. apply EvOK_skip; [reflexivity | auto | intros; discriminate]. }
  destruct (get_subprocess true true sched s) as [[[s1 r] n] w] eqn:G.
  apply get_subprocess_spec in G; auto.
  destruct G as [HI1 [Esc [Esp [W [[A1 [A2 [A3 A4]]] | [A1 [A2 A3]]]]]]]; subst r n.
  - inversion H; subst s' e; clear H. split.
    + destruct HI1 as [I1 [I2 [I3 [I4 I5]]]]. unfold Inv; simpl.
      split; [auto|]. split; [auto|]. split.
      * constructor; auto. rewrite Esc. apply find_script_none; auto.
      * split; [constructor; auto; simpl; lia|].
        intros Cc. eapply P_ext; [|exact (I5 Cc)]. intros x. unfold bound_used. simpl.
        rewrite BU_cons_unused. tauto.
    + unfold EvOK; simpl. split; [lia|]. split; [unfold weight in *; simpl in *; lia|].
      split; [discriminate|]. split; [discriminate|].
      split; [intros _ _; left; eexists; reflexivity|]. split; [intros _ _; right; reflexivity|].
      intros; discriminate.
  - inversion H; subst s' e; clear H. split; auto.
    apply EvOK_getsub_fail; auto. intros; discriminate.
Qed.

Lemma set_states_same : forall h, set_states (bump h) (h_states h) = bump h.
Proof. destruct h; reflexivity. Qed.

Lemma step_syspath : forall sched s s' e,
  Inv s -> step true true sched s OpSysPath = (s', e) -> Inv s' /\ EvOK s OpSysPath e s'.
Proof.
  intros sched s s' e HI H. cbn [step] in H.
  destruct (syspath s).
  { inversion H; subst. split; auto. apply EvOK_skip; [reflexivity | auto | intros; discriminate]. }
  destruct (get_subprocess true true sched s) as [[[s1 r] n] w] eqn:G.
  apply get_subprocess_spec in G; auto.
  destruct G as [HI1 [Esc [Esp [W [[A1 [A2 [A3 A4]]] | [A1 [A2 A3]]]]]]]; subst r n.
  2:{ inversion H; subst s' e; clear H. split; auto. apply EvOK_getsub_fail; auto. intros; discriminate. }
  destruct (send true sched (cur s1) KNoId) as [[[h1 r1] n1] w1] eqn:S.
  destruct HI1 as [I1 [I2 [I3 [I4 I5]]]].
  apply send_live in S; auto. simpl in S. rewrite set_states_same in S.
  assert (HInv : forall b, Inv (mkSt (bump (cur s1)) (old s1) (scripts s1) b)).
  { intros b. unfold Inv; simpl. split; [|split; [auto|split; [auto|split; [auto|]]]].
    - destruct I1 as [J1 J2]. split; simpl; auto.
    - intros Cc. destruct (I5 Cc) as [P1 [P2 [P3 P4]]]. unfold P; simpl. auto. }
  assert (W0 : weight s1 = weight s) by lia.
  destruct S as [[E1 [E2 [E3 [E4 _]]]] | [[E1 [E2 [E3 [E4 [E5 E6]]]]] | [E1 [E2 [E3 E4]]]]]; subst h1 n1 r1.
  - simpl in H. inversion H; subst s' e; clear H. split; [apply HInv|].
    unfold EvOK; simpl. split; [lia|]. split; [unfold weight in *; simpl in *; lia|].
    split; [discriminate|]. split; [discriminate|].
    split; [intros _ _; left; eexists; reflexivity|]. split; [intros _ _; right; reflexivity|].
    intros; discriminate.
  - simpl in H. inversion H; subst s' e; clear H. split; [apply HInv|].
    unfold EvOK; simpl. split; [lia|]. split; [unfold weight in *; simpl in *; lia|].
    split; [discriminate|]. split; [discriminate|].
    split.
    + intros _ _. right; right. split; auto. apply raised_app_r. destruct E5 as [x [E5 E7]].
      subst w1. exists x. split; [left; auto|auto].
    + split; [intros _ Cw; rewrite clean_app, E3, andb_false_r in Cw; discriminate|].
      intros; discriminate.
  - simpl in H. inversion H; subst s' e; clear H. split.
    + unfold Inv; simpl. split; [apply helper_ok_kill|]. split; [auto|]. split; [auto|]. split; [auto|].
      intros; discriminate.
    + unfold EvOK; simpl. split; [lia|].
      split; [unfold weight in *; simpl in *; rewrite A4 in *; simpl in *; lia|].
      split; [discriminate|].
      split; [intros _; split; [reflexivity|]; split; [rewrite clean_app, E3, andb_false_r; reflexivity|reflexivity]|].
      split; [discriminate|].
      split; [intros _ Cw; rewrite clean_app, E3, andb_false_r in Cw; discriminate|].
      intros; discriminate.
Qed.

Lemma step_drop : forall sched s id s' e,
  Inv s -> step true true sched s (OpDrop id) = (s', e) -> Inv s' /\ EvOK s (OpDrop id) e s'.
Proof.
  intros sched s id s' e HI H. cbn [step] in H.
  destruct (find_script id (scripts s)) as [sc|] eqn:F.
  2:{ inversion H; subst. split; auto. apply EvOK_skip; [reflexivity | auto | intros; discriminate]. }
  apply find_script_some in F. destruct F as [Hsc Eid].
  destruct HI as [I1 [I2 [I3 [I4 I5]]]].
  (* removing the Script alone *)
  assert (Hrem : (s_gen sc = h_gen (cur s) -> s_used sc = true -> h_crashed (cur s) = true) ->
                 Inv (mkSt (cur s) (old s) (remove_script id (scripts s)) (syspath s))).
  { intros Hx. unfold Inv; simpl. split; [auto|]. split; [auto|].
    split; [apply NoDup_remove_script; auto|].
    split; [apply Forall_forall; intros x Hin; apply In_remove_script in Hin; rewrite Forall_forall in I4; apply I4; tauto|].
    intros Cc. eapply P_ext; [|exact (I5 Cc)]. intros x. unfold bound_used; simpl. rewrite BU_remove.
    split; [|tauto]. intros A. split; auto. intros ->. destruct A as [y [Hy [E1 [E2 E3]]]].
    assert (y = sc) by (eapply NoDup_ids_inj; eauto; congruence). subst y.
    rewrite Hx in Cc; auto. discriminate. }
  assert (Hev : forall s1, weight s1 = weight s -> EvOK s (OpDrop id) (mkEv (OOk []) 0 false false []) s1).
  { intros. apply EvOK_skip; [assumption | auto | intros; discriminate]. }
  destruct (get_h s (s_gen sc)) as [h|] eqn:G.
  2:{ inversion H; subst s' e; clear H. split; [|apply Hev; reflexivity].
      apply Hrem. intros E. unfold get_h in G. rewrite E, N.eqb_refl in G. discriminate. }
  destruct (s_used sc && negb (h_crashed h)) eqn:T.
  2:{ inversion H; subst s' e; clear H. split; [|apply Hev; reflexivity].
      apply Hrem. intros E Us. unfold get_h in G. rewrite E, N.eqb_refl in G. inversion G; subst h.
      rewrite Us in T. simpl in T. apply negb_false_iff in T. auto. }
  apply andb_true_iff in T. destruct T as [Us Cr]. apply negb_true_iff in Cr.
  (* the helper is not crashed, so it is the current one *)
  unfold get_h in G. destruct (N.eqb (s_gen sc) (h_gen (cur s))) eqn:EG.
  2:{ apply find_some in G. destruct G as [Hin _]. rewrite Forall_forall in I2.
      destruct (I2 h Hin) as [_ [Cx _]]. congruence. }
  apply N.eqb_eq in EG. inversion G; subst h; clear G.
  unfold set_h in H. simpl in H. rewrite N.eqb_refl in H. inversion H; subst s' e; clear H.
  split; [|apply Hev; reflexivity].
  destruct (I5 Cr) as [P1 [P2 [P3 P4]]].
  assert (Hb : bound_used s id).
  { exists sc. auto. }
  unfold Inv; simpl. split; [apply helper_ok_set_queue; auto|]. split; [auto|].
  split; [apply NoDup_remove_script; auto|].
  split; [apply Forall_forall; intros x Hin; apply In_remove_script in Hin; rewrite Forall_forall in I4; apply I4; tauto|].
  intros _. unfold P, bound_used; simpl. split; [auto|]. split.
  - constructor; auto. intros Hq. apply (P4 id Hq Hb).
  - split.
    + intros x. rewrite BU_remove. rewrite P3. unfold bound_used.
      destruct (N.eq_dec x id) as [->|Ne]; [tauto|]. split.
      * intros [A|A]; auto.
      * intros [[A|A]|[A _]]; auto. congruence.
    + intros x [A|A] B; apply BU_remove in B; destruct B as [B1 B2]; [congruence|].
      apply (P4 x A B1).
Qed.

Lemma step_inv : forall sched s o s' e,
  Inv s -> step true true sched s o = (s', e) -> Inv s' /\ EvOK s o e s'.
Proof.
  intros sched s o s' e HI H. destruct o.
  - eapply step_new; eauto.
  - eapply step_query; eauto.
  - eapply step_drop; eauto.
  - eapply step_syspath; eauto.
Qed.

(* ======== part 5 ======== *)

(* ---- whole runs *)
Definition StepOK (sched : N -> N -> fault) (o : op) (e : ev) : Prop :=
  exists a b, Inv a /\ step true true sched a o = (b, e) /\ Inv b /\ EvOK a o e b.

Lemma run_inv : forall sched ops s s' es,
  Inv s -> run true true sched s ops = (s', es) ->
  Inv s' /\ Forall2 (StepOK sched) ops es /\
  weight s' = (weight s + N.of_nat (total_deaths es))%N.
Proof.
  intros sched. induction ops as [|o ops IH]; intros s s' es HI H; simpl in H.
  - inversion H; subst. split; auto. split; [constructor|]. simpl. lia.
  - destruct (step true true sched s o) as [s1 e] eqn:S.
    destruct (run true true sched s1 ops) as [s2 es2] eqn:R. inversion H; subst s' es; clear H.
    destruct (step_inv _ _ _ _ _ HI S) as [HI1 HE].
    destruct (IH _ _ _ HI1 R) as [HI2 [F2 W2]].
    split; auto. split.
    + constructor; auto. exists s, s1. auto.
    + simpl. destruct HE as [_ [W1 _]]. rewrite W2, W1. lia.
Qed.

Lemma Forall2_nth : forall {A B} (R : A -> B -> Prop) l1 l2 i b,
  Forall2 R l1 l2 -> nth_error l2 i = Some b -> exists a, nth_error l1 i = Some a /\ R a b.
Proof.
  intros A B R l1 l2 i b H. revert i. induction H; intros i Hn.
  - destruct i; discriminate.
  - destruct i; simpl in *.
    + inversion Hn; subst. eauto.
    + apply IHForall2; auto.
Qed.

Lemma Forall2_Forall_r : forall {A B} (R : A -> B -> Prop) (Q : B -> Prop) l1 l2,
  Forall2 R l1 l2 -> (forall a b, R a b -> Q b) -> Forall Q l2.
Proof. intros A B R Q l1 l2 H HQ. induction H; constructor; eauto. Qed.

(* ---- raised, as a boolean *)
Lemma raised_b : forall w, raised w -> raisedb w = true.
Proof.
  intros w [x [Hin Hx]]. unfold raisedb. apply existsb_exists. exists x. split; auto.
  destruct Hx as [Hx|[id Hx]]; rewrite Hx; simpl; auto. apply orb_true_r.
Qed.

(* ---- T1 *)
Definition ev_contained (e : ev) : Prop :=
  e_deaths e <= 1 /\
  (e_deaths e = 1 -> e_stale e = false /\ e_out e = OExc EInternal) /\
  (forall x, e_out e = OExc x -> e_stale e = false ->
     (e_deaths e = 1 /\ x = EInternal) \/
     (e_deaths e = 0 /\ x = EHelper /\ raisedb (e_wire e) = true)) /\
  (e_stale e = true -> e_out e = OExc EInternal /\ e_deaths e = 0).

Lemma EvOK_contained : forall a o e b, EvOK a o e b -> ev_contained e.
Proof.
  intros a o e b [K1 [K2 [K3 [K4 [K5 [K6 K7]]]]]]. unfold ev_contained.
  split; [auto|]. split.
  - intros D. destruct (K4 D) as [A1 [A2 A3]]. split; auto.
  - split.
    + intros x Ex St. destruct (e_deaths e) as [|[|n]] eqn:D; [|left|lia].
      * right. destruct (K5 eq_refl St) as [[l El]|[El|[El Er]]]; try congruence.
        split; auto. split; [congruence|apply raised_b; auto].
      * split; auto. destruct (K4 eq_refl) as [_ [_ A4]]. rewrite A4 in Ex. inversion Ex; auto.
    + intros St. destruct (K3 St) as [A1 [A2 A3]]. auto.
Qed.

Lemma fresh_failure_deaths : forall e, ev_contained e ->
  (if fresh_failure e then 1 else 0) = e_deaths e.
Proof.
  intros e [C1 [C2 [C3 C4]]]. unfold fresh_failure.
  destruct (e_out e) as [l|x|] eqn:O.
  - destruct (e_deaths e) as [|[|n]] eqn:D; [auto| |lia].
    destruct (C2 eq_refl) as [_ A]; discriminate.
  - destruct (e_stale e) eqn:St; simpl.
    + destruct (C4 eq_refl) as [_ A]. auto.
    + destruct (C3 x eq_refl eq_refl) as [[A B]|[A [B _]]].
      * rewrite A. subst. reflexivity.
      * subst. auto.
  - destruct (e_deaths e) as [|[|n]] eqn:D; [auto| |lia].
    destruct (C2 eq_refl) as [_ A]; discriminate.
Qed.

Lemma count_failures : forall es, Forall ev_contained es ->
  length (filter fresh_failure es) = total_deaths es.
Proof.
  induction es; intros H; simpl; auto. inversion H; subst.
  rewrite <- (fresh_failure_deaths a H2). destruct (fresh_failure a); simpl; rewrite IHes; auto.
Qed.

Theorem one_internal_error_per_death_L : forall sched ops s es,
  run true true sched init ops = (s, es) ->
  Forall ev_contained es /\ length (filter fresh_failure es) = total_deaths es.
Proof.
  intros sched ops s es H. destruct (run_inv _ _ _ _ _ Inv_init H) as [_ [F _]].
  assert (Fc : Forall ev_contained es).
  { eapply Forall2_Forall_r; [exact F|]. intros o e [a [b [_ [_ [_ E]]]]]. eapply EvOK_contained; eauto. }
  split; auto. apply count_failures; auto.
Qed.

(* ---- T5: helpers started = 1 + deaths *)
Theorem spawn_accounting_L : forall sched ops s es,
  run true true sched init ops = (s, es) ->
  (h_gen (cur s) + (if h_crashed (cur s) then 1 else 0))%N = (1 + N.of_nat (total_deaths es))%N.
Proof.
  intros sched ops s es H. destruct (run_inv _ _ _ _ _ Inv_init H) as [_ [_ W]].
  unfold weight, b2n, init in W. cbn [cur h_gen h_crashed] in W.
  destruct (h_crashed (cur s)); lia.
Qed.

(* ---- T4 *)
Lemma helper_ok_facts : forall h, helper_ok h ->
  (h_alive h = false -> h_reaped h = true) /\
  (h_crashed h = true -> h_alive h = false /\ h_reaped h = true /\ h_states h = []) /\
  (h_crashed h = false -> h_alive h = true /\ h_reaped h = false).
Proof.
  intros h [A B]. split; [|split; auto].
  intros Al. destruct (h_crashed h) eqn:C.
  - destruct (A eq_refl) as [_ [R _]]. auto.
  - destruct (B eq_refl) as [R _]. congruence.
Qed.

Theorem dead_helpers_reaped_L : forall sched ops s es,
  run true true sched init ops = (s, es) ->
  Forall (fun h => (h_alive h = false -> h_reaped h = true) /\
                   (h_crashed h = true -> h_alive h = false /\ h_reaped h = true /\ h_states h = []) /\
                   (h_crashed h = false -> h_alive h = true /\ h_reaped h = false)) (helpers s) /\
  Forall (fun h => h_crashed h = true) (old s) /\
  zombies s = 0 /\
  open_pipes s = (if h_crashed (cur s) then 0 else 3).
Proof.
  intros sched ops s es H. destruct (run_inv _ _ _ _ _ Inv_init H) as [[I1 [I2 _]] _].
  assert (Fh : Forall helper_ok (helpers s)).
  { unfold helpers. constructor; auto. eapply Forall_impl; [|exact I2]. simpl. tauto. }
  assert (Fo : Forall (fun h => h_crashed h = true) (old s)).
  { eapply Forall_impl; [|exact I2]. simpl. tauto. }
  split; [eapply Forall_impl; [|exact Fh]; apply helper_ok_facts|].
  split; [auto|].
  assert (Z : forall l, Forall helper_ok l -> filter is_zombie l = []).
  { induction l; intros F; simpl; auto. inversion F; subst. rewrite IHl; auto.
    unfold is_zombie. destruct (helper_ok_facts a H2) as [A _].
    destruct (h_alive a); simpl; auto. rewrite A; auto. }
  assert (O : forall l, Forall (fun h => helper_ok h /\ h_crashed h = true) l ->
                        filter (fun h => negb (h_reaped h)) l = []).
  { induction l; intros F; simpl; auto. inversion F; subst. rewrite IHl; auto.
    destruct H2 as [[A _] C]. destruct (A C) as [_ [R _]]. rewrite R. reflexivity. }
  split.
  - unfold zombies. rewrite Z; auto.
  - unfold open_pipes, helpers. simpl. rewrite O.
    + destruct (helper_ok_facts _ I1) as [_ [A B]]. destruct (h_crashed (cur s)).
      * destruct (A eq_refl) as [_ [R _]]. rewrite R. reflexivity.
      * destruct (B eq_refl) as [_ R]. rewrite R. reflexivity.
    + eapply Forall_impl; [|exact I2]. simpl. tauto.
Qed.

(* ---- T3 *)
Lemma used_ids_BU : forall g l x, In x (used_ids g l) <-> BU g l x.
Proof.
  intros. unfold used_ids, BU. rewrite in_map_iff. split.
  - intros [sc [E Hin]]. apply filter_In in Hin. destruct Hin as [Hin T].
    apply andb_true_iff in T. destruct T as [T1 T2]. apply N.eqb_eq in T1. exists sc. auto.
  - intros [sc [Hin [E1 [E2 E3]]]]. exists sc. split; auto. apply filter_In. split; auto.
    rewrite E2, N.eqb_refl, E3. reflexivity.
Qed.

Theorem no_helper_state_leak_L : forall sched ops s es,
  run true true sched init ops = (s, es) ->
  (h_crashed (cur s) = false ->
     NoDup (h_states (cur s)) /\
     forall x, In x (h_states (cur s)) <->
               In x (h_queue (cur s)) \/ In x (used_ids (h_gen (cur s)) (scripts s))) /\
  (forall id cs s' e, step true true sched s (OpQuery id cs) = (s', e) -> cs <> [] ->
     e_stale e = false -> e_deaths e = 0 -> e_out e <> ONoScript ->
     h_crashed (cur s') = false /\ h_queue (cur s') = [] /\ In id (h_states (cur s')) /\
     forall x, In x (h_states (cur s')) <-> In x (used_ids (h_gen (cur s')) (scripts s'))).
Proof.
  intros sched ops s es H. destruct (run_inv _ _ _ _ _ Inv_init H) as [HI _].
  split.
  - intros C. destruct HI as [_ [_ [_ [_ I5]]]]. destruct (I5 C) as [A [B [Cc D]]].
    split; auto. intros x. rewrite used_ids_BU. apply Cc.
  - intros id cs s' e S Hn St D O.
    destruct (step_inv _ _ _ _ _ HI S) as [HI' [_ [_ [_ [_ [_ [_ K7]]]]]]].
    destruct (K7 id cs eq_refl Hn St D O) as [A1 [A2 A3]].
    split; auto. split; auto. split; auto.
    destruct HI' as [_ [_ [_ [_ I5]]]]. destruct (I5 A1) as [_ [_ [Cc _]]].
    intros x. rewrite used_ids_BU, Cc, A2. simpl. unfold bound_used. tauto.
Qed.

(* ======== part 6 ======== *)

(* ---- the fault-free run: nothing crashes, nothing is stale, the wire is clean *)
Lemma send_nf : forall h k h' r n w,
  helper_ok h -> h_crashed h = false -> send true no_faults h k = (h', r, n, w) ->
  clean w = true /\ h_crashed h' = false /\ helper_ok h' /\ h_gen h' = h_gen h.
Proof.
  intros h k h' r n w Hok C H. unfold send, no_faults in H. rewrite C in H.
  destruct Hok as [Ha Hb]. destruct (Hb C) as [Al Rp]. rewrite Al in H. simpl in H.
  inversion H; subst; clear H. simpl. split; auto. split; auto. split; auto.
  split; simpl; intros; [congruence|auto].
Qed.

Lemma flush_nf : forall q h h' r n w,
  helper_ok h -> h_crashed h = false -> flush true no_faults h q = (h', r, n, w) ->
  clean w = true /\ h_crashed h' = false /\ helper_ok h' /\ h_gen h' = h_gen h.
Proof.
  induction q as [|d q IH]; intros h h' r n w Hok C H; simpl in H.
  - inversion H; subst. simpl. split; [reflexivity|]. split; [auto|]. split; [apply helper_ok_set_queue; auto|reflexivity].
  - destruct (send true no_faults (set_queue h q) (KDel d)) as [[[h1 r1] n1] w1] eqn:S.
    apply send_nf in S; [|apply helper_ok_set_queue; auto|simpl; auto].
    destruct S as [S1 [S2 [S3 S4]]]. destruct r1.
    + destruct (flush true no_faults h1 q) as [[[h2 r2] n2] w2] eqn:F.
      apply IH in F; auto. destruct F as [F1 [F2 [F3 F4]]]. inversion H; subst.
      rewrite clean_app, S1, F1. simpl in *. split; auto. split; auto. split; auto. congruence.
    + inversion H; subst. simpl in *. auto.
Qed.

Lemma run_call_nf : forall h id c h' r n w,
  helper_ok h -> h_crashed h = false -> run_call true no_faults h id c = (h', r, n, w) ->
  clean w = true /\ h_crashed h' = false /\ helper_ok h' /\ h_gen h' = h_gen h.
Proof.
  intros h id c h' r n w Hok C H. unfold run_call in H.
  destruct (flush true no_faults h (h_queue h)) as [[[h1 r1] n1] w1] eqn:F.
  apply flush_nf in F; auto. destruct F as [F1 [F2 [F3 F4]]]. destruct r1.
  - inversion H; subst. auto.
  - destruct (send true no_faults h1 (KCall id c)) as [[[h2 r2] n2] w2] eqn:S.
    apply send_nf in S; auto. destruct S as [S1 [S2 [S3 S4]]]. inversion H; subst.
    rewrite clean_app, F1, S1. split; auto. split; auto. split; auto. congruence.
Qed.

Lemma run_calls_nf : forall cs h id h' o n w,
  helper_ok h -> h_crashed h = false -> run_calls true no_faults h id cs = (h', o, n, w) ->
  clean w = true /\ h_crashed h' = false /\ helper_ok h' /\ h_gen h' = h_gen h.
Proof.
  induction cs as [|c cs IH]; intros h id h' o n w Hok C H.
  - simpl in H. inversion H; subst. auto.
  - rewrite run_calls_cons in H.
    destruct (run_call true no_faults h id c) as [[[h1 r1] n1] w1] eqn:R.
    apply run_call_nf in R; auto. destruct R as [R1 [R2 [R3 R4]]]. destruct r1.
    + destruct (run_calls true no_faults h1 id cs) as [[[h2 o2] n2] w2] eqn:R'.
      apply IH in R'; auto. destruct R' as [Q1 [Q2 [Q3 Q4]]].
      assert (clean (w1 ++ w2) = true) by (rewrite clean_app, R1, Q1; auto).
      destruct o2; inversion H; subst; (split; [auto|split; [auto|split; [auto|congruence]]]).
    + inversion H; subst. auto.
Qed.

Definition Quiet (s : st) : Prop := helper_ok (cur s) /\ h_crashed (cur s) = false /\ old s = [].

Lemma step_nf : forall s o s' e,
  Quiet s -> step true true no_faults s o = (s', e) ->
  Quiet s' /\ e_stale e = false /\ clean (e_wire e) = true.
Proof.
  intros s o s' e [Hok [C Ho]] H. destruct o; cbn [step] in H.
  - destruct (find_script id (scripts s)); [inversion H; subst; unfold Quiet; auto|].
    unfold get_subprocess in H. rewrite C in H. simpl in H. inversion H; subst. unfold Quiet; simpl; auto.
  - destruct (find_script id (scripts s)) as [sc|]; [|inversion H; subst; unfold Quiet; auto].
    unfold get_h in H. rewrite Ho in H. simpl in H.
    destruct (N.eqb (s_gen sc) (h_gen (cur s))); [|inversion H; subst; unfold Quiet; auto].
    destruct cs as [|c cs]; [inversion H; subst; unfold Quiet; auto|].
    destruct (run_calls true no_faults (cur s) id (c :: cs)) as [[[h1 o1] n1] w1] eqn:R.
    apply run_calls_nf in R; auto. destruct R as [R1 [R2 [R3 R4]]].
    unfold set_h in H. rewrite R4, N.eqb_refl in H. simpl in H. inversion H; subst. simpl.
    unfold Quiet; simpl. auto.
  - destruct (find_script id (scripts s)) as [sc|]; [|inversion H; subst; unfold Quiet; auto].
    unfold get_h in H. rewrite Ho in H. simpl in H.
    destruct (N.eqb (s_gen sc) (h_gen (cur s))); [|inversion H; subst; unfold Quiet; auto].
    rewrite C in H. simpl in H. rewrite andb_true_r in H.
    destruct (s_used sc); [|inversion H; subst; unfold Quiet; auto].
    unfold set_h in H. simpl in H. rewrite N.eqb_refl in H. inversion H; subst. unfold Quiet; simpl.
    split; [split; [apply helper_ok_set_queue; auto|split; auto]|split; auto].
  - destruct (syspath s); [inversion H; subst; unfold Quiet; auto|].
    unfold get_subprocess in H. rewrite C in H. simpl in H.
    destruct (send true no_faults (cur s) KNoId) as [[[h1 r1] n1] w1] eqn:S.
    apply send_nf in S; auto. destruct S as [S1 [S2 [S3 S4]]].
    destruct r1; inversion H; subst; unfold Quiet; simpl; auto.
Qed.

Lemma run_nf : forall ops s s' es,
  Quiet s -> run true true no_faults s ops = (s', es) ->
  Forall (fun e => e_stale e = false /\ clean (e_wire e) = true) es.
Proof.
  induction ops as [|o ops IH]; intros s s' es Q H; simpl in H.
  - inversion H; subst. constructor.
  - destruct (step true true no_faults s o) as [s1 e] eqn:S.
    destruct (run true true no_faults s1 ops) as [s2 es2] eqn:R. inversion H; subst.
    apply step_nf in S; auto. destruct S as [Q1 [A B]]. constructor; eauto.
Qed.

Lemma Quiet_init : Quiet init.
Proof. unfold Quiet, init; simpl. split; auto. split; simpl; intros; try discriminate; auto. Qed.

(* ---- T2 *)
Theorem recovery_same_answers_L : forall sched ops s es s0 es0,
  run true true sched init ops = (s, es) ->
  run true true no_faults init ops = (s0, es0) ->
  Forall (fun e => e_out e <> ONoScript) es0 ->
  forall i e e0, nth_error es i = Some e -> nth_error es0 i = Some e0 ->
    e_stale e = false -> clean (e_wire e) = true -> e_out e <> ONoScript ->
    e_out e = e_out e0.
Proof.
  intros sched ops s es s0 es0 H H0 Hwf i e e0 Hn Hn0 St Cl Ne.
  destruct (run_inv _ _ _ _ _ Inv_init H) as [_ [F _]].
  destruct (run_inv _ _ _ _ _ Inv_init H0) as [_ [F0 _]].
  destruct (Forall2_nth _ _ _ _ _ F Hn) as [o [Ho [a [b [_ [_ [_ E]]]]]]].
  destruct (Forall2_nth _ _ _ _ _ F0 Hn0) as [o0 [Ho0 [a0 [b0 [_ [_ [_ E0]]]]]]].
  assert (o0 = o) by congruence. subst o0.
  pose proof (run_nf _ _ _ _ Quiet_init H0) as Fq. rewrite Forall_forall in Fq, Hwf.
  assert (In0 : In e0 es0) by (eapply nth_error_In; eauto).
  destruct (Fq e0 In0) as [St0 Cl0]. specialize (Hwf e0 In0).
  destruct E as [_ [_ [_ [_ [_ [K6 _]]]]]]. destruct E0 as [_ [_ [_ [_ [_ [K60 _]]]]]].
  destruct (K6 St Cl) as [A|A]; [congruence|]. destruct (K60 St0 Cl0) as [A0|A0]; [congruence|]. congruence.
Qed.

(* a Script created after a death is bound to a live helper of a later generation *)
Theorem recovery_new_generation_L : forall sched ops s es id s' e,
  run true true sched init ops = (s, es) ->
  step true true sched s (OpNew id) = (s', e) -> e_out e = OOk [] ->
  h_crashed (cur s') = false /\ h_alive (cur s') = true /\
  exists sc, find_script id (scripts s') = Some sc /\ s_gen sc = h_gen (cur s') /\ s_used sc = false /\
  (h_crashed (cur s) = true -> h_gen (cur s') = N.succ (h_gen (cur s)) /\ h_states (cur s') = []).
Proof.
  intros sched ops s es id s' e H S O.
  destruct (run_inv _ _ _ _ _ Inv_init H) as [HI _].
  cbn [step] in S. destruct (find_script id (scripts s)) eqn:F; [inversion S; subst; discriminate|].
  destruct (get_subprocess true true sched s) as [[[s1 r] n] w] eqn:G.
  pose proof G as G'. apply get_subprocess_spec in G; auto.
  destruct G as [HI1 [Esc [Esp [W [[A1 [A2 [A3 A4]]] | [A1 [A2 A3]]]]]]]; subst r.
  2:{ inversion S; subst. discriminate. }
  inversion S; subst s' e; clear S. simpl.
  destruct HI1 as [I1 _]. destruct I1 as [_ I1b]. destruct (I1b A4) as [Al _].
  split; auto. split; auto. eexists. unfold find_script. simpl. rewrite N.eqb_refl.
  split; [reflexivity|]. simpl. split; auto. split; auto.
  intros C. unfold get_subprocess in G'. rewrite C in G'. simpl in G'.
  destruct (send true sched (fresh_helper (N.succ (h_gen (cur s)))) KInfo) as [[[h1 r1] n1] w1] eqn:Sd.
  inversion G'; subst s1. simpl in *.
  apply send_live in Sd; [|apply helper_ok_fresh|reflexivity]. simpl in Sd.
  destruct Sd as [[E1 _] | [[E1 _] | [E1 _]]]; subst h1; simpl in *; auto.
Qed.

(* ---- a crash never surfaces as anything but InternalError *)
Theorem only_internal_error_L : forall sched ops s es,
  run true true sched init ops = (s, es) ->
  Forall (fun e => forall x, e_out e = OExc x -> x = EInternal \/ (x = EHelper /\ raisedb (e_wire e) = true)) es.
Proof.
  intros sched ops s es H.
  destruct (run_inv _ _ _ _ _ Inv_init H) as [_ [F _]].
  eapply Forall2_Forall_r; [exact F|]. intros o e [a [b [_ [S [_ E]]]]] x Ex.
  pose proof (EvOK_contained _ _ _ _ E) as [C1 [C2 [C3 C4]]].
  destruct (e_stale e) eqn:St.
  - destruct (C4 eq_refl) as [A _]. left. congruence.
  - destruct (C3 x Ex eq_refl) as [[D B]|[D [B R]]]; [left; auto|right; auto].
Qed.

(* ---- the first handshake of an environment: any crash there is InvalidPythonEnvironment,
   the helper is reaped, and without a crash the environment starts in `init` *)
Theorem first_handshake_L : forall sched,
  (sched 1%N 0%N = FNone \/ sched 1%N 0%N = FRaises ->
     exists h w, start_env true sched = (inl init, h, w)) /\
  (sched 1%N 0%N <> FNone -> sched 1%N 0%N <> FRaises ->
     exists h w, start_env true sched = (inr EInvalidEnv, h, w) /\
                 h_crashed h = true /\ is_zombie h = false /\ h_reaped h = true).
Proof.
  intros sched. unfold start_env, send, fresh_helper. simpl. split.
  - intros [E|E]; rewrite E; simpl; do 2 eexists; reflexivity.
  - intros N1 N2. destruct (sched 1%N 0%N); try congruence; simpl; do 2 eexists; (split; [reflexivity|auto]).
Qed.

(* ======== part 7: witnesses ======== *)
Definition wit_ops1 : list op :=
  [OpNew 1%N; OpQuery 1%N [CEcho 5%N]; OpNew 2%N; OpNew 3%N; OpQuery 3%N [CEcho 6%N]].
Definition wit_sched1 := sched_of [(1%N, 1%N, FDiesAfter); (2%N, 0%N, FDiesAfter)].

Lemma handshake_death_prefix_refuted_L :
  exists sched ops, In (OExc EInvalidEnv) (map e_out (snd (run false true sched init ops))).
Proof. exists wit_sched1, wit_ops1. vm_compute. auto. Qed.

Definition wit_ops2 : list op :=
  [OpNew 1%N; OpQuery 1%N [CEcho 5%N]; OpDrop 1%N; OpNew 2%N; OpQuery 2%N [CEcho 6%N];
   OpNew 3%N; OpQuery 3%N [CEcho 7%N]].
Definition wit_sched2 := sched_of [(1%N, 1%N, FTrunc)].

Lemma truncated_reply_prefix_refuted_L :
  exists sched ops, let es := snd (run true false sched init ops) in
    total_deaths es = 1 /\ length (filter fresh_failure es) = 2 /\ In (OExc EUnpickling) (map e_out es).
Proof. exists wit_sched2, wit_ops2. vm_compute. auto. Qed.
