(* C15 proofs about Model/C15_Budget.v *)
From JV Require Import Model.C15_Budget.

(* ------------------------------------------------------------------ basics *)
Lemma len_nil {A} : @len A [] = 0.
Proof. reflexivity. Qed.

Lemma len_cons {A} (x : A) l : len (x :: l) = len l + 1.
Proof. unfold len. cbn [length]. lia. Qed.

Lemma len_app {A} (a b : list A) : len (a ++ b) = len a + len b.
Proof. unfold len. rewrite app_length. lia. Qed.

Lemma cnt_nil {A} (p : A -> bool) : cnt p [] = 0.
Proof. reflexivity. Qed.

Lemma cnt_cons {A} (p : A -> bool) x l :
  cnt p (x :: l) = (if p x then 1 else 0) + cnt p l.
Proof. unfold cnt. cbn [filter]. destruct (p x); rewrite ?len_cons; lia. Qed.

Lemma cnt_app {A} (p : A -> bool) a b : cnt p (a ++ b) = cnt p a + cnt p b.
Proof. unfold cnt. rewrite filter_app, len_app. reflexivity. Qed.

Lemma cnt_le_len {A} (p : A -> bool) l : cnt p l <= len l.
Proof. induction l; [cbn; lia|]. rewrite cnt_cons, len_cons. destruct (p a); lia. Qed.

Lemma memN_In k l : memN k l = true <-> In k l.
Proof.
  induction l; cbn; [split; [discriminate|tauto]|].
  rewrite orb_true_iff, N.eqb_eq, IHl. split; intros [H|H]; auto.
Qed.

Lemma memN_false k l : memN k l = false <-> ~ In k l.
Proof. rewrite <- memN_In. destruct (memN k l); split; congruence. Qed.

Lemma lookup_update_same k v m : lookup k (update k v m) = Some v.
Proof.
  induction m as [|[k' v'] m IH]; cbn.
  - rewrite N.eqb_refl. reflexivity.
  - destruct (k =? k') eqn:E; cbn; rewrite E; auto.
Qed.

Lemma lookup_update_other k k' v m : k <> k' -> lookup k (update k' v m) = lookup k m.
Proof.
  intros Hne. induction m as [|[k2 v2] m IH]; cbn.
  - apply N.eqb_neq in Hne. rewrite Hne. reflexivity.
  - destruct (k' =? k2) eqn:E; cbn.
    + apply N.eqb_eq in E. subst. apply N.eqb_neq in Hne. rewrite Hne. reflexivity.
    + destruct (k =? k2); auto.
Qed.

Definition cval (f : N) (c : list (N * N)) : N :=
  match lookup f c with Some v => v | None => 0 end.

Lemma cval_update_same k v m : cval k (update k v m) = v.
Proof. unfold cval. rewrite lookup_update_same. reflexivity. Qed.

Lemma cval_update_other k k' v m : k <> k' -> cval k (update k' v m) = cval k m.
Proof. intros. unfold cval. rewrite lookup_update_other; auto. Qed.

(* ------------------------------------------------------------------ 1. exec budget *)
Definition push_ordinary (L : limits) (d d' : edet) (x : exec) (r : bool) : Prop :=
  x_builtins x = false /\ e_level d + 1 <= recursion_limit L /\ e_total d < total_limit L /\
  e_total d' = e_total d + 1 /\
  ( (per_func_limit L <= cval (x_func x) (e_counts d) /\ r = negb (x_typing x) /\
     forall f, cval f (e_counts d') = cval f (e_counts d))
    \/
    (cval (x_func x) (e_counts d) < per_func_limit L /\
     cval (x_func x) (e_counts d') = cval (x_func x) (e_counts d) + 1 /\
     (forall f, f <> x_func x -> cval f (e_counts d') = cval f (e_counts d)) /\
     r = (per_func_rec_limit L <? countN (x_func x) (x_func x :: e_stack d))) ).

Lemma push_spec L d x d' r :
  push_execution L d x = (d', r) ->
  e_level d' = e_level d + 1 /\ e_stack d' = x_func x :: e_stack d /\
  ( (x_builtins x = true /\ r = false /\ e_total d' = e_total d /\ e_counts d' = e_counts d) \/
    (x_builtins x = false /\ r = true /\ e_total d' = e_total d /\ e_counts d' = e_counts d) \/
    push_ordinary L d d' x r ).
Proof.
  unfold push_execution, push_ordinary. intros H.
  destruct (x_builtins x) eqn:Eb.
  { inversion H; subst; cbn. auto 10. }
  destruct (recursion_limit L <? e_level d + 1) eqn:E1.
  { inversion H; subst; cbn. auto 10. }
  destruct (total_limit L <=? e_total d) eqn:E2.
  { inversion H; subst; cbn. auto 10. }
  apply N.ltb_ge in E1. apply N.leb_gt in E2.
  destruct (lookup (x_func x) (e_counts d)) as [c|] eqn:El.
  - destruct (per_func_limit L <=? c) eqn:E3.
    + inversion H; subst; cbn. apply N.leb_le in E3.
      split; [reflexivity|]. split; [reflexivity|]. right. right.
      repeat split; auto. left. unfold cval. rewrite El. auto.
    + inversion H; subst; cbn. apply N.leb_gt in E3.
      split; [reflexivity|]. split; [reflexivity|]. right. right.
      repeat split; auto. right. rewrite cval_update_same. unfold cval at 1 2. rewrite El.
      repeat split; auto. intros. apply cval_update_other; auto.
  - destruct (per_func_limit L <=? 0) eqn:E3.
    + inversion H; subst; cbn. apply N.leb_le in E3.
      split; [reflexivity|]. split; [reflexivity|]. right. right.
      repeat split; auto. left. unfold cval at 1. rewrite El. repeat split; auto.
      intros f. destruct (N.eq_dec f (x_func x)) as [->|Hne].
      * rewrite cval_update_same. unfold cval. rewrite El. reflexivity.
      * apply cval_update_other; auto.
    + inversion H; subst; cbn. apply N.leb_gt in E3.
      split; [reflexivity|]. split; [reflexivity|]. right. right.
      repeat split; auto. right. rewrite cval_update_same. unfold cval at 1 2. rewrite El.
      repeat split; auto. intros. apply cval_update_other; auto.
Qed.

Fixpoint depth_ok (L : limits) (m : list (exec * bool)) : Prop :=
  match m with
  | [] => True
  | e :: m' => (acc_nb e = true -> len (e :: m') <= recursion_limit L) /\ depth_ok L m'
  end.

Fixpoint rec_ok (L : limits) (m : list (exec * bool)) : Prop :=
  match m with
  | [] => True
  | e :: m' => (acc_nb e = true -> x_typing (fst e) = false ->
                countN (x_func (fst e)) (funcs_of (e :: m')) <= per_func_rec_limit L) /\ rec_ok L m'
  end.

Lemma depth_ok_cnt L m : depth_ok L m -> cnt acc_nb m <= recursion_limit L.
Proof.
  induction m as [|e m IH]; cbn [depth_ok]; intros H.
  - cbn. lia.
  - destruct H as [H1 H2]. rewrite cnt_cons. destruct (acc_nb e) eqn:E.
    + specialize (H1 eq_refl). rewrite len_cons in H1.
      pose proof (cnt_le_len acc_nb m). lia.
    + specialize (IH H2). lia.
Qed.

Lemma acc_of_le_count f m : cnt (acc_of f) m <= countN f (funcs_of m).
Proof.
  induction m as [|e m IH]; [cbn; lia|].
  rewrite cnt_cons. cbn [funcs_of map countN]. unfold acc_of at 1.
  destruct (x_func (fst e) =? f) eqn:E.
  - apply N.eqb_eq in E. rewrite E, N.eqb_refl. fold (funcs_of m).
    destruct (acc_nb e && negb (x_typing (fst e)) && true); lia.
  - rewrite andb_false_r. fold (funcs_of m).
    destruct (f =? x_func (fst e)); lia.
Qed.

Lemma rec_ok_cnt L m : rec_ok L m -> forall f, cnt (acc_of f) m <= per_func_rec_limit L.
Proof.
  induction m as [|e m IH]; cbn [rec_ok]; intros H f.
  - cbn. lia.
  - destruct H as [H1 H2]. destruct (acc_of f e) eqn:E.
    + unfold acc_of in E. apply andb_prop in E. destruct E as [E E3].
      apply andb_prop in E. destruct E as [E1 E2].
      apply N.eqb_eq in E3. apply negb_true_iff in E2.
      specialize (H1 E1 E2). rewrite E3 in H1.
      pose proof (acc_of_le_count f (e :: m)). lia.
    + rewrite cnt_cons, E. specialize (IH H2 f). lia.
Qed.

Record XInv (L : limits) (s : xstate) : Prop := mkXInv {
  inv_level : e_level (x_det s) = len (x_marks s);
  inv_stack : e_stack (x_det s) = funcs_of (x_marks s);
  inv_total : cnt acc_nb (x_log s) <= e_total (x_det s);
  inv_total_le : e_total (x_det s) <= total_limit L;
  inv_per : forall f, cnt (acc_of f) (x_log s) <= cval f (e_counts (x_det s));
  inv_per_le : forall f, cval f (e_counts (x_det s)) <= per_func_limit L;
  inv_depth : depth_ok L (x_marks s);
  inv_rec : rec_ok L (x_marks s) }.

Lemma XInv_reset L : XInv L xreset.
Proof. constructor; cbn; intros; try lia; auto. Qed.

Lemma acc_of_acc_nb f e : acc_of f e = true -> acc_nb e = true.
Proof. unfold acc_of. intros H. apply andb_prop in H. destruct H as [H _]. apply andb_prop in H. tauto. Qed.

Lemma acc_of_other f e : x_func (fst e) <> f -> acc_of f e = false.
Proof. intros H. unfold acc_of. apply N.eqb_neq in H. rewrite H. apply andb_false_r. Qed.

Lemma XInv_step L s e s' : XInv L s -> xstep L s e = Some s' -> XInv L s'.
Proof.
  intros I H. destruct e as [x|]; cbn in H.
  - destruct (push_execution L (x_det s) x) as [d r] eqn:Ep.
    inversion H; subst s'; clear H.
    apply push_spec in Ep. destruct Ep as (Hlv & Hst & Hc).
    destruct I as [I1 I2 I3 I4 I5 I6 I7 I8].
    assert (Hlen : e_level d = len ((x, r) :: x_marks s)) by (rewrite len_cons; lia).
    assert (Hstk : e_stack d = funcs_of ((x, r) :: x_marks s)) by (cbn; rewrite Hst, I2; reflexivity).
    destruct Hc as [(Hb & Hr & Ht & Hcts) | [(Hb & Hr & Ht & Hcts) | Ho]].
    + (* builtins *)
      assert (A : acc_nb (x, r) = false) by (unfold acc_nb; cbn; rewrite Hb; apply andb_false_r).
      assert (B : forall f, acc_of f (x, r) = false).
      { intros f. destruct (acc_of f (x, r)) eqn:E; auto. apply acc_of_acc_nb in E. congruence. }
      constructor; cbn [x_det x_marks x_log]; auto.
      * rewrite cnt_cons, A. lia.
      * lia.
      * intros f. rewrite cnt_cons, B, Hcts. apply I5.
      * intros f. rewrite Hcts. apply I6.
      * cbn [depth_ok]. split; auto. rewrite A. discriminate.
      * cbn [rec_ok]. split; auto. rewrite A. discriminate.
    + (* refused by depth / total *)
      assert (A : acc_nb (x, r) = false) by (unfold acc_nb; cbn; rewrite Hr; reflexivity).
      assert (B : forall f, acc_of f (x, r) = false).
      { intros f. destruct (acc_of f (x, r)) eqn:E; auto. apply acc_of_acc_nb in E. congruence. }
      constructor; cbn [x_det x_marks x_log]; auto.
      * rewrite cnt_cons, A. lia.
      * lia.
      * intros f. rewrite cnt_cons, B, Hcts. apply I5.
      * intros f. rewrite Hcts. apply I6.
      * cbn [depth_ok]. split; auto. rewrite A. discriminate.
      * cbn [rec_ok]. split; auto. rewrite A. discriminate.
    + destruct Ho as (Hb & Hdep & Htot & Ht & Hper).
      constructor; cbn [x_det x_marks x_log]; auto.
      * rewrite cnt_cons. destruct (acc_nb (x, r)); lia.
      * lia.
      * intros f. rewrite cnt_cons.
        destruct Hper as [(Hlim & Hr & Hsame) | (Hlt & Hinc & Hoth & Hr)].
        -- rewrite Hsame. assert (B : acc_of f (x, r) = false).
           { unfold acc_of, acc_nb. cbn. rewrite Hr. destruct (x_typing x); cbn; auto.
             rewrite ?andb_false_r. reflexivity. }
           rewrite B. apply I5.
        -- destruct (N.eq_dec (x_func x) f) as [E|E].
           ++ subst f. rewrite Hinc. specialize (I5 (x_func x)).
              destruct (acc_of (x_func x) (x, r)); lia.
           ++ rewrite acc_of_other by (cbn; auto). rewrite Hoth by auto. apply I5.
      * intros f. destruct Hper as [(Hlim & Hr & Hsame) | (Hlt & Hinc & Hoth & Hr)].
        -- rewrite Hsame. apply I6.
        -- destruct (N.eq_dec f (x_func x)) as [E|E].
           ++ subst f. rewrite Hinc. lia.
           ++ rewrite Hoth by auto. apply I6.
      * cbn [depth_ok]. split; auto. intros _. rewrite <- Hlen. lia.
      * cbn [rec_ok]. split; auto. intros A Ty. cbn [fst] in *.
        destruct Hper as [(Hlim & Hr & Hsame) | (Hlt & Hinc & Hoth & Hr)].
        -- unfold acc_nb in A. cbn in A. rewrite Hr, Ty in A. cbn in A. discriminate.
        -- unfold acc_nb in A. cbn in A. apply andb_prop in A. destruct A as [A _].
           apply negb_true_iff in A. rewrite A in Hr. symmetry in Hr. apply N.ltb_ge in Hr.
           rewrite <- Hstk, Hst. exact Hr.
  - destruct (pop_execution (x_det s)) as [d|] eqn:Ep; [|discriminate].
    inversion H; subst s'; clear H.
    unfold pop_execution in Ep. destruct I as [I1 I2 I3 I4 I5 I6 I7 I8].
    destruct (e_stack (x_det s)) as [|f st] eqn:Es; [discriminate|].
    inversion Ep; subst d; clear Ep.
    destruct (x_marks s) as [|m ms] eqn:Em; [cbn in I2; discriminate|].
    cbn in I2. inversion I2; subst.
    constructor; cbn [x_det x_marks x_log e_level e_stack e_counts e_total tl]; auto.
    + rewrite I1, len_cons. lia.
    + cbn [depth_ok] in I7. tauto.
    + cbn [rec_ok] in I8. tauto.
Qed.

Lemma XInv_run L tr : forall s s', XInv L s -> xrun L s tr = Some s' -> XInv L s'.
Proof.
  induction tr as [|e tr IH]; cbn; intros s s' I H.
  - inversion H; subst; auto.
  - destruct (xstep L s e) as [s1|] eqn:E; [|discriminate].
    eapply IH; [|eassumption]. eapply XInv_step; eassumption.
Qed.

Lemma exec_budget_gen L tr s :
  xrun L xreset tr = Some s ->
  cnt acc_nb (x_log s) <= total_limit L /\
  (forall f, cnt (acc_of f) (x_log s) <= per_func_limit L) /\
  cnt acc_nb (x_marks s) <= recursion_limit L /\
  (forall f, cnt (acc_of f) (x_marks s) <= per_func_rec_limit L).
Proof.
  intros H. pose proof (XInv_run L tr _ _ (XInv_reset L) H) as I.
  destruct I as [I1 I2 I3 I4 I5 I6 I7 I8].
  repeat split.
  - lia.
  - intros f. specialize (I5 f). specialize (I6 f). lia.
  - apply depth_ok_cnt; auto.
  - apply rec_ok_cnt; auto.
Qed.

(* a refused push still occupies the stack and the level until popped *)
Lemma refused_push_occupies L d x d' :
  push_execution L d x = (d', true) ->
  e_level d' = e_level d + 1 /\ e_stack d' = x_func x :: e_stack d /\
  pop_execution d' = Some (mkEdet (e_level d) (e_stack d) (e_counts d') (e_total d')).
Proof.
  intros H. apply push_spec in H. destruct H as (H1 & H2 & _).
  repeat split; auto. unfold pop_execution. rewrite H2, H1.
  replace (e_level d + 1 - 1) with (e_level d) by lia. reflexivity.
Qed.

(* builtins executions are never refused, whatever the depth: nesting of accepted
   executions is unbounded for them *)
Fixpoint builtin_pushes (n : nat) : list xev :=
  match n with O => [] | S n' => XPush (mkExec 0 true false) :: builtin_pushes n' end.

Lemma builtin_pushes_run L n : forall s,
  exists s', xrun L s (builtin_pushes n) = Some s' /\
             cnt acc_any (x_marks s') = cnt acc_any (x_marks s) + N.of_nat n.
Proof.
  induction n as [|n IH]; intros s.
  - exists s. cbn. split; auto. lia.
  - cbn [builtin_pushes xrun xstep]. unfold push_execution. cbn [x_builtins].
    destruct (IH (mkX (mkEdet (e_level (x_det s) + 1) (x_func (mkExec 0 true false) :: e_stack (x_det s))
                              (e_counts (x_det s)) (e_total (x_det s)))
                      ((mkExec 0 true false, false) :: x_marks s)
                      ((mkExec 0 true false, false) :: x_log s))) as (s' & H1 & H2).
    exists s'. split; auto. rewrite H2. cbn [x_marks]. rewrite cnt_cons.
    unfold acc_any. cbn [snd negb]. rewrite Nat2N.inj_succ. lia.
Qed.

Lemma exec_depth_builtins_unbounded L n :
  exists tr s, xrun L xreset tr = Some s /\ cnt acc_any (x_marks s) = N.of_nat n.
Proof.
  destruct (builtin_pushes_run L n xreset) as (s' & H1 & H2).
  exists (builtin_pushes n), s'. split; auto.
Qed.

(* the typing exemption: beyond the per-function limit a typing function is still executed *)
Fixpoint typing_calls (n : nat) : list xev :=
  match n with O => [] | S n' => XPush (mkExec 7 false true) :: XPop :: typing_calls n' end.

(* ------------------------------------------------------------------ 2. statement guard *)
Lemma sstep_nodup s e s' o :
  NoDup (s_pushed s) -> sstep s e = Some (s', o) ->
  NoDup (s_pushed s') /\
  (forall n, In n (s_pushed s') -> In n (s_pushed s) \/ e = SEnter n).
Proof.
  intros ND H. destruct e as [n|]; cbn in H.
  - destruct (memN n (s_pushed s)) eqn:E; inversion H; subst; cbn.
    + split; auto.
    + apply memN_false in E. split; [constructor; auto|].
      intros m [Hm|Hm]; subst; auto.
  - destruct (s_frames s) as [|[|] fr]; try discriminate.
    + destruct (s_pushed s) as [|p ps] eqn:Ep; try discriminate.
      inversion H; subst; cbn. inversion ND; subst. split; auto.
    + inversion H; subst; cbn. split; auto.
Qed.

Lemma srun_nodup tr : forall s s',
  NoDup (s_pushed s) -> srun s tr = Some s' ->
  NoDup (s_pushed s') /\ incl (s_pushed s') (s_pushed s ++ entered tr).
Proof.
  induction tr as [|e tr IH]; cbn; intros s s' ND H.
  - inversion H; subst. split; auto. rewrite app_nil_r. apply incl_refl.
  - destruct (sstep s e) as [[s1 o]|] eqn:E; [|discriminate].
    destruct (sstep_nodup _ _ _ _ ND E) as [ND1 Hin].
    destruct (IH _ _ ND1 H) as [ND2 Hincl]. split; auto.
    intros n Hn. apply Hincl in Hn. apply in_app_or in Hn. apply in_or_app.
    destruct Hn as [Hn|Hn].
    + destruct (Hin _ Hn) as [|He]; auto. subst e. right. cbn. auto.
    + right. destruct e; cbn; auto.
Qed.

Lemma stmt_guard_gen tr s :
  srun sreset tr = Some s ->
  NoDup (s_pushed s) /\
  forall ns, incl (entered tr) ns -> (length (s_pushed s) <= length ns)%nat.
Proof.
  intros H. destruct (srun_nodup tr sreset s (NoDup_nil _) H) as [ND Hi]. cbn in Hi.
  split; auto. intros ns Hns. apply NoDup_incl_length; auto.
  eapply incl_tran; eauto.
Qed.

(* a statement is refused exactly when it is being executed *)
Lemma stmt_refused_iff_active s n s' :
  sstep s (SEnter n) = Some (s', Some false) <-> (In n (s_pushed s) /\ s' = mkS (s_pushed s) (false :: s_frames s)).
Proof.
  cbn. destruct (memN n (s_pushed s)) eqn:E.
  - apply memN_In in E. split.
    + intros H. inversion H. auto.
    + intros [_ ->]. reflexivity.
  - apply memN_false in E. split; [discriminate|tauto].
Qed.

(* ------------------------------------------------------------------ 3a. memoize *)
Lemma mrun_cons memo e tr :
  mrun memo (e :: tr) = (fst (mrun (fst (mstep memo e)) tr),
                         (e, snd (mstep memo e)) :: snd (mrun (fst (mstep memo e)) tr)).
Proof.
  cbn [mrun]. destruct (mstep memo e) as [m1 o]. cbn [fst snd].
  destruct (mrun m1 tr) as [m2 log]. reflexivity.
Qed.

Lemma memo_present_no_enter k tr : forall memo v,
  lookup k memo = Some v -> cnt (is_enter_of k) (snd (mrun memo tr)) = 0.
Proof.
  induction tr as [|e tr IH]; intros memo v Hl; [reflexivity|].
  rewrite mrun_cons. cbn [snd]. rewrite cnt_cons.
  destruct e as [k' d|k' v']; cbn [mstep].
  - destruct (lookup k' memo) as [w|] eqn:El; cbn [fst snd is_enter_of].
    + rewrite (IH memo v Hl). reflexivity.
    + assert (Hne : k <> k') by (intros ->; congruence).
      apply N.eqb_neq in Hne. rewrite Hne.
      destruct d as [dv|].
      * rewrite (IH (update k' dv memo) v); [reflexivity|].
        rewrite lookup_update_other; auto. apply N.eqb_neq; auto.
      * rewrite (IH memo v Hl). reflexivity.
  - cbn [fst snd is_enter_of].
    destruct (N.eq_dec k k') as [->|Hne].
    + rewrite (IH (update k' v' memo) v'); [reflexivity|apply lookup_update_same].
    + rewrite (IH (update k' v' memo) v); [reflexivity|]. rewrite lookup_update_other; auto.
Qed.

Lemma memo_enter_once k tr : forall memo,
  calls_have_default k tr -> cnt (is_enter_of k) (snd (mrun memo tr)) <= 1.
Proof.
  induction tr as [|e tr IH]; intros memo Hd; [cbn; lia|].
  assert (Hd' : calls_have_default k tr) by (intros d Hin; apply Hd; right; auto).
  rewrite mrun_cons. cbn [snd]. rewrite cnt_cons.
  destruct e as [k' d|k' v']; cbn [mstep].
  - destruct (lookup k' memo) as [w|] eqn:El; cbn [fst snd is_enter_of].
    + specialize (IH memo Hd'). lia.
    + destruct (k =? k') eqn:E.
      * apply N.eqb_eq in E. subst k'. destruct d as [dv|].
        -- rewrite (memo_present_no_enter k tr (update k dv memo) dv); [lia|apply lookup_update_same].
        -- exfalso. apply (Hd None); [left; reflexivity|reflexivity].
      * specialize (IH (match d with Some dv => update k' dv memo | None => memo end) Hd'). lia.
  - cbn [fst snd is_enter_of]. specialize (IH (update k' v' memo) Hd'). lia.
Qed.

Lemma memo_keeps_value k tr : forall memo v,
  lookup k memo = Some v -> no_store k tr = true -> lookup k (fst (mrun memo tr)) = Some v.
Proof.
  induction tr as [|e tr IH]; intros memo v Hl Hn; [exact Hl|].
  rewrite mrun_cons. cbn [fst]. destruct e as [k' d|k' v']; cbn [mstep no_store] in *.
  - destruct (lookup k' memo) as [w|] eqn:El; cbn [fst].
    + apply IH; auto.
    + assert (Hne : k <> k') by (intros ->; congruence).
      destruct d as [dv|]; apply IH; auto. rewrite lookup_update_other; auto.
  - apply andb_prop in Hn. destruct Hn as [Hne Hn]. apply negb_true_iff, N.eqb_neq in Hne.
    cbn [fst]. apply IH; auto. rewrite lookup_update_other; auto.
Qed.

Lemma memo_reentry_default memo k dv t2 d' :
  lookup k memo = None -> no_store k t2 = true ->
  let m1 := fst (mstep memo (MCall k (Some dv))) in
  let m2 := fst (mrun m1 t2) in
  snd (mstep memo (MCall k (Some dv))) = MEnter /\
  mstep m2 (MCall k d') = (m2, MHit dv).
Proof.
  intros Hl Hn. cbn [mstep]. rewrite Hl. cbn [fst snd]. split; [reflexivity|].
  rewrite (memo_keeps_value k t2 (update k dv memo) dv); auto. apply lookup_update_same.
Qed.

Lemma memo_nodefault_reenters :
  exists tr k, cnt (is_enter_of k) (snd (mrun [] tr)) = 2.
Proof. exists [MCall 0 None; MCall 0 None], 0. reflexivity. Qed.

(* ------------------------------------------------------------------ 3b. generator cache *)
Definition sentinel_of (adv : list N) : list (option N) :=
  match adv with [] => [] | _ :: _ => [None] end.

Record GInv (s : gstate) (vs : list N) : Prop := mkGInv {
  gi_cached : g_cached s = map Some vs ++ sentinel_of (g_adv s);
  gi_adv : (length (g_adv s) <= 1)%nat;
  gi_pos : forall c, pos_of c s <= len vs;
  gi_fin : forall c, In c (g_adv s) -> ~ In c (g_fin s) }.

Lemma GInv_reset : GInv greset [].
Proof. constructor; cbn; auto. intros. unfold pos_of. cbn. lia. Qed.

Lemma nth_error_map_some (vs : list N) i :
  nth_error (map Some vs ++ [@None N]) i =
  match nth_error vs i with
  | Some v => Some (Some v)
  | None => if (i =? length vs)%nat then Some None else None
  end.
Proof.
  revert i. induction vs as [|v vs IH]; intros i; cbn.
  - destruct i; cbn; auto. destruct i; reflexivity.
  - destruct i; cbn; auto.
Qed.

Lemma nth_error_map_some' (vs : list N) i :
  nth_error (map Some vs) i = match nth_error vs i with Some v => Some (Some v) | None => None end.
Proof. revert i. induction vs; intros [|i]; cbn; auto. Qed.

Lemma pos_of_update c c' v s fin adv cached :
  pos_of c (mkG cached (update c' v (g_pos s)) fin adv) = if c =? c' then v else pos_of c s.
Proof.
  unfold pos_of. cbn [g_pos]. destruct (c =? c') eqn:E.
  - apply N.eqb_eq in E. subst. rewrite lookup_update_same. reflexivity.
  - apply N.eqb_neq in E. rewrite lookup_update_other; auto.
Qed.

Lemma removelast_snoc {A} (l : list A) x : removelast (l ++ [x]) = l.
Proof. apply removelast_last. Qed.

Lemma GInv_step s vs e s' o :
  GInv s vs -> gstep s e = Some (s', o) ->
  exists ext, GInv s' (vs ++ ext) /\
    (o = GAdvance -> g_adv s = [] /\ exists c, g_adv s' = [c]) /\
    (forall c, e = GAsk c -> In c (g_fin s) -> o = GStop /\ s' = s).
Proof.
  intros [I1 I2 I3 I4] H. destruct e as [c|r]; cbn [gstep] in H.
  - destruct (memN c (g_adv s)) eqn:Ea; [discriminate|].
    destruct (memN c (g_fin s)) eqn:Ef.
    { inversion H; subst. exists []. rewrite app_nil_r.
      split; [constructor; auto|]. split; [discriminate|]. intros; split; reflexivity. }
    apply memN_false in Ef. apply memN_false in Ea.
    assert (Hlast : forall c', GAsk c = GAsk c' -> In c' (g_fin s) -> o = GStop /\ s' = s).
    { intros c' E. inversion E; subst. tauto. }
    pose proof (I3 c) as Hpos.
    destruct (nth_error (g_cached s) (N.to_nat (pos_of c s))) as [[v|]|] eqn:En.
    + inversion H; subst; clear H. exists []. rewrite app_nil_r.
      split; [|split; [discriminate|exact Hlast]].
      constructor; cbn [g_cached g_adv g_fin].
      * exact I1.
      * exact I2.
      * intros c'. rewrite pos_of_update. destruct (c' =? c); [|apply I3].
        rewrite I1 in En. destruct (g_adv s) as [|a ad]; cbn [sentinel_of] in En.
        -- rewrite app_nil_r, nth_error_map_some' in En.
           destruct (nth_error vs (N.to_nat (pos_of c s))) eqn:E2; [|discriminate].
           assert (N.to_nat (pos_of c s) < length vs)%nat by (apply nth_error_Some; congruence).
           unfold len. lia.
        -- rewrite nth_error_map_some in En.
           destruct (nth_error vs (N.to_nat (pos_of c s))) eqn:E2.
           ++ assert (N.to_nat (pos_of c s) < length vs)%nat by (apply nth_error_Some; congruence).
              unfold len. lia.
           ++ destruct (N.to_nat (pos_of c s) =? length vs)%nat; discriminate.
      * exact I4.
    + inversion H; subst; clear H. exists []. rewrite app_nil_r.
      split; [|split; [discriminate|exact Hlast]].
      constructor; cbn [g_cached g_adv g_fin].
      * exact I1.
      * exact I2.
      * intros c'. unfold pos_of. cbn [g_pos]. apply I3.
      * intros c' Hin [Hc|Hc]; [subst; auto|]. eapply I4; eauto.
    + inversion H; subst; clear H. exists []. rewrite app_nil_r.
      assert (Hadv : g_adv s = []).
      { destruct (g_adv s) as [|a ad] eqn:Eadv; auto. exfalso.
        rewrite I1 in En. cbn [sentinel_of] in En. apply nth_error_None in En.
        rewrite app_length, map_length in En. cbn in En. unfold len in Hpos. lia. }
      split; [|split; [intros _; split; auto; exists c; cbn [g_adv]; rewrite Hadv; reflexivity
                      |exact Hlast]].
      constructor; cbn [g_cached g_adv g_fin].
      * rewrite I1, Hadv. cbn [sentinel_of]. rewrite app_nil_r. reflexivity.
      * rewrite Hadv. cbn. lia.
      * intros c'. unfold pos_of. cbn [g_pos]. apply I3.
      * intros c' [Hc|Hc]; [subst; auto|]. rewrite Hadv in Hc. destruct Hc.
  - destruct (g_adv s) as [|c rest] eqn:Eadv; [discriminate|].
    assert (rest = []) by (cbn in I2; destruct rest; auto; cbn in I2; lia). subst rest.
    cbn [sentinel_of] in I1.
    destruct r as [v|]; inversion H; subst; clear H.
    + exists [v]. split; [|split; [discriminate|intros c' E; discriminate]].
      constructor; cbn [g_cached g_adv g_fin].
      * rewrite I1, removelast_snoc, map_app. cbn. rewrite app_nil_r. reflexivity.
      * cbn. lia.
      * intros c'. rewrite pos_of_update, len_app. unfold len at 2. cbn [length].
        destruct (c' =? c); [specialize (I3 c)|specialize (I3 c')]; lia.
      * intros c' [].
    + exists []. rewrite app_nil_r. split; [|split; [discriminate|intros c' E; discriminate]].
      constructor; cbn [g_cached g_adv g_fin].
      * rewrite I1, removelast_snoc. cbn. rewrite app_nil_r. reflexivity.
      * cbn. lia.
      * intros c'. unfold pos_of. cbn [g_pos]. apply I3.
      * intros c' [].
Qed.

Lemma GInv_run tr : forall s vs s' outs,
  GInv s vs -> grun s tr = Some (s', outs) -> exists ext, GInv s' (vs ++ ext).
Proof.
  induction tr as [|e tr IH]; cbn; intros s vs s' outs I H.
  - inversion H; subst. exists []. rewrite app_nil_r. auto.
  - destruct (gstep s e) as [[s1 o]|] eqn:E; [|discriminate].
    destruct (grun s1 tr) as [[s2 os]|] eqn:E2; [|discriminate].
    inversion H; subst; clear H.
    destruct (GInv_step _ _ _ _ _ I E) as (ext & I1 & _).
    destruct (IH _ _ _ _ I1 E2) as (ext2 & I2).
    exists (ext ++ ext2). rewrite app_assoc. auto.
Qed.

Lemma gvalues_map_some vs tail :
  gvalues (map Some vs ++ sentinel_of tail) = vs.
Proof.
  induction vs; cbn.
  - destruct tail; reflexivity.
  - f_equal. auto.
Qed.

Lemma gen_cache_gen tr1 tr2 s1 o1 s2 o2 :
  grun greset tr1 = Some (s1, o1) -> grun s1 tr2 = Some (s2, o2) ->
  (length (g_adv s2) <= 1)%nat /\
  (forall c s3 o, gstep s2 (GAsk c) = Some (s3, o) -> o = GAdvance -> g_adv s2 = []) /\
  (forall c, In c (g_fin s2) -> ~ In c (g_adv s2) -> gstep s2 (GAsk c) = Some (s2, GStop)) /\
  exists ext, gvalues (g_cached s2) = gvalues (g_cached s1) ++ ext.
Proof.
  intros H1 H2.
  destruct (GInv_run _ _ _ _ _ GInv_reset H1) as (vs1 & I1). cbn in I1.
  destruct (GInv_run _ _ _ _ _ I1 H2) as (ext & I2).
  split; [apply (gi_adv _ _ I2)|]. split; [|split].
  - intros c s3 o Hs Ho. destruct (GInv_step _ _ _ _ _ I2 Hs) as (_ & _ & Ha & _).
    apply Ha in Ho. tauto.
  - intros c Hf Ha. cbn [gstep]. apply memN_false in Ha. rewrite Ha.
    apply memN_In in Hf. rewrite Hf. reflexivity.
  - exists ext. rewrite (gi_cached _ _ I1), (gi_cached _ _ I2), !gvalues_map_some. reflexivity.
Qed.

(* ------------------------------------------------------------------ 4. infer cap *)
Lemma irun_cons L cts e tr :
  irun L cts (e :: tr) = (fst (irun L (fst (istep L cts e)) tr),
                          (e, snd (istep L cts e)) :: snd (irun L (fst (istep L cts e)) tr)).
Proof.
  cbn [irun]. destruct (istep L cts e) as [c1 o]. cbn [fst snd].
  destruct (irun L c1 tr) as [c2 log]. reflexivity.
Qed.

Lemma irun_app L t1 : forall cts t2,
  irun L cts (t1 ++ t2) =
  (fst (irun L (fst (irun L cts t1)) t2), snd (irun L cts t1) ++ snd (irun L (fst (irun L cts t1)) t2)).
Proof.
  induction t1 as [|e t1 IH]; intros cts t2.
  - cbn. destruct (irun L cts t2); reflexivity.
  - rewrite <- app_comm_cons, !irun_cons, IH. cbn [fst snd]. reflexivity.
Qed.

Section Cap.
Variable L : limits.
Variable isb : N -> bool.

Definition capk (k : N) : N := cap_of L (isb k).

Fixpoint pot (cts : list (N * N)) : N :=
  match cts with
  | [] => 0
  | (k, c) :: r => N.min c (capk k) + pot r
  end.

Fixpoint capsum (ks : list N) : N :=
  match ks with
  | [] => 0
  | k :: r => capk k + capsum r
  end.

Lemma pot_update_some k c v cts :
  lookup k cts = Some c -> pot (update k v cts) + N.min c (capk k) = pot cts + N.min v (capk k).
Proof.
  induction cts as [|[k' c'] r IH]; cbn; [discriminate|].
  destruct (k =? k') eqn:E.
  - intros H. inversion H; subst. apply N.eqb_eq in E. subst. cbn. lia.
  - intros H. specialize (IH H). cbn. lia.
Qed.

Lemma pot_update_none k v cts :
  lookup k cts = None -> pot (update k v cts) = pot cts + N.min v (capk k).
Proof.
  induction cts as [|[k' c'] r IH]; cbn; [lia|].
  destruct (k =? k') eqn:E; [discriminate|]. intros H. specialize (IH H). cbn. lia.
Qed.

Lemma keys_update_some k c v cts :
  lookup k cts = Some c -> map fst (update k v cts) = map fst cts.
Proof.
  induction cts as [|[k' c'] r IH]; cbn; [discriminate|].
  destruct (k =? k') eqn:E; cbn; intros H; auto. f_equal. auto.
Qed.

Lemma keys_update_none k v cts :
  lookup k cts = None -> map fst (update k v cts) = map fst cts ++ [k].
Proof.
  induction cts as [|[k' c'] r IH]; cbn; auto.
  destruct (k =? k') eqn:E; [discriminate|]. cbn. intros H. f_equal. auto.
Qed.

Lemma lookup_memN k cts : memN k (map fst cts) = match lookup k cts with Some _ => true | None => false end.
Proof.
  induction cts as [|[k' c'] r IH]; cbn; auto.
  destruct (k =? k'); cbn; auto.
Qed.

Lemma pot_le_capsum cts : pot cts <= capsum (map fst cts).
Proof. induction cts as [|[k c] r IH]; cbn; lia. Qed.

Hypothesis cap_pos : 1 <= infer_cap L.
Hypothesis mult_pos : 1 <= builtin_mult L.

Lemma capk_pos k : 1 <= capk k.
Proof. unfold capk, cap_of. destruct (isb k); nia. Qed.

Lemma infer_potential tr : forall cts,
  (forall k b, In (k, b) tr -> b = isb k) ->
  accepted (snd (irun L cts tr)) + pot cts = pot (fst (irun L cts tr)) /\
  map fst (fst (irun L cts tr)) = scopes (map fst cts) tr.
Proof.
  induction tr as [|[k b] tr IH]; intros cts Hc.
  - cbn. split; [unfold accepted; cbn; lia|reflexivity].
  - assert (Hb : b = isb k) by (apply Hc; left; reflexivity).
    assert (Hc' : forall k b, In (k, b) tr -> b = isb k) by (intros; apply Hc; right; auto).
    rewrite irun_cons. cbn [fst snd]. unfold accepted. rewrite cnt_cons. cbn [snd].
    fold (accepted (snd (irun L (fst (istep L cts (k, b))) tr))).
    cbn [scopes]. rewrite lookup_memN. cbn [istep].
    destruct (lookup k cts) as [c|] eqn:El; cbn [fst snd].
    + destruct (IH (update k (c + 1) cts) Hc') as [IH1 IH2].
      rewrite (keys_update_some k c) in IH2 by auto. split; auto.
      pose proof (pot_update_some k c (c + 1) cts El) as Hp.
      fold (capk k) in *. subst b. fold (capk k).
      destruct (capk k <? c + 1) eqn:E; cbn [negb].
      * apply N.ltb_lt in E. lia.
      * apply N.ltb_ge in E. lia.
    + destruct (IH (update k 1 cts) Hc') as [IH1 IH2].
      rewrite (keys_update_none k) in IH2 by auto. split; auto.
      pose proof (pot_update_none k 1 cts El) as Hp. pose proof (capk_pos k). lia.
Qed.

Lemma capsum_split ks :
  capsum ks = infer_cap L * cnt (fun k => negb (isb k)) ks +
              infer_cap L * builtin_mult L * cnt isb ks.
Proof.
  induction ks as [|k r IH]; [cbn; lia|].
  cbn [capsum]. rewrite !cnt_cons, IH. unfold capk, cap_of. destruct (isb k); cbn [negb]; lia.
Qed.

Lemma infer_cap_gen tr :
  (forall k b, In (k, b) tr -> b = isb k) ->
  accepted (snd (irun L [] tr)) <=
    infer_cap L * cnt (fun k => negb (isb k)) (scopes [] tr) +
    infer_cap L * builtin_mult L * cnt isb (scopes [] tr).
Proof.
  intros Hc. destruct (infer_potential tr [] Hc) as [H1 H2]. cbn in H1, H2.
  rewrite <- capsum_split, <- H2. pose proof (pot_le_capsum (fst (irun L [] tr))). lia.
Qed.
End Cap.

Lemma NoDup_snoc {A} (l : list A) x : NoDup l -> ~ In x l -> NoDup (l ++ [x]).
Proof.
  induction l as [|a l IH]; cbn; intros ND Hn.
  - constructor; auto.
  - inversion ND; subst. constructor.
    + intros Hin. apply in_app_or in Hin. destruct Hin as [Hin|[Hin|[]]]; [tauto|subst; tauto].
    + apply IH; auto.
Qed.

Lemma scopes_spec tr : forall seen,
  NoDup seen -> NoDup (scopes seen tr) /\
  forall k, In k (scopes seen tr) <-> In k seen \/ exists b, In (k, b) tr.
Proof.
  induction tr as [|[k b] tr IH]; intros seen ND; cbn [scopes].
  - split; auto. intros k. split; auto. intros [H|[b []]]; auto.
  - destruct (memN k seen) eqn:E.
    + destruct (IH seen ND) as [H1 H2]. split; auto. intros k'. rewrite H2.
      apply memN_In in E. split.
      * intros [H|[b' H]]; auto. right. exists b'. right. auto.
      * intros [H|[b' [H|H]]]; auto; [inversion H; subst; auto|right; eauto].
    + apply memN_false in E.
      assert (ND' : NoDup (seen ++ [k])).
      { apply NoDup_snoc; auto. }
      destruct (IH _ ND') as [H1 H2]. split; auto. intros k'. rewrite H2, in_app_iff. cbn.
      split.
      * intros [[H|[H|[]]]|[b' H]]; auto; [subst; right; exists b; auto|right; exists b'; auto].
      * intros [H|[b' [H|H]]]; auto; [inversion H; subst; auto|right; eauto].
Qed.

(* call trees ------------------------------------------------------------- *)
Section CtreeInd.
Variable P : ctree -> Prop.
Hypothesis HN : forall k b kids, Forall P kids -> P (CNode k b kids).
Fixpoint ctree_ind2 (t : ctree) : P t :=
  match t with
  | CNode k b kids =>
      HN k b kids ((fix go (l : list ctree) : Forall P l :=
                      match l with
                      | [] => Forall_nil P
                      | t' :: l' => Forall_cons t' (ctree_ind2 t') (go l')
                      end) kids)
  end.
End CtreeInd.

Lemma visit_unfold L k b kids cts :
  visit L (CNode k b kids) cts =
  let '(c1, ok) := istep L cts (k, b) in
  if ok then let '(c2, log) := visit_list L kids c1 in (c2, ((k, b), true) :: log)
  else (c1, [((k, b), false)]).
Proof.
  cbn [visit]. destruct (istep L cts (k, b)) as [c1 ok]. destruct ok; auto.
  match goal with |- (let '(_, _) := ?f kids c1 in _) = _ =>
    assert (Hgo : forall l c, f l c = visit_list L l c) end.
  { induction l as [|t' l' IHl]; intros c; [reflexivity|].
    simpl. destruct (visit L t' c) as [c' lg]. rewrite IHl. reflexivity. }
  rewrite Hgo. reflexivity.
Qed.

Definition visit_ok (L : limits) (b : nat) (t : ctree) : Prop :=
  forall cts, fanout_le b t = true ->
    irun L cts (map fst (snd (visit L t cts))) = visit L t cts /\
    len (snd (visit L t cts)) <= 1 + N.of_nat b * accepted (snd (visit L t cts)).

Lemma accepted_app a b : accepted (a ++ b) = accepted a + accepted b.
Proof. unfold accepted. apply cnt_app. Qed.

Lemma visit_list_ok L b kids :
  Forall (visit_ok L b) kids -> forall cts, forallb (fanout_le b) kids = true ->
    irun L cts (map fst (snd (visit_list L kids cts))) = visit_list L kids cts /\
    len (snd (visit_list L kids cts)) <=
      len kids + N.of_nat b * accepted (snd (visit_list L kids cts)).
Proof.
  induction 1 as [|t l Ht Hl IH]; intros cts Hf.
  - cbn. split; auto. unfold accepted. cbn. lia.
  - cbn [forallb] in Hf. apply andb_prop in Hf. destruct Hf as [Hf1 Hf2].
    cbn [visit_list]. destruct (Ht cts Hf1) as [A1 A2].
    destruct (visit L t cts) as [c' lg] eqn:Ev. cbn [fst snd] in *.
    destruct (IH c' Hf2) as [B1 B2].
    destruct (visit_list L l c') as [c'' lg'] eqn:Evl. cbn [fst snd] in *.
    split.
    + rewrite map_app, irun_app, A1. cbn [fst snd]. rewrite B1. reflexivity.
    + rewrite len_app, accepted_app, len_cons. lia.
Qed.

Lemma visit_all_ok L b t : visit_ok L b t.
Proof.
  induction t as [k bb kids IH] using ctree_ind2. intros cts Hf.
  cbn [fanout_le] in Hf. apply andb_prop in Hf. destruct Hf as [Hlen Hf].
  apply Nat.leb_le in Hlen.
  rewrite visit_unfold. destruct (istep L cts (k, bb)) as [c1 ok] eqn:Es.
  destruct ok.
  - destruct (visit_list_ok L b kids IH c1 Hf) as [A1 A2].
    destruct (visit_list L kids c1) as [c2 log] eqn:Ev. cbn [fst snd] in *.
    split.
    + cbn [map fst]. rewrite irun_cons, Es. cbn [fst snd]. rewrite A1. reflexivity.
    + rewrite len_cons. unfold accepted at 1. rewrite cnt_cons. cbn [snd].
      fold (accepted log). unfold len in *. nia.
  - cbn [fst snd map]. split.
    + rewrite irun_cons, Es. reflexivity.
    + unfold accepted. rewrite cnt_cons, cnt_nil, len_cons, len_nil. cbn [snd]. lia.
Qed.

Lemma infer_work_gen L isb b t :
  1 <= infer_cap L -> 1 <= builtin_mult L ->
  fanout_le b t = true ->
  (forall k bb, In (k, bb) (map fst (snd (visit L t []))) -> bb = isb k) ->
  let log := snd (visit L t []) in
  let ks := scopes [] (map fst log) in
  len log <= 1 + N.of_nat b * (infer_cap L * cnt (fun k => negb (isb k)) ks +
                               infer_cap L * builtin_mult L * cnt isb ks).
Proof.
  intros Hc Hm Hf Hb log ks.
  destruct (visit_all_ok L b t [] Hf) as [A1 A2]. fold log in A1, A2.
  pose proof (infer_cap_gen L isb Hc Hm (map fst log) Hb) as Hcap.
  rewrite A1 in Hcap. fold log in Hcap. fold ks in Hcap. nia.
Qed.

Lemma infer_cap_documented (isb : N -> bool) (tr : list iev) :
  (forall k b, In (k, b) tr -> b = isb k) ->
  accepted (snd (irun documented_limits [] tr)) <=
    300 * cnt (fun k => negb (isb k)) (scopes [] tr) + 30000 * cnt isb (scopes [] tr).
Proof.
  intros H. pose proof (infer_cap_gen documented_limits isb) as G. cbn in G.
  apply G; auto; lia.
Qed.

Lemma scopes_spec_nil (tr : list iev) :
  NoDup (scopes [] tr) /\ forall k, In k (scopes [] tr) <-> exists b, In (k, b) tr.
Proof.
  destruct (scopes_spec tr [] (NoDup_nil N)) as [H1 H2]. split; auto.
  intros k. rewrite H2. cbn. tauto.
Qed.
