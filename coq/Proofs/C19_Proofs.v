(* C19 proofs: the directory walk (with its two accumulating ignore sets) against the
   declarative ignore specification; limits; search filter; de-duplication. *)
From Coq Require Import List NArith Bool Arith Lia.
From JV Require Import Base.Str Model.C19_Walk Proofs.Str_Proofs.
Import ListNotations.

(* ------------------------------------------------------------------ basics *)
Lemma str_in_In s l : str_in s l = true <-> In s l.
Proof.
  unfold str_in. rewrite existsb_exists. split.
  - intros [x [Hx E]]. apply str_eqb_eq in E. subst. exact Hx.
  - intros H. exists s. split; [exact H | apply str_eqb_refl].
Qed.

Lemma str_in_false s l : str_in s l = false <-> ~ In s l.
Proof.
  rewrite <- str_in_In. destruct (str_in s l); split; intros; try congruence.
Qed.

Fixpoint tree_ind' (P : tree -> Prop)
  (H : forall files subs, Forall (fun s => P (snd s)) subs -> P (Dir files subs)) (t : tree) : P t :=
  match t with
  | Dir files subs =>
      H files subs
        ((fix go (l : list (str * tree)) : Forall (fun s => P (snd s)) l :=
            match l with
            | [] => Forall_nil _
            | s :: r => Forall_cons s
                          (match s as s0 return P (snd s0) with (n, t') => tree_ind' P H t' end)
                          (go r)
            end) subs)
  end.

Lemma walk_dir_eq strict fe d files subs A R :
  walk_dir strict fe d (Dir files subs) A R =
  (files_out fe (A ++ abs_of d (dir_entries files))
             (expand strict d (R ++ rel_of d (dir_entries files))) d files ++
   dirs_out (A ++ abs_of d (dir_entries files))
            (expand strict d (R ++ rel_of d (dir_entries files))) d subs ++
   fst (walk_subs strict fe (A ++ abs_of d (dir_entries files))
          (expand strict d (R ++ rel_of d (dir_entries files))) d subs
          (A ++ abs_of d (dir_entries files)) (R ++ rel_of d (dir_entries files))),
   snd (walk_subs strict fe (A ++ abs_of d (dir_entries files))
          (expand strict d (R ++ rel_of d (dir_entries files))) d subs
          (A ++ abs_of d (dir_entries files)) (R ++ rel_of d (dir_entries files)))).
Proof.
  cbn [walk_dir]. cbv zeta.
  set (A1 := A ++ abs_of d (dir_entries files)).
  set (R1 := R ++ rel_of d (dir_entries files)).
  set (X := expand strict d R1).
  match goal with
  | |- (_ ++ _ ++ fst (?f subs A1 R1), _) = _ =>
      assert (E : forall l A0 R0, f l A0 R0 = walk_subs strict fe A1 X d l A0 R0)
  end.
  { induction l as [|s r IH]; intros A0 R0; [reflexivity|].
    cbn [walk_subs]. destruct (keep_dir A1 X d (fst s)); [|apply IH].
    rewrite IH. reflexivity. }
  rewrite E. reflexivity.
Qed.

(* ------------------------------------------------------ string-level lemmas *)
Definition PS (cs : list str) : str := flat_map (fun c => SL :: c) cs.
Definition nosl (n : str) : Prop := ~ In SL n.

Lemma pstr_PS root cs : pstr root cs = root ++ PS cs.
Proof. reflexivity. Qed.

Lemma PS_app a b : PS (a ++ b) = PS a ++ PS b.
Proof. unfold PS. apply flat_map_app. Qed.

Lemma pstr_snoc root cs n : pstr root (cs ++ [n]) = path_join (pstr root cs) n.
Proof.
  unfold pstr, path_join. fold (PS (cs ++ [n])). fold (PS cs). rewrite PS_app.
  cbn. rewrite app_nil_r, app_assoc. reflexivity.
Qed.

Lemma pstr_app root a b : pstr root (a ++ b) = pstr root a ++ PS b.
Proof. unfold pstr. fold (PS (a ++ b)). fold (PS a). rewrite PS_app, app_assoc. reflexivity. Qed.

Definition slash_or_nil (x : str) : Prop := x = [] \/ exists t, x = SL :: t.

Lemma split_nosl a b x y :
  nosl a -> nosl b -> slash_or_nil x -> slash_or_nil y -> a ++ x = b ++ y -> a = b /\ x = y.
Proof.
  revert b. induction a as [|c a IH]; intros b Ha Hb Hx Hy E.
  - destruct b as [|c' b]; [auto|]. exfalso. cbn in E.
    destruct Hx as [->|[t ->]]; [discriminate|]. inversion E; subst. apply Hb. left. reflexivity.
  - destruct b as [|c' b].
    + exfalso. cbn in E. destruct Hy as [->|[t ->]]; [discriminate|].
      inversion E; subst. apply Ha. left. reflexivity.
    + cbn in E. inversion E; subst.
      destruct (IH b) as [-> ->]; auto.
      * intros H. apply Ha. right. exact H.
      * intros H. apply Hb. right. exact H.
Qed.

Lemma PS_cons c cs : PS (c :: cs) = SL :: c ++ PS cs.
Proof. reflexivity. Qed.

Lemma PS_slash_or_nil cs tail : slash_or_nil tail -> slash_or_nil (PS cs ++ tail).
Proof. destruct cs as [|c cs]; cbn; [auto|]. intros _. right. eexists. reflexivity. Qed.

Lemma PS_nil_inv cs : PS cs = [] -> cs = [].
Proof. destruct cs; [reflexivity|discriminate]. Qed.

(* a '/'-free component list that is a string prefix (up to a component boundary) is a
   component prefix *)
Lemma PS_prefix fc : forall cs tail,
  Forall nosl fc -> Forall nosl cs -> slash_or_nil tail ->
  PS fc ++ tail = PS cs -> exists rest, cs = fc ++ rest /\ PS rest = tail.
Proof.
  induction fc as [|f fc IH]; intros cs tail Hf Hc Ht E.
  - exists cs. split; [reflexivity|]. symmetry. exact E.
  - destruct cs as [|c cs].
    + rewrite PS_cons in E. discriminate.
    + rewrite !PS_cons in E. cbn [app] in E. inversion E as [E']. rewrite <- app_assoc in E'.
      inversion Hf as [|? ? Hf1 Hf2]; subst. inversion Hc as [|? ? Hc1 Hc2]; subst.
      apply split_nosl in E'; auto.
      * destruct E' as [-> E2]. destruct (IH cs tail Hf2 Hc2 Ht E2) as [rest [-> Hr]].
        exists rest. split; [reflexivity|exact Hr].
      * apply PS_slash_or_nil. exact Ht.
      * rewrite <- (app_nil_r (PS cs)). apply PS_slash_or_nil. left. reflexivity.
Qed.

Lemma rstrip_prefix f : forall z, starts_with (f ++ SL :: z) (rstrip_slash f ++ [SL]) = true.
Proof.
  induction f as [|c f IH]; intros z.
  - cbn. reflexivity.
  - cbn [rstrip_slash]. specialize (IH z). destruct (rstrip_slash f) as [|r0 r'] eqn:Er.
    + destruct (N.eqb c SL) eqn:Ec.
      * apply N.eqb_eq in Ec. subst. cbn. reflexivity.
      * cbn [app starts_with]. rewrite N.eqb_refl. cbn [andb]. exact IH.
    + cbn [app starts_with]. rewrite N.eqb_refl. cbn [andb]. exact IH.
Qed.

Lemma rstrip_id s : forall c, c <> SL -> rstrip_slash (s ++ [c]) = s ++ [c].
Proof.
  induction s as [|x s IH]; intros c Hc.
  - cbn. destruct (N.eqb c SL) eqn:E; [apply N.eqb_eq in E; contradiction|reflexivity].
  - cbn [app rstrip_slash]. rewrite (IH c Hc). destruct (s ++ [c]) eqn:E; [|reflexivity].
    apply app_eq_nil in E. destruct E. discriminate.
Qed.

Lemma starts_with_app s p : starts_with s p = true -> exists r, s = p ++ r.
Proof. intros H. apply starts_with_prefix in H. exact H. Qed.

Lemma under_prefix root anc rest : under (pstr root (anc ++ rest)) (pstr root anc) = true.
Proof.
  unfold under. destruct rest as [|c r].
  - rewrite app_nil_r, str_eqb_refl. reflexivity.
  - rewrite pstr_app, PS_cons, rstrip_prefix. apply orb_true_r.
Qed.

Lemma pstr_ends root fc : fc <> [] -> Forall ok_name fc ->
  exists s c, pstr root fc = s ++ [c] /\ c <> SL.
Proof.
  intros Hne Hok. destruct (exists_last Hne) as [fc' [n ->]].
  apply Forall_app in Hok as [_ Hn]. inversion Hn as [|? ? [Hn1 Hn2] _]; subst.
  destruct (exists_last Hn1) as [n' [c ->]].
  exists (pstr root fc' ++ SL :: n'), c. split.
  - rewrite pstr_snoc. unfold path_join. rewrite <- app_assoc. reflexivity.
  - intros ->. apply Hn2. apply in_or_app. right. left. reflexivity.
Qed.

Lemma ok_nosl l : Forall ok_name l -> Forall nosl l.
Proof. apply Forall_impl. intros a [_ H]. exact H. Qed.

Lemma under_inv root fc dc :
  Forall ok_name fc -> Forall ok_name dc ->
  under (pstr root dc) (pstr root fc) = true -> exists rest, dc = fc ++ rest.
Proof.
  intros Hf Hd H. unfold under in H. apply orb_true_iff in H as [H|H].
  - apply str_eqb_eq in H. unfold pstr in H. apply app_inv_head in H.
    fold (PS dc) in H. fold (PS fc) in H.
    destruct (PS_prefix fc dc [] (ok_nosl _ Hf) (ok_nosl _ Hd)) as [rest [-> _]].
    + left. reflexivity.
    + rewrite app_nil_r. symmetry. exact H.
    + exists rest. reflexivity.
  - destruct fc as [|f0 fc0] eqn:Efc; [exists dc; reflexivity|]. rewrite <- Efc in *.
    assert (Hne : fc <> []) by (rewrite Efc; discriminate).
    destruct (pstr_ends root fc Hne Hf) as [s [c [Es Hc]]].
    rewrite Es, (rstrip_id s c Hc), <- Es in H.
    apply starts_with_app in H as [r Hr].
    unfold pstr in Hr. rewrite <- !app_assoc in Hr. apply app_inv_head in Hr.
    fold (PS dc) in Hr. fold (PS fc) in Hr.
    destruct (PS_prefix fc dc ([SL] ++ r) (ok_nosl _ Hf) (ok_nosl _ Hd)) as [rest [-> _]].
    + right. eexists. reflexivity.
    + symmetry. exact Hr.
    + exists rest. reflexivity.
Qed.

Lemma abs_inv root fc dc name e :
  Forall ok_name fc -> Forall ok_name dc -> ok_name name ->
  path_join (pstr root fc) e = path_join (pstr root dc) name -> exists rest, dc = fc ++ rest.
Proof.
  intros Hf Hd Hn H0.
  assert (H : PS fc ++ SL :: e = PS (dc ++ [name])).
  { rewrite PS_app. unfold path_join, pstr in H0. rewrite <- !app_assoc in H0. apply app_inv_head in H0.
    unfold PS. cbn [flat_map]. rewrite app_nil_r. exact H0. }
  assert (Hdn : Forall nosl (dc ++ [name])).
  { apply Forall_app. split; [apply ok_nosl; exact Hd|]. constructor; [apply Hn|constructor]. }
  destruct (PS_prefix fc (dc ++ [name]) (SL :: e) (ok_nosl _ Hf) Hdn) as [rest [E Hr]].
  - right. eexists. reflexivity.
  - exact H.
  - destruct (exists_last (l := rest)) as [rest' [x Ex]].
    { intros ->. discriminate. }
    subst rest. rewrite app_assoc in E. apply app_inj_tail in E as [E _].
    exists rest'. exact E.
Qed.

(* ------------------------------------------------------------ tree lemmas *)
Lemma DirAt_app T p t : DirAt T p t -> forall q u, DirAt t q u -> DirAt T (p ++ q) u.
Proof.
  induction 1; intros q u Hq; cbn; [exact Hq|].
  econstructor; eauto.
Qed.

Lemma DirAt_snoc T dc files subs n s :
  DirAt T dc (Dir files subs) -> In (n, s) subs -> DirAt T (dc ++ [n]) s.
Proof.
  intros H Hin. eapply DirAt_app; [exact H|]. econstructor; [exact Hin|constructor].
Qed.

Lemma nodup_fst_det {B} (l : list (str * B)) n a b :
  NoDup (map fst l) -> In (n, a) l -> In (n, b) l -> a = b.
Proof.
  induction l as [|[m x] l IH]; cbn; intros Hnd Ha Hb; [contradiction|].
  inversion Hnd as [|? ? Hni Hnd']; subst.
  destruct Ha as [Ha|Ha], Hb as [Hb|Hb].
  - congruence.
  - inversion Ha; subst. exfalso. apply Hni. apply (in_map fst) in Hb. exact Hb.
  - inversion Hb; subst. exfalso. apply Hni. apply (in_map fst) in Ha. exact Ha.
  - eauto.
Qed.

Lemma DirAt_wf T p X : wf_tree T -> DirAt T p X -> wf_tree X /\ Forall ok_name p.
Proof.
  intros Hwf H. induction H as [t|files subs n s p t Hin H IH]; [split; [exact Hwf|constructor]|].
  inversion Hwf as [? ? Hf Hs Hnd Hsub]; subst.
  rewrite Forall_forall in Hsub, Hs. specialize (Hsub _ Hin). specialize (Hs _ Hin). cbn in Hsub, Hs.
  destruct (IH Hsub) as [H1 H2]. split; [exact H1|constructor; assumption].
Qed.

Lemma DirAt_det T p X Y : wf_tree T -> DirAt T p X -> DirAt T p Y -> X = Y.
Proof.
  intros Hwf H. revert Y. induction H as [t|files subs n s p t Hin H IH]; intros Y HY.
  - inversion HY; subst. reflexivity.
  - inversion HY as [|? ? ? s' ? ? Hin' HY']; subst.
    inversion Hwf as [? ? Hf Hs Hnd Hsub]; subst.
    assert (s = s') by (eapply nodup_fst_det; eauto). subst s'.
    rewrite Forall_forall in Hsub. specialize (Hsub _ Hin). cbn in Hsub. apply IH; assumption.
Qed.

Lemma ItemAt_ok T isdir dp name : wf_tree T -> ItemAt T isdir dp name -> Forall ok_name dp /\ ok_name name.
Proof.
  intros Hwf [files [subs [Hd Hi]]]. destruct (DirAt_wf _ _ _ Hwf Hd) as [Hw Hp]. split; [exact Hp|].
  inversion Hw as [? ? Hf Hs _ _]; subst. rewrite Forall_forall in Hf, Hs.
  destruct isdir; destruct Hi as [x Hx]; [apply (Hs _ Hx)|apply (Hf _ Hx)].
Qed.

Lemma snoc_split {A} (dc : list A) n anc m rest :
  dc ++ [n] = anc ++ m :: rest ->
  (rest = [] /\ anc = dc /\ m = n) \/ (exists rest', rest = rest' ++ [n] /\ dc = anc ++ m :: rest').
Proof.
  intros E. destruct rest as [|y rest0].
  - left. apply app_inj_tail in E as [E1 E2]. auto.
  - right. destruct (@exists_last _ (y :: rest0)) as [r' [x Er]]; [discriminate|].
    rewrite Er in E. change (anc ++ m :: r' ++ [x]) with (anc ++ (m :: r') ++ [x]) in E.
    rewrite app_assoc in E. apply app_inj_tail in E as [E1 E2]. subst x.
    exists r'. split; [exact Er|exact E1].
Qed.

Lemma prefix_snoc {A} (dc : list A) n anc rest :
  dc ++ [n] = anc ++ rest -> rest <> [] -> exists rest', dc = anc ++ rest'.
Proof.
  intros E Hne. destruct (exists_last Hne) as [r' [x ->]].
  rewrite app_assoc in E. apply app_inj_tail in E as [E _]. exists r'. exact E.
Qed.

(* ------------------------------------------------------------ monotonicity *)
Lemma walk_mono strict fe t : forall d A R,
  incl A (fst (snd (walk_dir strict fe d t A R))) /\ incl R (snd (snd (walk_dir strict fe d t A R))).
Proof.
  induction t as [files subs IH] using tree_ind'. intros d A R. rewrite walk_dir_eq. cbn [snd].
  set (A1 := A ++ abs_of d (dir_entries files)). set (R1 := R ++ rel_of d (dir_entries files)).
  set (X := expand strict d R1).
  assert (G : forall l, Forall (fun s => forall d A R,
                 incl A (fst (snd (walk_dir strict fe d (snd s) A R))) /\
                 incl R (snd (snd (walk_dir strict fe d (snd s) A R)))) l ->
              forall A0 R0, incl A0 (fst (snd (walk_subs strict fe A1 X d l A0 R0))) /\
                            incl R0 (snd (snd (walk_subs strict fe A1 X d l A0 R0)))).
  { induction l as [|s r IHl]; intros HF A0 R0; cbn [walk_subs].
    - split; apply incl_refl.
    - inversion HF as [|? ? Hs Hr]; subst. destruct (keep_dir A1 X d (fst s)).
      + cbn [snd]. destruct (Hs (path_join d (fst s)) A0 R0) as [H1 H2].
        destruct (IHl Hr (fst (snd (walk_dir strict fe (path_join d (fst s)) (snd s) A0 R0)))
                         (snd (snd (walk_dir strict fe (path_join d (fst s)) (snd s) A0 R0)))) as [H3 H4].
        split; eapply incl_tran; eauto.
      + apply IHl. exact Hr. }
  destruct (G subs IH A1 R1) as [H1 H2]. split.
  - eapply incl_tran; [|exact H1]. apply incl_appl, incl_refl.
  - eapply incl_tran; [|exact H2]. apply incl_appl, incl_refl.
Qed.

(* ------------------------------------------------------------- soundness *)
Section Fixed.
Variable root : str.
Variable T : tree.
Hypothesis Hwf : wf_tree T.

(* the two sets contain the rules of every directory at a prefix of dc *)
Definition Covers (strictly : bool) (dc : list str) (A : list str) (R : list (str * str)) : Prop :=
  forall anc rest files subs, dc = anc ++ rest -> (strictly = true -> rest <> []) ->
    DirAt T anc (Dir files subs) ->
    incl (abs_of (pstr root anc) (dir_entries files)) A /\
    incl (rel_of (pstr root anc) (dir_entries files)) R.

Definition PathOK (dc : list str) : Prop :=
  forall anc n rest, dc = anc ++ n :: rest -> ~ Ignored root T true anc n.

Lemma in_abs_of d es n : In (EAbs n) es -> In (path_join d n) (abs_of d es).
Proof. intros H. unfold abs_of. apply in_flat_map. exists (EAbs n). split; [exact H|left; reflexivity]. Qed.

Lemma in_rel_of d es n : In (ERel n) es -> In (d, n) (rel_of d es).
Proof. intros H. unfold rel_of. apply in_flat_map. exists (ERel n). split; [exact H|left; reflexivity]. Qed.

Lemma abs_of_inv d es s : In s (abs_of d es) -> exists n, In (EAbs n) es /\ s = path_join d n.
Proof.
  unfold abs_of. rewrite in_flat_map. intros [e [He Hs]]. destruct e as [n|n]; cbn in Hs; [|contradiction].
  destruct Hs as [<-|[]]. exists n. auto.
Qed.

Lemma rel_of_inv d es f n : In (f, n) (rel_of d es) -> In (ERel n) es /\ f = d.
Proof.
  unfold rel_of. rewrite in_flat_map. intros [e [He Hs]]. destruct e as [m|m]; cbn in Hs; [contradiction|].
  destruct Hs as [E|[]]. inversion E; subst. auto.
Qed.

Lemma in_expand cur R f n : In (f, n) R -> under cur f = true -> In (path_join cur n) (expand true cur R).
Proof.
  intros H U. unfold expand. apply in_flat_map. exists (f, n). split; [exact H|]. cbn. rewrite U. left. reflexivity.
Qed.

Lemma expand_inv cur R s : In s (expand true cur R) -> exists f n, In (f, n) R /\ under cur f = true /\ s = path_join cur n.
Proof.
  unfold expand. rewrite in_flat_map. intros [[f n] [H Hs]]. cbn in Hs.
  destruct (under cur f) eqn:U; [|contradiction]. destruct Hs as [<-|[]]. exists f, n. auto.
Qed.

Lemma covers_named dc A1 R1 name :
  Covers false dc A1 R1 -> Named root T dc name ->
  ignored_now A1 (expand true (pstr root dc) R1) (path_join (pstr root dc) name) = true.
Proof.
  intros Hc [anc [rest [files [subs [e [E [Hd [He Hm]]]]]]]].
  destruct (Hc anc rest files subs E) as [HA HR]; [discriminate|exact Hd|].
  unfold ignored_now. apply orb_true_iff. destruct e as [n|n].
  - left. apply str_in_In. rewrite <- Hm. apply HA. apply in_abs_of. exact He.
  - right. subst n. apply str_in_In. eapply in_expand.
    + apply HR. apply in_rel_of. exact He.
    + rewrite E. apply under_prefix.
Qed.

Lemma covers_extend dc files subs A R :
  DirAt T dc (Dir files subs) -> Covers true dc A R ->
  Covers false dc (A ++ abs_of (pstr root dc) (dir_entries files)) (R ++ rel_of (pstr root dc) (dir_entries files)).
Proof.
  intros Hd Hc anc rest files' subs' E _ Hd'. destruct rest as [|r0 rest].
  - rewrite app_nil_r in E. subst anc.
    assert (Dir files' subs' = Dir files subs) by (eapply DirAt_det; eauto).
    inversion H; subst. split; apply incl_appr, incl_refl.
  - destruct (Hc anc (r0 :: rest) files' subs' E) as [HA HR]; [discriminate|exact Hd'|].
    split; apply incl_appl; assumption.
Qed.

Lemma covers_child dc n A1 R1 A' R' :
  Covers false dc A1 R1 -> incl A1 A' -> incl R1 R' -> Covers true (dc ++ [n]) A' R'.
Proof.
  intros Hc HA HR anc rest files subs E Hne Hd.
  destruct (prefix_snoc _ _ _ _ E (Hne eq_refl)) as [rest' E'].
  destruct (Hc anc rest' files subs E') as [H1 H2]; [discriminate|exact Hd|].
  split; eapply incl_tran; eauto.
Qed.

Lemma pathok_child dc n : PathOK dc -> ~ Ignored root T true dc n -> PathOK (dc ++ [n]).
Proof.
  intros Hp Hn anc m rest E. apply snoc_split in E as [[-> [-> ->]]|[rest' [-> ->]]]; [exact Hn|].
  eapply Hp. reflexivity.
Qed.

Definition Good (isdir : bool) (p : str) : Prop :=
  exists dp name, p = path_join (pstr root dp) name /\ ItemAt T isdir dp name /\
                  (isdir = false -> is_py name = true) /\ ~ Hidden root T isdir dp name.

Lemma not_hidden dc A1 R1 isdir name :
  Covers false dc A1 R1 -> PathOK dc ->
  ignored_now A1 (expand true (pstr root dc) R1) (path_join (pstr root dc) name) = false ->
  (isdir = true -> str_in name IGNORE_FOLDERS = false) ->
  ~ Hidden root T isdir dc name.
Proof.
  intros Hc Hp Hi Hg [[Hn|[Hd Hin]]|[anc [n [rest [E Hign]]]]].
  - rewrite (covers_named _ _ _ _ Hc Hn) in Hi. discriminate.
  - specialize (Hg Hd). apply str_in_false in Hg. contradiction.
  - exact (Hp anc n rest E Hign).
Qed.

Lemma sound_dir t : forall dc A R,
  DirAt T dc t -> Covers true dc A R -> PathOK dc ->
  forall isdir p, In (isdir, p) (fst (walk_dir true true (pstr root dc) t A R)) -> Good isdir p.
Proof.
  induction t as [files subs IH] using tree_ind'. intros dc A R Hd Hc Hp isdir p Hin.
  rewrite walk_dir_eq in Hin. cbn [fst] in Hin.
  set (d := pstr root dc) in *.
  set (A1 := A ++ abs_of d (dir_entries files)) in *. set (R1 := R ++ rel_of d (dir_entries files)) in *.
  set (X := expand true d R1) in *.
  assert (Hc1 : Covers false dc A1 R1) by (exact (covers_extend dc files subs A R Hd Hc)).
  apply in_app_or in Hin as [Hin|Hin]; [|apply in_app_or in Hin as [Hin|Hin]].
  - (* a file of this directory *)
    unfold files_out in Hin. apply in_flat_map in Hin as [f [Hf Hin]].
    destruct (is_py (fst f) && negb (true && ignored_now A1 X (path_join d (fst f)))) eqn:E; [|contradiction].
    destruct Hin as [Hin|[]]. inversion Hin; subst isdir p. clear Hin.
    apply andb_true_iff in E as [E1 E2]. cbn [andb] in E2. apply negb_true_iff in E2.
    exists dc, (fst f). split; [reflexivity|]. split; [|split].
    + exists files, subs. split; [exact Hd|]. exists (snd f). destruct f; exact Hf.
    + intros _. exact E1.
    + eapply not_hidden; eauto. discriminate.
  - (* a sub-directory of this directory *)
    unfold dirs_out in Hin. apply in_flat_map in Hin as [s [Hs Hin]].
    destruct (keep_dir A1 X d (fst s)) eqn:E; [|contradiction].
    destruct Hin as [Hin|[]]. inversion Hin; subst isdir p. clear Hin.
    unfold keep_dir in E. apply andb_true_iff in E as [E1 E2]. apply negb_true_iff in E1, E2.
    exists dc, (fst s). split; [reflexivity|]. split; [|split].
    + exists files, subs. split; [exact Hd|]. exists (snd s). destruct s; exact Hs.
    + discriminate.
    + eapply not_hidden; eauto.
  - (* below a kept sub-directory *)
    assert (G : forall l, incl l subs -> forall A' R', incl A1 A' -> incl R1 R' ->
                In (isdir, p) (fst (walk_subs true true A1 X d l A' R')) -> Good isdir p).
    { clear Hin. induction l as [|s r IHl]; intros Hl A' R' HA HR Hin; cbn [walk_subs] in Hin; [contradiction|].
      assert (Hs : In s subs) by (apply Hl; left; reflexivity).
      assert (Hr : incl r subs) by (intros x Hx; apply Hl; right; exact Hx).
      destruct (keep_dir A1 X d (fst s)) eqn:E; [|eapply IHl; eauto].
      cbn [fst] in Hin. apply in_app_or in Hin as [Hin|Hin].
      - rewrite Forall_forall in IH. specialize (IH s Hs (dc ++ [fst s]) A' R').
        rewrite pstr_snoc in IH. apply IH in Hin; [exact Hin| | |].
        + eapply DirAt_snoc; [exact Hd|]. destruct s; exact Hs.
        + eapply covers_child; eauto.
        + apply pathok_child; [exact Hp|].
          unfold keep_dir in E. apply andb_true_iff in E as [E1 E2]. apply negb_true_iff in E1, E2.
          intros Hign. apply (not_hidden dc A1 R1 true (fst s) Hc1 Hp E1 (fun _ => E2)). left. exact Hign.
      - destruct (walk_mono true true (snd s) (path_join d (fst s)) A' R') as [M1 M2].
        eapply IHl; [exact Hr| | |exact Hin]; eapply incl_tran; eauto. }
    eapply G; [apply incl_refl|apply incl_refl|apply incl_refl|exact Hin].
Qed.

(* ----------------------------------------------------------- completeness *)
(* everything in the two sets was read from the .gitignore of some directory of T *)
Definition Origin (A : list str) (R : list (str * str)) : Prop :=
  (forall s, In s A -> exists fc files subs n, DirAt T fc (Dir files subs) /\
                        In (EAbs n) (dir_entries files) /\ s = path_join (pstr root fc) n) /\
  (forall f n, In (f, n) R -> exists fc files subs, DirAt T fc (Dir files subs) /\
                        In (ERel n) (dir_entries files) /\ f = pstr root fc).

Lemma origin_extend dc files subs A R :
  DirAt T dc (Dir files subs) -> Origin A R ->
  Origin (A ++ abs_of (pstr root dc) (dir_entries files)) (R ++ rel_of (pstr root dc) (dir_entries files)).
Proof.
  intros Hd [HA HR]. split.
  - intros s Hs. apply in_app_or in Hs as [Hs|Hs]; [apply HA; exact Hs|].
    apply abs_of_inv in Hs as [n [Hn ->]]. exists dc, files, subs, n. auto.
  - intros f n Hs. apply in_app_or in Hs as [Hs|Hs]; [apply HR; exact Hs|].
    apply rel_of_inv in Hs as [Hn ->]. exists dc, files, subs. auto.
Qed.

Lemma origin_dir t : forall dc A R,
  DirAt T dc t -> Origin A R ->
  Origin (fst (snd (walk_dir true true (pstr root dc) t A R))) (snd (snd (walk_dir true true (pstr root dc) t A R))).
Proof.
  induction t as [files subs IH] using tree_ind'. intros dc A R Hd Ho.
  rewrite walk_dir_eq. cbn [snd].
  set (d := pstr root dc) in *.
  set (A1 := A ++ abs_of d (dir_entries files)) in *. set (R1 := R ++ rel_of d (dir_entries files)) in *.
  set (X := expand true d R1) in *.
  assert (Ho1 : Origin A1 R1) by (exact (origin_extend dc files subs A R Hd Ho)).
  assert (G : forall l, incl l subs -> forall A' R', Origin A' R' ->
              Origin (fst (snd (walk_subs true true A1 X d l A' R'))) (snd (snd (walk_subs true true A1 X d l A' R')))).
  { induction l as [|s r IHl]; intros Hl A' R' Ho'; cbn [walk_subs]; [exact Ho'|].
    assert (Hs : In s subs) by (apply Hl; left; reflexivity).
    assert (Hr : incl r subs) by (intros x Hx; apply Hl; right; exact Hx).
    destruct (keep_dir A1 X d (fst s)); [|apply IHl; assumption].
    cbn [snd]. apply IHl; [exact Hr|].
    rewrite Forall_forall in IH. specialize (IH s Hs (dc ++ [fst s]) A' R').
    rewrite pstr_snoc in IH. apply IH; [|exact Ho'].
    eapply DirAt_snoc; [exact Hd|]. destruct s; exact Hs. }
  apply G; [apply incl_refl|exact Ho1].
Qed.

Lemma pass_of_not_named dc A1 R1 name :
  Forall ok_name dc -> ok_name name -> Origin A1 R1 -> ~ Named root T dc name ->
  ignored_now A1 (expand true (pstr root dc) R1) (path_join (pstr root dc) name) = false.
Proof.
  intros Hdc Hname [HA HR] Hn. unfold ignored_now. apply orb_false_iff. split; apply str_in_false; intros Hin.
  - destruct (HA _ Hin) as [fc [files [subs [n [Hd [He E]]]]]].
    destruct (DirAt_wf _ _ _ Hwf Hd) as [_ Hfc].
    symmetry in E. destruct (abs_inv root fc dc name n Hfc Hdc Hname E) as [rest Er].
    apply Hn. exists fc, rest, files, subs, (EAbs n). auto.
  - apply expand_inv in Hin as [f [n [Hf [U E]]]].
    unfold path_join in E. apply app_inv_head in E. inversion E; subst n.
    destruct (HR _ _ Hf) as [fc [files [subs [Hd [He ->]]]]].
    destruct (DirAt_wf _ _ _ Hwf Hd) as [_ Hfc].
    destruct (under_inv root fc dc Hfc Hdc U) as [rest Er].
    apply Hn. exists fc, rest, files, subs, (ERel name). auto.
Qed.

Lemma complete_dir t : forall dc A R,
  DirAt T dc t -> Origin A R ->
  forall isdir dp name, ItemAt t isdir dp name -> (isdir = false -> is_py name = true) ->
    ~ Ignored root T isdir (dc ++ dp) name ->
    (forall a n r, dp = a ++ n :: r -> ~ Ignored root T true (dc ++ a) n) ->
    In (isdir, path_join (pstr root (dc ++ dp)) name) (fst (walk_dir true true (pstr root dc) t A R)).
Proof.
  induction t as [files subs IH] using tree_ind'. intros dc A R Hd Ho isdir dp name Hitem Hpy Hni Hpath.
  rewrite walk_dir_eq. cbn [fst].
  set (d := pstr root dc) in *.
  set (A1 := A ++ abs_of d (dir_entries files)) in *. set (R1 := R ++ rel_of d (dir_entries files)) in *.
  set (X := expand true d R1) in *.
  assert (Ho1 : Origin A1 R1) by (exact (origin_extend dc files subs A R Hd Ho)).
  destruct (DirAt_wf _ _ _ Hwf Hd) as [Hwt Hdc].
  destruct Hitem as [files' [subs' [Hd' Hi]]].
  inversion Hd' as [t0 E0 E1 | files0 subs0 n s p t0 Hin Hd'' E0 E1 E2]; subst.
  - (* the item is an entry of this directory *)
    rewrite app_nil_r in *.
    assert (Hname : ok_name name).
    { inversion Hwt as [? ? Hf Hs _ _]; subst. rewrite Forall_forall in Hf, Hs.
      destruct isdir; destruct Hi as [x Hx]; [apply (Hs _ Hx)|apply (Hf _ Hx)]. }
    assert (Hpass : ignored_now A1 X (path_join d name) = false).
    { apply pass_of_not_named; auto. intros Hn. apply Hni. left. exact Hn. }
    destruct isdir.
    + apply in_or_app. right. apply in_or_app. left.
      destruct Hi as [s Hs]. unfold dirs_out. apply in_flat_map. exists (name, s). split; [exact Hs|].
      cbn [fst]. unfold keep_dir. rewrite Hpass. cbn [negb andb].
      destruct (str_in name IGNORE_FOLDERS) eqn:Eg.
      * exfalso. apply Hni. right. split; [reflexivity|]. apply str_in_In. exact Eg.
      * left. reflexivity.
    + apply in_or_app. left.
      destruct Hi as [c Hc]. unfold files_out. apply in_flat_map. exists (name, c). split; [exact Hc|].
      cbn [fst]. rewrite (Hpy eq_refl), Hpass. left. reflexivity.
  - (* the item lies below the sub-directory n *)
    apply in_or_app. right. apply in_or_app. right.
    assert (Hn : ok_name n).
    { inversion Hwt as [? ? _ Hs _ _]; subst. rewrite Forall_forall in Hs. apply (Hs _ Hin). }
    assert (Hkeep : keep_dir A1 X d n = true).
    { unfold keep_dir.
      assert (Hnn : ~ Ignored root T true dc n).
      { specialize (Hpath [] n p eq_refl). rewrite app_nil_r in Hpath. exact Hpath. }
      assert (Hp0 : ignored_now A1 X (path_join d n) = false).
      { apply pass_of_not_named; auto. intros Hx. apply Hnn. left. exact Hx. }
      rewrite Hp0. cbn [negb andb]. destruct (str_in n IGNORE_FOLDERS) eqn:Eg; [|reflexivity].
      exfalso. apply Hnn. right. split; [reflexivity|]. apply str_in_In. exact Eg. }
    assert (G : forall l, incl l subs -> In (n, s) l -> forall A' R', Origin A' R' ->
                In (isdir, path_join (pstr root (dc ++ n :: p)) name) (fst (walk_subs true true A1 X d l A' R'))).
    { induction l as [|s0 r IHl]; intros Hl Hins A' R' Ho'; [contradiction|].
      assert (Hs0 : In s0 subs) by (apply Hl; left; reflexivity).
      assert (Hr : incl r subs) by (intros x Hx; apply Hl; right; exact Hx).
      cbn [walk_subs]. destruct Hins as [->|Hins].
      - cbn [fst snd]. rewrite Hkeep. cbn [fst]. apply in_or_app. left.
        rewrite Forall_forall in IH. specialize (IH (n, s) Hs0 (dc ++ [n]) A' R'). cbn [snd] in IH.
        rewrite pstr_snoc in IH.
        replace (dc ++ n :: p) with ((dc ++ [n]) ++ p) by (rewrite <- app_assoc; reflexivity).
        apply IH; auto.
        + eapply DirAt_snoc; eauto.
        + exists files', subs'. auto.
        + rewrite <- app_assoc. exact Hni.
        + intros a m r0 E. rewrite <- app_assoc. cbn [app]. apply (Hpath (n :: a) m r0). rewrite E. reflexivity.
      - destruct (keep_dir A1 X d (fst s0)) eqn:Ek; [|apply IHl; auto].
        cbn [fst]. apply in_or_app. right. apply IHl; auto.
        replace (path_join d (fst s0)) with (pstr root (dc ++ [fst s0])) by apply pstr_snoc.
        apply origin_dir; [|exact Ho'].
        eapply DirAt_snoc; [exact Hd|]. destruct s0; exact Hs0. }
    apply G; auto. apply incl_refl.
Qed.

End Fixed.

Lemma pstr_nil root : pstr root [] = root.
Proof. unfold pstr. cbn. apply app_nil_r. Qed.

Lemma walk_sound_lemma root T isdir p :
  wf_tree T -> In (isdir, p) (walk root T) ->
  exists dp name, p = path_join (pstr root dp) name /\ ItemAt T isdir dp name /\
                  (isdir = false -> is_py name = true) /\ ~ Hidden root T isdir dp name.
Proof.
  intros Hwf Hin. unfold walk in Hin. rewrite <- (pstr_nil root) in Hin at 1.
  refine (sound_dir root T Hwf T [] [] [] (DirAt_here T) _ _ isdir p Hin).
  - intros anc rest files subs E Hne _. exfalso. destruct anc; [|discriminate].
    cbn in E. subst rest. apply (Hne eq_refl). reflexivity.
  - intros anc n rest E. destruct anc; discriminate.
Qed.

Lemma walk_complete_lemma root T :
  wf_tree T -> forall isdir dp name,
  ItemAt T isdir dp name -> (isdir = false -> is_py name = true) ->
  ~ Hidden root T isdir dp name ->
  In (isdir, path_join (pstr root dp) name) (walk root T).
Proof.
  intros Hwf isdir dp name Hi Hpy Hh. unfold walk.
  assert (Ho : Origin root T [] []) by (split; intros; contradiction).
  pose proof (complete_dir root T Hwf T [] [] [] (DirAt_here T) Ho isdir dp name Hi Hpy) as H.
  cbn [app] in H. rewrite pstr_nil in H. apply H.
  - intros Hx. apply Hh. left. exact Hx.
  - intros a n r E Hx. apply Hh. right. exists a, n, r. auto.
Qed.

(* ----------------------------------------------- the code before the fixes *)
Lemma item_in_In a l : item_in a l = true <-> In a l.
Proof.
  unfold item_in. rewrite existsb_exists. split.
  - intros [x [Hx E]]. unfold item_eqb in E. apply andb_true_iff in E as [E1 E2].
    apply eqb_prop in E1. apply str_eqb_eq in E2. destruct a, x; cbn in *; subst. exact Hx.
  - intros H. exists a. split; [exact H|]. unfold item_eqb. rewrite eqb_reflx, str_eqb_refl. reflexivity.
Qed.

Ltac not_in_tac := cbn; let H := fresh in intros H; repeat (destruct H as [H|H]; [discriminate H|]); exact H.
Ltac ok_name_tac := split; [discriminate | not_in_tac].
Ltac wf_tac := repeat match goal with
  | |- wf_tree _ => constructor
  | |- Forall _ [] => constructor
  | |- Forall _ (_ :: _) => constructor
  | |- NoDup [] => constructor
  | |- NoDup (_ :: _) => constructor
  | |- ok_name _ => ok_name_tac
  | |- ~ In _ _ => not_in_tac
  | _ => progress cbn [fst snd map]
  end.

(* /p/a/.gitignore = "foo\n", /p/ab/foo/m.py *)
Definition ex_root : str := [47;112]%N.
Definition ex_tree1 : tree :=
  Dir [] [ ([97]%N, Dir [(GITIGNORE, [102;111;111;10]%N)] []);
           ([97;98]%N, Dir [] [ ([102;111;111]%N, Dir [([109;46;112;121]%N, [])] []) ]) ].

Lemma ex_tree1_wf : wf_tree ex_tree1.
Proof.
  unfold ex_tree1. wf_tac.
Qed.

Lemma old_prefix_refuted_lemma :
  exists root T isdir dp name,
    wf_tree T /\ ItemAt T isdir dp name /\ (isdir = false -> is_py name = true) /\
    ~ Hidden root T isdir dp name /\
    ~ In (isdir, path_join (pstr root dp) name) (walk_old_prefix root T).
Proof.
  assert (Hin : In (false, [47;112;47;97;98;47;102;111;111;47;109;46;112;121]%N) (walk ex_root ex_tree1)).
  { apply item_in_In. vm_compute. reflexivity. }
  destruct (walk_sound_lemma _ _ _ _ ex_tree1_wf Hin) as [dp [name [E [Hi [Hpy Hh]]]]].
  exists ex_root, ex_tree1, false, dp, name.
  split; [exact ex_tree1_wf|]. split; [exact Hi|]. split; [exact Hpy|]. split; [exact Hh|].
  rewrite <- E. intros H. apply item_in_In in H. vm_compute in H. discriminate.
Qed.

(* /p/.gitignore = "/gen.py\n", /p/gen.py *)
Definition ex_tree2 : tree :=
  Dir [ (GITIGNORE, [47;103;101;110;46;112;121;10]%N); ([103;101;110;46;112;121]%N, []) ] [].

Lemma ex_tree2_wf : wf_tree ex_tree2.
Proof. unfold ex_tree2. wf_tac. Qed.

Lemma old_files_refuted_lemma :
  exists root T p dp name,
    wf_tree T /\ In (false, p) (walk_old_files root T) /\ p = path_join (pstr root dp) name /\
    ItemAt T false dp name /\ Hidden root T false dp name /\ ~ In (false, p) (walk root T).
Proof.
  exists ex_root, ex_tree2, [47;112;47;103;101;110;46;112;121]%N, [], [103;101;110;46;112;121]%N.
  split; [exact ex_tree2_wf|]. split; [apply item_in_In; vm_compute; reflexivity|].
  split; [vm_compute; reflexivity|]. split; [|split].
  - eexists _, _. split; [apply DirAt_here|]. eexists. right. left. reflexivity.
  - left. left. exists [], [], [ (GITIGNORE, [47;103;101;110;46;112;121;10]%N); ([103;101;110;46;112;121]%N, []) ], [],
      (EAbs [103;101;110;46;112;121]%N).
    split; [reflexivity|]. split; [apply DirAt_here|]. split; [vm_compute; left; reflexivity|reflexivity].
  - intros H. apply item_in_In in H. vm_compute in H. discriminate.
Qed.

(* ------------------------------------------------------------------ limits *)
Lemma scan_complete {A} (check : A -> bool) pl ol : forall l cnt parsed,
  (cnt + N.of_nat (length l) <= ol)%N -> (parsed + N.of_nat (length (filter check l)) <= pl)%N ->
  scan check pl ol l cnt parsed = filter check l.
Proof.
  induction l as [|x r IH]; intros cnt parsed Ho Hp; [reflexivity|].
  cbn [scan filter] in *. cbn [length] in Ho. destruct (check x) eqn:E.
  - cbn [length] in Hp. f_equal. destruct (N.leb pl (N.succ parsed)) eqn:E1.
    + apply N.leb_le in E1. destruct (filter check r); [reflexivity|]. cbn [length] in Hp. lia.
    + apply N.leb_gt in E1. destruct (N.leb ol (N.succ cnt)) eqn:E2.
      * apply N.leb_le in E2. destruct r; [reflexivity|]. cbn [length] in Ho. lia.
      * apply N.leb_gt in E2. apply IH; lia.
  - destruct (N.leb ol (N.succ cnt)) eqn:E2.
    + apply N.leb_le in E2. destruct r; [reflexivity|]. cbn [length] in Ho; lia.
    + apply N.leb_gt in E2. apply IH; lia.
Qed.

Lemma scan_bounded {A} (check : A -> bool) pl ol : forall l cnt parsed,
  (parsed < pl)%N -> (N.of_nat (length (scan check pl ol l cnt parsed)) + parsed <= pl)%N.
Proof.
  induction l as [|x r IH]; intros cnt parsed Hp; cbn [scan]; [cbn [length]; lia|].
  destruct (check x).
  - cbn [length]. destruct (N.leb pl (N.succ parsed)) eqn:E1.
    + cbn [length]. lia.
    + apply N.leb_gt in E1. destruct (N.leb ol (N.succ cnt)); [cbn [length]; lia|].
      specialize (IH (N.succ cnt) (N.succ parsed) E1). lia.
  - destruct (N.leb ol (N.succ cnt)); [cbn [length]; lia|]. apply IH. exact Hp.
Qed.

Lemma scan_sub {A} (check : A -> bool) pl ol : forall l cnt parsed x,
  In x (scan check pl ol l cnt parsed) -> In x l /\ check x = true.
Proof.
  induction l as [|y r IH]; intros cnt parsed x H; cbn [scan] in H; [contradiction|].
  destruct (check y) eqn:E.
  - destruct H as [<-|H]; [split; [left; reflexivity|exact E]|].
    destruct (N.leb pl (N.succ parsed)); [contradiction|].
    destruct (N.leb ol (N.succ cnt)); [contradiction|].
    apply IH in H as [H1 H2]. split; [right; exact H1|exact H2].
  - destruct (N.leb ol (N.succ cnt)); [contradiction|].
    apply IH in H as [H1 H2]. split; [right; exact H1|exact H2].
Qed.

Lemma limits_complete_lemma {A} (check : A -> bool) l :
  (N.of_nat (length l) <= 2000)%N -> (N.of_nat (length (filter check l)) <= 30)%N ->
  search_in_file_ios check l = filter check l.
Proof. intros H1 H2. unfold search_in_file_ios. apply scan_complete; unfold OPENED_FILE_LIMIT, PARSED_FILE_LIMIT; lia. Qed.

Lemma limits_bounded_lemma {A} (check : A -> bool) l :
  (N.of_nat (length (search_in_file_ios check l)) <= 30)%N /\
  (forall x, In x (search_in_file_ios check l) -> In x l /\ check x = true).
Proof.
  unfold search_in_file_ios. split.
  - pose proof (scan_bounded check PARSED_FILE_LIMIT OPENED_FILE_LIMIT l 0 0) as H.
    unfold PARSED_FILE_LIMIT in *. lia.
  - apply scan_sub.
Qed.

(* ------------------------------------------------------------------ search *)
Lemma search_loop_filter complete ty ll names :
  search_loop complete ty ll names = filter (fun n => name_matches complete ll n && type_ok ty n) names.
Proof.
  induction names as [|n r IH]; [reflexivity|]. cbn [search_loop filter]. rewrite IH.
  destruct (name_matches complete ll n); cbn [andb]; [|reflexivity].
  destruct (type_ok ty n); reflexivity.
Qed.

Lemma script_search_filter complete s names ty w :
  split_search_string s = (ty, [w]) ->
  script_search complete s names =
  Some (filter (fun n => name_matches complete (lower w) n && type_ok ty n) names).
Proof. intros E. unfold script_search. rewrite E, search_loop_filter. reflexivity. Qed.

(* ------------------------------------------------------------------ dedupe *)

Lemma node_seen_cons i y nodes :
  node_seen (Some i) (y :: nodes) =
  (match y with Some j => N.eqb i j | None => false end) || node_seen (Some i) nodes.
Proof. reflexivity. Qed.

Lemma dedupe_sub : forall l nodes mods x, In x (dedupe_go l nodes mods) -> In x l.
Proof.
  induction l as [|y r IH]; intros nodes mods x H; cbn [dedupe_go] in H; [contradiction|].
  destruct (node_seen (d_node y) nodes); [right; eapply IH; eauto|].
  destruct (if d_is_module y then d_mpath y else None) as [p|].
  - destruct (str_in p mods); [right; eapply IH; eauto|].
    destruct H as [<-|H]; [left; reflexivity|right; eapply IH; eauto].
  - destruct H as [<-|H]; [left; reflexivity|right; eapply IH; eauto].
Qed.

Lemma dedupe_nodes : forall l nodes mods,
  NoDup (nodes_of (dedupe_go l nodes mods)) /\
  forall i, In i (nodes_of (dedupe_go l nodes mods)) -> node_seen (Some i) nodes = false.
Proof.
  induction l as [|y r IH]; intros nodes mods; cbn [dedupe_go]; [split; [constructor|intros i []]|].
  destruct (node_seen (d_node y) nodes) eqn:Es; [apply IH|].
  assert (K : forall mods', NoDup (nodes_of (y :: dedupe_go r (d_node y :: nodes) mods')) /\
            forall i, In i (nodes_of (y :: dedupe_go r (d_node y :: nodes) mods')) -> node_seen (Some i) nodes = false).
  { intros mods'. destruct (IH (d_node y :: nodes) mods') as [H1 H2].
    unfold nodes_of in *. cbn [flat_map]. destruct (d_node y) as [j|] eqn:Ey; cbn [app].
    - split.
      + constructor; [|exact H1]. intros Hin. specialize (H2 j Hin). rewrite node_seen_cons, N.eqb_refl in H2. discriminate.
      + intros i [<-|Hin]; [exact Es|]. specialize (H2 i Hin). rewrite node_seen_cons in H2.
        apply orb_false_iff in H2 as [_ H2]. exact H2.
    - split; [exact H1|]. intros i Hin. specialize (H2 i Hin). rewrite node_seen_cons in H2. exact H2. }
  destruct (if d_is_module y then d_mpath y else None) as [p|]; [|apply K].
  destruct (str_in p mods); [apply IH|apply K].
Qed.

Lemma dedupe_mods : forall l nodes mods,
  NoDup (mods_of (dedupe_go l nodes mods)) /\
  forall p, In p (mods_of (dedupe_go l nodes mods)) -> str_in p mods = false.
Proof.
  induction l as [|y r IH]; intros nodes mods; cbn [dedupe_go]; [split; [constructor|intros i []]|].
  destruct (node_seen (d_node y) nodes) eqn:Es; [apply IH|].
  destruct (if d_is_module y then d_mpath y else None) as [p|] eqn:Ek.
  - destruct (str_in p mods) eqn:Ep; [apply IH|].
    destruct (IH (d_node y :: nodes) (p :: mods)) as [H1 H2].
    unfold mods_of in *. cbn [flat_map]. unfold mod_key at 1. unfold mod_key at 2. rewrite Ek. cbn [app]. split.
    + constructor; [|exact H1]. intros Hin. specialize (H2 p Hin). cbn in H2. rewrite str_eqb_refl in H2. discriminate.
    + intros q [<-|Hin]; [exact Ep|]. specialize (H2 q Hin). cbn in H2. apply orb_false_iff in H2 as [_ H2]. exact H2.
  - destruct (IH (d_node y :: nodes) mods) as [H1 H2].
    unfold mods_of in *. cbn [flat_map]. unfold mod_key at 1. unfold mod_key at 2. rewrite Ek. cbn [app]. split; assumption.
Qed.

(* nothing but duplicates is dropped: every input either is kept, or repeats the tree
   name / the module path of something that was seen before it *)
Lemma dedupe_complete : forall l nodes mods x, In x l ->
  In x (dedupe_go l nodes mods) \/
  (exists i, d_node x = Some i /\ (In i (nodes_of (dedupe_go l nodes mods)) \/ node_seen (Some i) nodes = true)) \/
  (exists p, mod_key x = Some p /\ (In p (mods_of (dedupe_go l nodes mods)) \/ str_in p mods = true)).
Proof.
  induction l as [|y r IH]; intros nodes mods x Hx; [contradiction|]. cbn [dedupe_go].
  destruct Hx as [->|Hx].
  - destruct (node_seen (d_node x) nodes) eqn:Es.
    + right. left. destruct (d_node x) as [i|]; [|discriminate]. exists i. auto.
    + fold (mod_key x). destruct (mod_key x) as [p|] eqn:Ek.
      * destruct (str_in p mods) eqn:Ep; [right; right; exists p; auto|left; left; reflexivity].
      * left. left. reflexivity.
  - destruct (node_seen (d_node y) nodes) eqn:Es; [apply IH; exact Hx|].
    assert (K : forall mods', (forall p, str_in p mods' = true -> str_in p mods = true \/ mod_key y = Some p /\ mods' = p :: mods) ->
              In x (y :: dedupe_go r (d_node y :: nodes) mods') \/
              (exists i, d_node x = Some i /\ (In i (nodes_of (y :: dedupe_go r (d_node y :: nodes) mods')) \/ node_seen (Some i) nodes = true)) \/
              (exists p, mod_key x = Some p /\ (In p (mods_of (y :: dedupe_go r (d_node y :: nodes) mods')) \/ str_in p mods = true))).
    { intros mods' Hm. destruct (IH (d_node y :: nodes) mods' x Hx) as [H|[[i [Hi [H|H]]]|[p [Hp [H|H]]]]].
      - left. right. exact H.
      - right. left. exists i. split; [exact Hi|]. left. unfold nodes_of. cbn [flat_map]. apply in_or_app. right. exact H.
      - right. left. exists i. split; [exact Hi|]. rewrite node_seen_cons in H. apply orb_true_iff in H as [H|H]; [|auto].
        left. unfold nodes_of. cbn [flat_map]. apply in_or_app. left.
        destruct (d_node y) as [j|]; [|discriminate]. apply N.eqb_eq in H. subst. left. reflexivity.
      - right. right. exists p. split; [exact Hp|]. left. unfold mods_of. cbn [flat_map]. apply in_or_app. right. exact H.
      - right. right. exists p. split; [exact Hp|]. destruct (Hm p H) as [H'|[H1 H2]]; [auto|].
        left. unfold mods_of. cbn [flat_map]. apply in_or_app. left. rewrite H1. left. reflexivity. }
    fold (mod_key y). destruct (mod_key y) as [q|] eqn:Ek.
    + destruct (str_in q mods) eqn:Eq; [apply IH; exact Hx|].
      apply K. intros p Hp. cbn in Hp. apply orb_true_iff in Hp as [Hp|Hp]; [|auto].
      apply str_eqb_eq in Hp. subst. right. auto.
    + apply K. intros p Hp. auto.
Qed.

Lemma dedupe_lemma l :
  (forall x, In x (dedupe l) -> In x l) /\
  NoDup (nodes_of (dedupe l)) /\ NoDup (mods_of (dedupe l)) /\
  (forall x, In x l ->
     In x (dedupe l) \/
     (exists i, d_node x = Some i /\ In i (nodes_of (dedupe l))) \/
     (exists p, mod_key x = Some p /\ In p (mods_of (dedupe l)))).
Proof.
  unfold dedupe. split; [apply dedupe_sub|]. split; [apply dedupe_nodes|]. split; [apply dedupe_mods|].
  intros x Hx. destruct (dedupe_complete l [] [] x Hx) as [H|[[i [Hi [H|H]]]|[p [Hp [H|H]]]]]; auto.
  - right. left. exists i. auto.
  - discriminate.
  - right. right. exists p. auto.
  - discriminate.
Qed.
