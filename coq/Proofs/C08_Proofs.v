(* C08 proofs: cache coherence across editing histories. *)
From Coq Require Import List NArith Bool Lia.
From JV Require Import Model.C08_History.
Import ListNotations.
Local Open Scope N_scope.

(* ------------------------------------------------------------------ association lists *)
Lemma nlookup_nremove_eq : forall A k (l : list (N * A)), nlookup k (nremove k l) = None.
Proof.
  induction l as [|[k' v] r IH]; cbn; auto.
  destruct (N.eqb k k') eqn:E; auto. cbn. rewrite E. auto.
Qed.

Lemma nlookup_nremove_neq : forall A k k' (l : list (N * A)),
  k <> k' -> nlookup k (nremove k' l) = nlookup k l.
Proof.
  induction l as [|[k2 v] r IH]; cbn; intros; auto.
  destruct (N.eqb k' k2) eqn:E.
  - apply N.eqb_eq in E. subst. destruct (N.eqb k k2) eqn:E2.
    + apply N.eqb_eq in E2. congruence.
    + auto.
  - cbn. destruct (N.eqb k k2); auto.
Qed.

Lemma nlookup_nremove_some : forall A k k' (l : list (N * A)) v,
  nlookup k (nremove k' l) = Some v -> k <> k' /\ nlookup k l = Some v.
Proof.
  intros. destruct (N.eq_dec k k') as [->|Hn].
  - rewrite nlookup_nremove_eq in H. discriminate.
  - rewrite nlookup_nremove_neq in H by auto. auto.
Qed.

Lemma nlookup_nset_eq : forall A k (v : A) l, nlookup k (nset k v l) = Some v.
Proof. intros. unfold nset. cbn. rewrite N.eqb_refl. auto. Qed.

Lemma nlookup_nset_neq : forall A k k' (v : A) l, k <> k' -> nlookup k (nset k' v l) = nlookup k l.
Proof.
  intros. unfold nset. cbn. destruct (N.eqb k k') eqn:E.
  - apply N.eqb_eq in E. congruence.
  - apply nlookup_nremove_neq; auto.
Qed.

Lemma dkey_eqb_eq : forall x y, dkey_eqb x y = true <-> x = y.
Proof.
  intros [[a b] c] [[a' b'] c']. cbn. rewrite !andb_true_iff, !N.eqb_eq.
  split.
  - intros [[-> ->] ->]. auto.
  - intros E. inversion E. auto.
Qed.

Lemma query_eqb_eq : forall p q, query_eqb p q = true -> p = q.
Proof.
  intros [c a|a b] [c' a'|a' b']; cbn; try discriminate;
    rewrite andb_true_iff, !N.eqb_eq; intros [-> ->]; auto.
Qed.

Lemma last_snoc : forall A (l : list A) x d, last (l ++ [x]) d = x.
Proof.
  induction l as [|y r IH]; cbn; intros; auto.
  destruct (r ++ [x]) eqn:E.
  - destruct r; discriminate.
  - rewrite <- E. apply IH.
Qed.

Lemma sig_get_key : forall D cfg k a b (l : list (sentry D)) e,
  sig_get D cfg k a b l = Some e -> In e l /\ sig_key_eqb D cfg k a b e = true.
Proof.
  induction l as [|x r IH]; cbn; intros e H; [discriminate|].
  destruct (sig_key_eqb D cfg k a b x) eqn:E.
  - inversion H. subst x. auto.
  - apply IH in H. tauto.
Qed.

Section Proofs.
  Variables text tree D : Type.
  Variable text_eqb : text -> text -> bool.
  Variable parse : text -> tree.
  Variable reparse : tree -> text -> text -> tree.
  Variable derive : N -> tree -> N -> D.
  Variable sig_of : tree -> N -> N -> D.
  Variable cfg : config.

  Notation state := (state text tree D).
  Notation op := (@op text).
  Notation step := (step text tree D text_eqb parse reparse derive sig_of cfg).
  Notation run := (run text tree D text_eqb parse reparse derive sig_of cfg).
  Notation final := (final text tree D text_eqb parse reparse derive sig_of cfg).
  Notation events := (events text tree D text_eqb parse reparse derive sig_of cfg).
  Notation answer := (answer text tree D text_eqb parse reparse derive sig_of cfg).
  Notation do_edit := (do_edit text tree D text_eqb parse reparse cfg).
  Notation do_query := (do_query text tree D derive sig_of cfg).
  Notation lookup_level := (lookup_level text tree D derive sig_of cfg).
  Notation eval_pure := (eval_pure tree D derive sig_of).
  Notation init := (init text tree D).

  (* ---------------------------------------------------------------- run over append *)
  Lemma run_app : forall h1 h2 s,
    run s (h1 ++ h2) =
    (fst (run (fst (run s h1)) h2), snd (run s h1) ++ snd (run (fst (run s h1)) h2)).
  Proof.
    induction h1 as [|o r IH]; intros; cbn [app C08_History.run].
    - cbn. destruct (run s h2); auto.
    - destruct (step s o) as [s1 e]. rewrite IH.
      destruct (run s1 r) as [s2 es]. cbn. auto.
  Qed.

  Lemma final_app : forall h1 h2, final (h1 ++ h2) = fst (run (final h1) h2).
  Proof. intros. unfold C08_History.final. rewrite run_app. auto. Qed.

  Lemma final_snoc : forall h o, final (h ++ [o]) = fst (step (final h) o).
  Proof.
    intros. rewrite final_app. cbn. destruct (step (final h) o). auto.
  Qed.

  Lemma answer_snoc : forall h o,
    answer (h ++ [o]) = match snd (step (final h) o) with EvAns _ _ a => a | _ => None end.
  Proof.
    intros. unfold C08_History.answer, C08_History.events. rewrite run_app. cbn [snd].
    cbn [C08_History.run]. unfold C08_History.final.
    destruct (step (fst (run init h)) o) as [s1 e]. cbn [snd fst].
    rewrite last_snoc. auto.
  Qed.

  (* ---------------------------------------------------------------- the coherence invariant *)
  Record inv (s : state) : Prop := {
    inv_ver_lt : forall k e, nlookup k (st_pcache _ _ _ s) = Some e -> pe_version _ _ e < st_next _ _ _ s;
    inv_ver_inj : forall k1 k2 e1 e2,
        nlookup k1 (st_pcache _ _ _ s) = Some e1 -> nlookup k2 (st_pcache _ _ _ s) = Some e2 ->
        pe_version _ _ e1 = pe_version _ _ e2 -> k1 = k2;
    inv_d_lt : forall c v a d, dlookup (c, v, a) (st_dcache _ _ _ s) = Some d -> v < st_next _ _ _ s;
    inv_d_ok : forall c a d k e,
        nlookup k (st_pcache _ _ _ s) = Some e ->
        dlookup (c, pe_version _ _ e, a) (st_dcache _ _ _ s) = Some d ->
        d = derive c (pe_tree _ _ e) a;
    inv_cur : forall k tr e,
        st_cur _ _ _ s = Some (k, tr) -> nlookup k (st_pcache _ _ _ s) = Some e ->
        pe_tree _ _ e = tr
  }.

  Lemma inv_init : inv init.
  Proof. constructor; cbn; intros; discriminate. Qed.

  Hypothesis Hkey : cf_keying cfg = ByVersion.

  Lemma dkey_version : forall k v, dkey cfg k v = v.
  Proof. intros. unfold dkey. rewrite Hkey. auto. Qed.

  Lemma inv_install : forall s k t tr,
    inv s ->
    inv (mkSt _ _ _ (st_next _ _ _ s + 1)
              (nset k (mkP _ _ (st_next _ _ _ s) t tr) (st_pcache _ _ _ s))
              (st_dcache _ _ _ s) (st_clock _ _ _ s)
              (filter (fun e => negb (N.ltb (se_expiry _ e) (st_clock _ _ _ s))) (st_sig _ _ _ s))
              (Some (k, tr))
              (match cf_memo cfg with MemoPerScript => [] | MemoShared => st_memo _ _ _ s end)).
  Proof.
    intros s k t tr I. constructor; cbn [st_next st_pcache st_dcache st_cur].
    - intros k' e H. destruct (N.eq_dec k' k) as [->|Hn].
      + rewrite nlookup_nset_eq in H. inversion H. cbn. lia.
      + rewrite nlookup_nset_neq in H by auto. apply (inv_ver_lt _ I) in H. lia.
    - intros k1 k2 e1 e2 H1 H2 E.
      destruct (N.eq_dec k1 k) as [->|Hn1]; destruct (N.eq_dec k2 k) as [->|Hn2]; auto.
      + rewrite nlookup_nset_eq in H1. inversion H1. subst e1. cbn in E.
        rewrite nlookup_nset_neq in H2 by auto. apply (inv_ver_lt _ I) in H2. lia.
      + rewrite nlookup_nset_eq in H2. inversion H2. subst e2. cbn in E.
        rewrite nlookup_nset_neq in H1 by auto. apply (inv_ver_lt _ I) in H1. lia.
      + rewrite nlookup_nset_neq in H1, H2 by auto. eapply (inv_ver_inj _ I); eauto.
    - intros c v a d H. apply (inv_d_lt _ I) in H. lia.
    - intros c a d k' e H Hd. destruct (N.eq_dec k' k) as [->|Hn].
      + rewrite nlookup_nset_eq in H. inversion H. subst e. cbn in Hd.
        apply (inv_d_lt _ I) in Hd. lia.
      + rewrite nlookup_nset_neq in H by auto. eapply (inv_d_ok _ I); eauto.
    - intros k' tr' e Hc H. inversion Hc. subst k' tr'.
      rewrite nlookup_nset_eq in H. inversion H. auto.
  Qed.

  Lemma inv_edit : forall s k t, inv s -> inv (fst (do_edit s k t)).
  Proof.
    intros s k t I. unfold C08_History.do_edit.
    destruct (nlookup k (st_pcache _ _ _ s)) as [e|] eqn:L.
    - destruct (text_eqb (pe_text _ _ e) t) eqn:T.
      + cbn [fst]. constructor; cbn [st_next st_pcache st_dcache st_cur].
        * apply (inv_ver_lt _ I).
        * apply (inv_ver_inj _ I).
        * apply (inv_d_lt _ I).
        * apply (inv_d_ok _ I).
        * intros k' tr e' Hc H. inversion Hc. subst. congruence.
      + cbn [fst]. apply inv_install; auto.
    - cbn [fst]. apply inv_install; auto.
  Qed.

  Lemma lookup_level_cur_memo : forall s k tr q s1 hit ans,
    lookup_level s k tr q = (s1, hit, ans) ->
    st_cur _ _ _ s1 = st_cur _ _ _ s /\ st_memo _ _ _ s1 = st_memo _ _ _ s /\
    st_pcache _ _ _ s1 = st_pcache _ _ _ s /\ st_next _ _ _ s1 = st_next _ _ _ s /\
    st_clock _ _ _ s1 = st_clock _ _ _ s.
  Proof.
    intros s k tr q s1 hit ans H. unfold C08_History.lookup_level in H.
    destruct q as [c a|a b].
    - destruct (N.eqb k 0). { inversion H; subst; auto. }
      destruct (nlookup k (st_pcache _ _ _ s)) as [e|]. 2:{ inversion H; subst; auto. }
      destruct (dlookup _ _); inversion H; subst; cbn; auto.
    - destruct (N.eqb k 0). { inversion H; subst; auto. }
      destruct (sig_find _ _ _ _ _ _ _ _); inversion H; subst; cbn; auto.
  Qed.

  Lemma inv_lookup_level : forall s k tr q s1 hit ans,
    inv s -> st_cur _ _ _ s = Some (k, tr) ->
    lookup_level s k tr q = (s1, hit, ans) -> inv s1.
  Proof.
    intros s k tr q s1 hit ans I C H. unfold C08_History.lookup_level in H.
    destruct q as [c a|a b].
    - destruct (N.eqb k 0). { inversion H; subst; auto. }
      destruct (nlookup k (st_pcache _ _ _ s)) as [e|] eqn:L. 2:{ inversion H; subst; auto. }
      rewrite dkey_version in H.
      destruct (dlookup (c, pe_version _ _ e, a) (st_dcache _ _ _ s)) eqn:DL.
      { inversion H; subst; auto. }
      inversion H; subst; clear H.
      constructor; cbn [st_next st_pcache st_dcache st_cur].
      + apply (inv_ver_lt _ I).
      + apply (inv_ver_inj _ I).
      + intros c' v a' d Hd. cbn in Hd.
        destruct (N.eqb c' c && N.eqb v (pe_version _ _ e) && N.eqb a' a) eqn:E.
        * rewrite !andb_true_iff, !N.eqb_eq in E. destruct E as [[_ ->] _].
          apply (inv_ver_lt _ I) in L. auto.
        * apply (inv_d_lt _ I) in Hd. auto.
      + intros c' a' d k' e' L' Hd. cbn in Hd.
        destruct (N.eqb c' c && N.eqb (pe_version _ _ e') (pe_version _ _ e) && N.eqb a' a) eqn:E.
        * rewrite !andb_true_iff, !N.eqb_eq in E. destruct E as [[-> Ev] ->].
          inversion Hd. subst d.
          assert (k' = k) by (eapply (inv_ver_inj _ I); eauto). subst k'.
          rewrite L in L'. inversion L'. subst e'.
          rewrite (inv_cur _ I _ _ _ C L). auto.
        * eapply (inv_d_ok _ I); eauto.
      + apply (inv_cur _ I).
    - destruct (N.eqb k 0). { inversion H; subst; auto. }
      destruct (sig_find _ _ _ _ _ _ _ _). { inversion H; subst; auto. }
      inversion H; subst; clear H.
      constructor; cbn [st_next st_pcache st_dcache st_cur].
      + apply (inv_ver_lt _ I).
      + apply (inv_ver_inj _ I).
      + apply (inv_d_lt _ I).
      + apply (inv_d_ok _ I).
      + apply (inv_cur _ I).
  Qed.

  Lemma inv_add_memo : forall s q d, inv s -> inv (add_memo _ _ _ s q d).
  Proof.
    intros s q d I. constructor; cbn [add_memo st_next st_pcache st_dcache st_cur].
    - apply (inv_ver_lt _ I).
    - apply (inv_ver_inj _ I).
    - apply (inv_d_lt _ I).
    - apply (inv_d_ok _ I).
    - apply (inv_cur _ I).
  Qed.

  Lemma inv_query : forall s m q, inv s -> inv (fst (do_query s m q)).
  Proof.
    intros s m q I. unfold C08_History.do_query.
    destruct (st_cur _ _ _ s) as [[k tr]|] eqn:C; auto.
    destruct (if m then qlookup q (st_memo _ _ _ s) else None); auto.
    destruct (lookup_level s k tr q) as [[s1 hit] ans] eqn:L.
    pose proof (inv_lookup_level _ _ _ _ _ _ _ I C L) as I1.
    cbn [fst]. destruct ans; auto. destruct m; auto. apply inv_add_memo; auto.
  Qed.

  Lemma inv_step : forall s o, inv s -> inv (fst (step s o)).
  Proof.
    intros s o I. destruct o as [k t|m q|dt|k]; cbn [C08_History.step].
    - apply inv_edit; auto.
    - apply inv_query; auto.
    - cbn [fst]. constructor; cbn [st_next st_pcache st_dcache st_cur].
      + apply (inv_ver_lt _ I).
      + apply (inv_ver_inj _ I).
      + apply (inv_d_lt _ I).
      + apply (inv_d_ok _ I).
      + apply (inv_cur _ I).
    - cbn [fst]. constructor; cbn [st_next st_pcache st_dcache st_cur].
      + intros k' e H. apply nlookup_nremove_some in H. destruct H. eapply (inv_ver_lt _ I); eauto.
      + intros k1 k2 e1 e2 H1 H2. apply nlookup_nremove_some in H1, H2.
        destruct H1, H2. eapply (inv_ver_inj _ I); eauto.
      + apply (inv_d_lt _ I).
      + intros c a d k' e H. apply nlookup_nremove_some in H. destruct H. eapply (inv_d_ok _ I); eauto.
      + intros k' tr e Hc H. apply nlookup_nremove_some in H. destruct H. eapply (inv_cur _ I); eauto.
  Qed.

  Lemma inv_run : forall h s, inv s -> inv (fst (run s h)).
  Proof.
    induction h as [|o r IH]; intros s I; cbn [C08_History.run]; auto.
    pose proof (inv_step s o I) as I1. destruct (step s o) as [s1 e]. cbn [fst] in I1.
    specialize (IH s1 I1). destruct (run s1 r). auto.
  Qed.

  Lemma inv_final : forall h, inv (final h).
  Proof. intros. apply inv_run. apply inv_init. Qed.

  (* every entry of a derived cache reachable through the current cache item of a key was
     computed from the tree stored under that key *)
  Lemma version_keyed_fresh_l : forall h k e c a d,
    nlookup k (st_pcache _ _ _ (final h)) = Some e ->
    dlookup (c, dkey cfg k (pe_version _ _ e), a) (st_dcache _ _ _ (final h)) = Some d ->
    d = derive c (pe_tree _ _ e) a.
  Proof.
    intros h k e c a d L Hd. rewrite dkey_version in Hd.
    eapply (inv_d_ok _ (inv_final h)); eauto.
  Qed.

  (* ---------------------------------------------------------------- history independence *)
  Hypothesis Hmemo : cf_memo cfg = MemoPerScript.
  Hypothesis Hsound : forall a b, text_eqb a b = true -> a = b.
  Hypothesis A1 : forall old ot t, reparse old ot t = parse t.

  (* trees in the parser cache are the parses of their texts (the proviso, propagated) *)
  Definition parsed (s : state) : Prop :=
    forall k e, nlookup k (st_pcache _ _ _ s) = Some e -> pe_tree _ _ e = parse (pe_text _ _ e).

  Lemma parsed_step : forall s o, parsed s -> parsed (fst (step s o)).
  Proof.
    intros s o P. destruct o as [k t|m q|dt|k]; cbn [C08_History.step].
    - unfold C08_History.do_edit.
      destruct (nlookup k (st_pcache _ _ _ s)) as [e|] eqn:L.
      + destruct (text_eqb (pe_text _ _ e) t) eqn:T; cbn [fst]; unfold parsed; cbn [st_pcache].
        * apply P.
        * intros k' e' H. destruct (N.eq_dec k' k) as [->|Hn].
          -- rewrite nlookup_nset_eq in H. inversion H. cbn. apply A1.
          -- rewrite nlookup_nset_neq in H by auto. apply P in H. auto.
      + cbn [fst]; unfold parsed; cbn [st_pcache].
        intros k' e' H. destruct (N.eq_dec k' k) as [->|Hn].
        * rewrite nlookup_nset_eq in H. inversion H. cbn. auto.
        * rewrite nlookup_nset_neq in H by auto. apply P in H. auto.
    - unfold C08_History.do_query.
      destruct (st_cur _ _ _ s) as [[k tr]|]; auto.
      destruct (if m then qlookup q (st_memo _ _ _ s) else None); auto.
      destruct (lookup_level s k tr q) as [[s1 hit] ans] eqn:L.
      apply lookup_level_cur_memo in L. destruct L as (_ & _ & Hp & _).
      cbn [fst]. unfold parsed.
      destruct ans; [destruct m|]; cbn [add_memo st_pcache]; rewrite Hp; apply P.
    - cbn [fst]. apply P.
    - cbn [fst]. unfold parsed. cbn [st_pcache]. intros k' e H.
      apply nlookup_nremove_some in H. destruct H as [_ H]. apply (P _ _ H).
  Qed.

  Lemma parsed_run : forall h s, parsed s -> parsed (fst (run s h)).
  Proof.
    induction h as [|o r IH]; intros s I; cbn [C08_History.run]; auto.
    pose proof (parsed_step s o I) as I1. destruct (step s o) as [s1 e]. cbn [fst] in I1.
    specialize (IH s1 I1). destruct (run s1 r). auto.
  Qed.

  Lemma parsed_final : forall h, parsed (final h).
  Proof. intros. apply parsed_run. unfold parsed. cbn. intros. discriminate. Qed.

  (* the state of a Script for text t under key k, nothing evicted since *)
  Definition valid_q (q : query) : Prop :=
    match q with QD _ _ => True | QSig a _ => cf_sig cfg = SigAsCoded /\ a <> 0 end.


  Record script_state (k : N) (t : text) (s : state) : Prop := {
    ss_inv : inv s;
    ss_cur : st_cur _ _ _ s = Some (k, parse t);
    ss_present : k <> 0 -> exists e, nlookup k (st_pcache _ _ _ s) = Some e;
    ss_memo : forall q d, qlookup q (st_memo _ _ _ s) = Some d -> valid_q q -> d = eval_pure (parse t) q
  }.

  Lemma script_after_edit : forall s k t,
    inv s -> parsed s -> script_state k t (fst (do_edit s k t)).
  Proof.
    intros s k t I P. pose proof (inv_edit s k t I) as I'.
    unfold C08_History.do_edit in *.
    destruct (nlookup k (st_pcache _ _ _ s)) as [e|] eqn:L.
    - destruct (text_eqb (pe_text _ _ e) t) eqn:T; cbn [fst] in *.
      + apply Hsound in T. constructor; auto; cbn [st_cur st_pcache st_memo].
        * rewrite (P _ _ L). rewrite T. auto.
        * eauto.
        * rewrite Hmemo. cbn. discriminate.
      + constructor; auto; cbn [st_cur st_pcache st_memo].
        * rewrite A1. auto.
        * intros _. rewrite nlookup_nset_eq. eauto.
        * rewrite Hmemo. cbn. discriminate.
    - cbn [fst] in *. constructor; auto; cbn [st_cur st_pcache st_memo].
      + intros _. rewrite nlookup_nset_eq. eauto.
      + rewrite Hmemo. cbn. discriminate.
  Qed.

  (* what one question below the memo returns in a script state *)
  Lemma lookup_level_answer : forall s k t q s1 hit ans,
    script_state k t s -> lookup_level s k (parse t) q = (s1, hit, ans) ->
    valid_q q -> ans = Some (eval_pure (parse t) q).
  Proof.
    intros s k t q s1 hit ans S H V. destruct S as [I C Pr _].
    unfold C08_History.lookup_level in H. destruct q as [c a|a b].
    - destruct (N.eqb k 0) eqn:K0. { inversion H; subst; auto. }
      apply N.eqb_neq in K0. destruct (Pr K0) as [e L]. rewrite L in H.
      rewrite dkey_version in H.
      destruct (dlookup (c, pe_version _ _ e, a) (st_dcache _ _ _ s)) eqn:DL.
      + inversion H; subst. cbn. f_equal.
        rewrite (inv_d_ok _ I _ _ _ _ _ L DL). rewrite (inv_cur _ I _ _ _ C L). auto.
      + inversion H; subst; auto.
    - destruct (N.eqb k 0). { inversion H; subst; auto. }
      destruct V as [V Va].
      assert (F : sig_find text tree D cfg k a b s = None).
      { unfold sig_find. destruct (sig_get D cfg k a b (st_sig _ _ _ s)) as [e|] eqn:G; auto.
        apply sig_get_key in G. destruct G as [_ G]. unfold sig_key_eqb in G. rewrite V in G.
        rewrite !andb_true_iff, !N.eqb_eq in G. tauto. }
      rewrite F in H. inversion H; subst; auto.
  Qed.

  Lemma query_answer : forall s k t m q,
    script_state k t s -> valid_q q ->
    snd (do_query s m q) = EvAns (match (if m then qlookup q (st_memo _ _ _ s) else None) with Some _ => true | None => false end)
                                 (match (if m then qlookup q (st_memo _ _ _ s) else None) with
                                  | Some _ => false
                                  | None => snd (fst (lookup_level s k (parse t) q)) end)
                                 (Some (eval_pure (parse t) q)).
  Proof.
    intros s k t m q S V. unfold C08_History.do_query. rewrite (ss_cur _ _ _ S).
    destruct (if m then qlookup q (st_memo _ _ _ s) else None) as [d|] eqn:M.
    - cbn [snd]. destruct m; [|discriminate]. rewrite (ss_memo _ _ _ S _ _ M V). auto.
    - destruct (lookup_level s k (parse t) q) as [[s1 hit] ans] eqn:L.
      rewrite (lookup_level_answer _ _ _ _ _ _ _ S L V). cbn. auto.
  Qed.

  Lemma script_state_query : forall s k t m q,
    script_state k t s -> script_state k t (fst (do_query s m q)).
  Proof.
    intros s k t m q S. pose proof (inv_query s m q (ss_inv _ _ _ S)) as I'.
    unfold C08_History.do_query in *. rewrite (ss_cur _ _ _ S) in *.
    destruct (if m then qlookup q (st_memo _ _ _ s) else None) as [d|] eqn:M; auto.
    destruct (lookup_level s k (parse t) q) as [[s1 hit] ans] eqn:L.
    pose proof (lookup_level_cur_memo _ _ _ _ _ _ _ L) as (Hc & Hm & Hp & _).
    cbn [fst] in *.
    assert (S1 : script_state k t s1).
    { constructor.
      - apply (inv_lookup_level _ _ _ _ _ _ _ (ss_inv _ _ _ S) (ss_cur _ _ _ S) L).
      - rewrite Hc. apply (ss_cur _ _ _ S).
      - rewrite Hp. apply (ss_present _ _ _ S).
      - rewrite Hm. apply (ss_memo _ _ _ S). }
    destruct ans as [d|]; auto. destruct m; auto.
    constructor; auto; cbn [add_memo st_cur st_pcache st_memo].
    - apply (ss_cur _ _ _ S1).
    - apply (ss_present _ _ _ S1).
    - intros q' d' H V. cbn in H. destruct (query_eqb q' q) eqn:E.
      + apply query_eqb_eq in E. subst q'. inversion H. subst d'.
        pose proof (lookup_level_answer _ _ _ _ _ _ _ S L V) as A. inversion A. auto.
      + apply (ss_memo _ _ _ S1 _ _ H V).
  Qed.

  Lemma script_state_asks : forall qs s k t,
    script_state k t s -> forallb (@is_ask text) qs = true -> script_state k t (fst (run s qs)).
  Proof.
    induction qs as [|o r IH]; intros s k t S F; cbn [C08_History.run]; auto.
    cbn in F. apply andb_true_iff in F. destruct F as [Fo Fr].
    assert (S1 : script_state k t (fst (step s o))).
    { destruct o as [k' t'|m q|dt|k']; try discriminate; cbn [C08_History.step].
      - apply script_state_query; auto.
      - cbn [fst]. destruct S as [I C Pr M]. constructor; auto.
        apply (inv_step s (Tick dt) I). }
    destruct (step s o) as [s1 e]. cbn [fst] in S1.
    specialize (IH s1 k t S1 Fr). destruct (run s1 r). auto.
  Qed.

  Lemma history_independent_gen : forall h k t qs m q,
    valid_q q -> forallb (@is_ask text) qs = true ->
    answer (h ++ Edit k t :: qs ++ [Query m q]) = Some (eval_pure (parse t) q).
  Proof.
    intros h k t qs m q V F.
    replace (h ++ Edit k t :: qs ++ [Query m q]) with ((h ++ Edit k t :: qs) ++ [Query m q])
      by (rewrite <- app_assoc; auto).
    rewrite answer_snoc. cbn [C08_History.step].
    assert (S : script_state k t (final (h ++ Edit k t :: qs))).
    { replace (h ++ Edit k t :: qs) with ((h ++ [Edit k t]) ++ qs) by (rewrite <- app_assoc; auto).
      rewrite final_app. apply script_state_asks; auto.
      rewrite final_snoc. cbn [C08_History.step].
      apply script_after_edit. apply inv_final. apply parsed_final. }
    rewrite (query_answer _ _ _ m q S V). auto.
  Qed.


  (* ---------------------------------------------------------------- small facts about do_edit *)
  Lemma do_edit_shape : forall s k t,
    st_memo _ _ _ (fst (do_edit s k t)) = [] /\
    st_clock _ _ _ (fst (do_edit s k t)) = st_clock _ _ _ s /\
    st_sig _ _ _ (fst (do_edit s k t)) =
      filter (fun e => negb (N.ltb (se_expiry _ e) (st_clock _ _ _ s))) (st_sig _ _ _ s).
  Proof.
    intros. unfold C08_History.do_edit.
    destruct (nlookup k (st_pcache _ _ _ s)) as [e|].
    - destruct (text_eqb (pe_text _ _ e) t); cbn; rewrite Hmemo; auto.
    - cbn; rewrite Hmemo; auto.
  Qed.

End Proofs.

(* ======================================================================================= *)
(* the signature time cache: statements that hold for every configuration *)
Section SigProofs.
  Variables text tree D : Type.
  Variable text_eqb : text -> text -> bool.
  Variable parse : text -> tree.
  Variable reparse : tree -> text -> text -> tree.
  Variable derive : N -> tree -> N -> D.
  Variable sig_of : tree -> N -> N -> D.
  Variable cfg : config.

  Notation state := (state text tree D).
  Notation op := (@op text).
  Notation step := (step text tree D text_eqb parse reparse derive sig_of cfg).
  Notation run := (run text tree D text_eqb parse reparse derive sig_of cfg).
  Notation final := (final text tree D text_eqb parse reparse derive sig_of cfg).
  Notation answer := (answer text tree D text_eqb parse reparse derive sig_of cfg).
  Notation do_edit := (do_edit text tree D text_eqb parse reparse cfg).
  Notation do_query := (do_query text tree D derive sig_of cfg).
  Notation lookup_level := (lookup_level text tree D derive sig_of cfg).

  Lemma sig_get_some : forall k a b l e,
    sig_get D cfg k a b l = Some e -> In e l /\ se_path _ e = k /\ se_a _ e = a /\ se_b _ e = b.
  Proof.
    induction l as [|x r IH]; cbn; intros e H; [discriminate|].
    destruct (sig_key_eqb D cfg k a b x) eqn:E.
    - inversion H. subst x. unfold sig_key_eqb in E.
      destruct (cf_sig cfg); rewrite !andb_true_iff, !N.eqb_eq in E.
      + destruct E as [[-> ->] [-> ->]]. auto.
      + destruct E as [[-> ->] ->]. auto.
    - apply IH in H. tauto.
  Qed.

  (* where an entry of the time cache can come from *)
  Lemma sig_step_in : forall s o e,
    In e (st_sig _ _ _ (fst (step s o))) ->
    In e (st_sig _ _ _ s) \/
    (exists m a b k tr, o = Query m (QSig a b) /\ st_cur _ _ _ s = Some (k, tr) /\ k <> 0 /\
        e = mkSE D k a b (st_clock _ _ _ s + cf_validity cfg) (sig_of tr a b)).
  Proof.
    intros s o e H. destruct o as [k t|m q|dt|k]; cbn [C08_History.step] in H.
    - left. unfold C08_History.do_edit in H.
      destruct (nlookup k (st_pcache _ _ _ s)) as [pe|].
      + destruct (text_eqb (pe_text _ _ pe) t); cbn in H; apply filter_In in H; tauto.
      + cbn in H; apply filter_In in H; tauto.
    - unfold C08_History.do_query in H.
      destruct (st_cur _ _ _ s) as [[k tr]|] eqn:C; auto.
      destruct (if m then qlookup q (st_memo _ _ _ s) else None); auto.
      destruct (lookup_level s k tr q) as [[s1 hit] ans] eqn:L. cbn [fst] in H.
      assert (H1 : In e (st_sig _ _ _ s1)).
      { destruct ans; auto. destruct m; auto. }
      clear H. unfold C08_History.lookup_level in L. destruct q as [c a|a b].
      + destruct (N.eqb k 0). { inversion L; subst; auto. }
        destruct (nlookup k (st_pcache _ _ _ s)). 2:{ inversion L; subst; auto. }
        destruct (dlookup _ _); inversion L; subst; auto.
      + destruct (N.eqb k 0) eqn:K0. { inversion L; subst; auto. }
        apply N.eqb_neq in K0.
        destruct (sig_find _ _ _ _ _ _ _ _). { inversion L; subst; auto. }
        inversion L; subst; clear L. cbn [st_sig] in H1. unfold sig_store in H1.
        destruct H1 as [H1|H1].
        * right. exists m, a, b, k, tr. auto.
        * apply filter_In in H1. tauto.
    - auto.
    - auto.
  Qed.

  Lemma final_snoc' : forall h o, final (h ++ [o]) = fst (step (final h) o).
  Proof. apply final_snoc. Qed.

  Definition sig_prov (h : list op) (e : sentry D) : Prop :=
    se_path _ e <> 0 /\
    exists h1 h2 tr, h = h1 ++ h2 /\ st_cur _ _ _ (final h1) = Some (se_path _ e, tr) /\
      se_val _ e = sig_of tr (se_a _ e) (se_b _ e) /\
      se_expiry _ e = st_clock _ _ _ (final h1) + cf_validity cfg.

  Lemma sig_prov_all : forall h e, In e (st_sig _ _ _ (final h)) -> sig_prov h e.
  Proof.
    induction h as [|o h IH] using rev_ind; intros e H.
    - cbn in H. contradiction.
    - rewrite final_snoc' in H. apply sig_step_in in H. destruct H as [H|H].
      + destruct (IH e H) as (Hp & h1 & h2 & tr & -> & Hc & Hv & He).
        split; auto. exists h1, (h2 ++ [o]), tr. rewrite app_assoc. auto.
      + destruct H as (m & a & b & k & tr & -> & Hc & Hk & ->). cbn.
        split; auto. exists h, [Query m (QSig a b)], tr. cbn. auto.
  Qed.

  Lemma clock_step : forall s o, st_clock _ _ _ s <= st_clock _ _ _ (fst (step s o)).
  Proof.
    intros s o. destruct o as [k t|m q|dt|k]; cbn [C08_History.step].
    - unfold C08_History.do_edit.
      destruct (nlookup k (st_pcache _ _ _ s)) as [pe|].
      + destruct (text_eqb (pe_text _ _ pe) t); cbn; lia.
      + cbn; lia.
    - unfold C08_History.do_query.
      destruct (st_cur _ _ _ s) as [[k tr]|]; [|cbn; lia].
      destruct (if m then qlookup q (st_memo _ _ _ s) else None); [cbn; lia|].
      destruct (lookup_level s k tr q) as [[s1 hit] ans] eqn:L. cbn [fst].
      assert (st_clock _ _ _ s1 = st_clock _ _ _ s).
      { unfold C08_History.lookup_level in L. destruct q as [c a|a b].
        - destruct (N.eqb k 0). { inversion L; subst; auto. }
          destruct (nlookup k (st_pcache _ _ _ s)). 2:{ inversion L; subst; auto. }
          destruct (dlookup _ _); inversion L; subst; auto.
        - destruct (N.eqb k 0). { inversion L; subst; auto. }
          destruct (sig_find _ _ _ _ _ _ _ _); inversion L; subst; auto. }
      destruct ans; [destruct m|]; cbn; lia.
    - cbn. lia.
    - cbn. lia.
  Qed.

  Lemma sig_expiry_bound : forall h e,
    In e (st_sig _ _ _ (final h)) -> se_expiry _ e <= st_clock _ _ _ (final h) + cf_validity cfg.
  Proof.
    induction h as [|o h IH] using rev_ind; intros e H.
    - cbn in H. contradiction.
    - rewrite final_snoc' in *. pose proof (clock_step (final h) o) as M.
      apply sig_step_in in H. destruct H as [H|H].
      + apply IH in H. lia.
      + destruct H as (m & a & b & k & tr & -> & Hc & Hk & ->). cbn [se_expiry]. lia.
  Qed.

  (* a hit of the signature cache returns what was computed, for the same path, the same text
     before the bracket and the same bracket position, at an earlier moment of this history
     that lies less than the validity back *)
  Lemma time_cache_no_stale_l : forall h m a b d,
    snd (step (final h) (Query m (QSig a b))) = EvAns false true (Some d) ->
    exists h1 h2 k tr tr',
      h = h1 ++ h2 /\ k <> 0 /\
      st_cur _ _ _ (final h1) = Some (k, tr) /\ st_cur _ _ _ (final h) = Some (k, tr') /\
      d = sig_of tr a b /\
      st_clock _ _ _ (final h) < st_clock _ _ _ (final h1) + cf_validity cfg.
  Proof.
    intros h m a b d H. cbn [C08_History.step] in H. unfold C08_History.do_query in H.
    destruct (st_cur _ _ _ (final h)) as [[k tr']|] eqn:C; [|cbn in H; discriminate].
    destruct (if m then qlookup (QSig a b) (st_memo _ _ _ (final h)) else None);
      [cbn in H; discriminate|].
    unfold C08_History.lookup_level in H.
    destruct (N.eqb k 0) eqn:K0; [cbn in H; discriminate|]. apply N.eqb_neq in K0.
    destruct (sig_find text tree D cfg k a b (final h)) as [d0|] eqn:F.
    2:{ cbn in H. destruct m; cbn in H; discriminate. }
    assert (d0 = d) by (destruct m; cbn in H; inversion H; auto). subst d0.
    unfold sig_find in F.
    destruct (sig_get D cfg k a b (st_sig _ _ _ (final h))) as [e|] eqn:G; [|discriminate].
    destruct (N.ltb (st_clock _ _ _ (final h)) (se_expiry _ e)) eqn:LT; [|discriminate].
    inversion F. subst d. apply N.ltb_lt in LT.
    apply sig_get_some in G. destruct G as (Hin & <- & <- & <-).
    destruct (sig_prov_all _ _ Hin) as (Hp & h1 & h2 & tr & Hh & Hc & Hv & He).
    exists h1, h2, (se_path _ e), tr, tr'. rewrite <- He. auto 10.
  Qed.

  Lemma pathless_never_cached_l : forall h e, In e (st_sig _ _ _ (final h)) -> se_path _ e <> 0.
  Proof. intros h e H. apply (sig_prov_all _ _ H). Qed.

  (* with the key as coded only a call whose bracket is NOT in the scanned text can hit *)
  Lemma coded_key_hits_only_without_bracket_l : forall s m a b mh ans,
    cf_sig cfg = SigAsCoded ->
    snd (step s (Query m (QSig a b))) = EvAns mh true ans -> a = 0.
  Proof.
    intros s m a b mh ans Hs H. cbn [C08_History.step] in H. unfold C08_History.do_query in H.
    destruct (st_cur _ _ _ s) as [[k tr]|]; [|cbn in H; inversion H].
    destruct (if m then qlookup (QSig a b) (st_memo _ _ _ s) else None);
      [cbn in H; inversion H|].
    unfold C08_History.lookup_level in H.
    destruct (N.eqb k 0); [cbn in H; destruct m; cbn in H; inversion H|].
    destruct (sig_find text tree D cfg k a b s) eqn:F.
    2:{ cbn in H. destruct m; cbn in H; inversion H. }
    unfold sig_find in F.
    destruct (sig_get D cfg k a b (st_sig _ _ _ s)) as [e|] eqn:G; [|discriminate].
    apply sig_get_key in G. destruct G as [_ G]. unfold sig_key_eqb in G. rewrite Hs in G.
    rewrite !andb_true_iff, !N.eqb_eq in G. tauto.
  Qed.

  (* with the intended textual key: once the validity has passed, nothing stale is left *)
  Hypothesis Hkey : cf_keying cfg = ByVersion.
  Hypothesis Hmemo : cf_memo cfg = MemoPerScript.
  Hypothesis Hsound : forall a b, text_eqb a b = true -> a = b.
  Hypothesis A1 : forall old ot t, reparse old ot t = parse t.

  Lemma fresh_after_validity_l : forall h dt k t m q,
    cf_validity cfg <= dt ->
    answer (h ++ [Tick dt; Edit k t; Query m q]) =
    Some (eval_pure tree D derive sig_of (parse t) q).
  Proof.
    intros h dt k t m q Hdt.
    replace (h ++ [Tick dt; Edit k t; Query m q]) with ((h ++ [Tick dt; Edit k t]) ++ [Query m q])
      by (rewrite <- app_assoc; auto).
    rewrite answer_snoc. cbn [C08_History.step].
    replace (h ++ [Tick dt; Edit k t]) with ((h ++ [Tick dt]) ++ [Edit k t])
      by (rewrite <- app_assoc; auto).
    rewrite final_snoc'. cbn [C08_History.step].
    set (s1 := final (h ++ [Tick dt])).
    assert (B1 : forall e, In e (st_sig _ _ _ s1) -> se_expiry _ e <= st_clock _ _ _ s1).
    { intros e H. unfold s1 in *. rewrite final_snoc' in *. cbn [C08_History.step fst st_sig st_clock] in *.
      apply sig_expiry_bound in H. lia. }
    pose proof (script_after_edit text tree D text_eqb parse reparse derive sig_of cfg Hmemo Hsound A1
                  s1 k t (inv_final text tree D text_eqb parse reparse derive sig_of cfg Hkey _)
                  (parsed_final text tree D text_eqb parse reparse derive sig_of cfg A1 _)) as S.
    destruct (do_edit_shape text tree D text_eqb parse reparse cfg Hmemo s1 k t) as (Hm & Hc & Hs).
    set (s2 := fst (do_edit s1 k t)) in *.
    unfold C08_History.do_query. rewrite (ss_cur _ _ _ _ _ _ _ _ _ _ S). rewrite Hm.
    assert (M : (if m then qlookup q (@nil (query * D)) else None) = None) by (destruct m; auto).
    rewrite M.
    destruct (lookup_level s2 k (parse t) q) as [[s3 hit] ans] eqn:L.
    assert (ans = Some (eval_pure tree D derive sig_of (parse t) q)).
    { destruct q as [c a|a b].
      - eapply (lookup_level_answer text tree D parse derive sig_of cfg Hkey); eauto.
        exact I.
      - unfold C08_History.lookup_level in L.
        destruct (N.eqb k 0). { inversion L; subst; auto. }
        assert (F : sig_find text tree D cfg k a b s2 = None).
        { unfold sig_find.
          destruct (sig_get D cfg k a b (st_sig _ _ _ s2)) as [e|] eqn:G; auto.
          apply sig_get_some in G. destruct G as (Hin & _).
          rewrite Hs in Hin. apply filter_In in Hin. destruct Hin as [Hin _].
          apply B1 in Hin. rewrite Hc.
          destruct (N.ltb (st_clock _ _ _ s1) (se_expiry _ e)) eqn:LT; auto.
          apply N.ltb_lt in LT. lia. }
        rewrite F in L. inversion L; subst; auto. }
    subst ans. cbn. auto.
  Qed.

End SigProofs.

(* ======================================================================================= *)
(* refutations for the wrong variants, on the instance the harness evaluates *)
Definition ansN (cfg : config) (reparse : N -> N -> N -> N) (h : list (@op N)) : option N :=
  answer N N N N.eqb (fun t => t) reparse (fun _ tr _ => tr) (fun tr _ _ => tr) cfg h.

Lemma path_keyed_witness :
  ansN (mkConfig ByPath SigAsCoded MemoPerScript 6) (fun _ _ t => t)
       ([Edit 1 10; Query false (QD 0 5)] ++ [Edit 1 11; Query false (QD 0 5)]) = Some 10 /\
  ansN (mkConfig ByPath SigAsCoded MemoPerScript 6) (fun _ _ t => t)
       [Edit 1 11; Query false (QD 0 5)] = Some 11.
Proof. split; vm_compute; reflexivity. Qed.

Lemma memo_shared_witness :
  ansN (mkConfig ByVersion SigAsCoded MemoShared 6) (fun _ _ t => t)
       ([Edit 1 10; Query true (QD 0 5)] ++ [Edit 1 11; Query true (QD 0 5)]) = Some 10 /\
  ansN (mkConfig ByVersion SigAsCoded MemoShared 6) (fun _ _ t => t)
       [Edit 1 11; Query true (QD 0 5)] = Some 11.
Proof. split; vm_compute; reflexivity. Qed.

Lemma textual_sig_witness :
  ansN (mkConfig ByVersion SigTextual MemoPerScript 6) (fun _ _ t => t)
       ([Edit 1 10; Query false (QSig 3 4)] ++ [Edit 1 11; Query false (QSig 3 4)]) = Some 10 /\
  ansN (mkConfig ByVersion SigTextual MemoPerScript 6) (fun _ _ t => t)
       [Edit 1 11; Query false (QSig 3 4)] = Some 11.
Proof. split; vm_compute; reflexivity. Qed.

Lemma multiline_call_witness :
  ansN real_config (fun _ _ t => t)
       ([Edit 1 10; Query false (QSig 0 4)] ++ [Edit 1 11; Query false (QSig 0 4)]) = Some 10 /\
  ansN real_config (fun _ _ t => t) [Edit 1 11; Query false (QSig 0 4)] = Some 11.
Proof. split; vm_compute; reflexivity. Qed.

Lemma stale_parser_witness :
  ansN real_config (fun old _ _ => old)
       ([Edit 1 10] ++ [Edit 1 11; Query false (QD 0 5)]) = Some 10 /\
  ansN real_config (fun old _ _ => old) [Edit 1 11; Query false (QD 0 5)] = Some 11.
Proof. split; vm_compute; reflexivity. Qed.
