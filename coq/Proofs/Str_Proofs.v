From JV Require Import Base.Str.

Lemma str_eqb_eq a b : str_eqb a b = true <-> a = b.
Proof.
  revert b; induction a as [|x a IH]; intros [|y b]; simpl; split; intro H; try congruence; auto.
  - apply andb_true_iff in H as [H1 H2]. apply N.eqb_eq in H1. apply IH in H2. congruence.
  - inversion H; subst. rewrite N.eqb_refl. simpl. apply IH. reflexivity.
Qed.

Lemma str_eqb_refl a : str_eqb a a = true.
Proof. apply str_eqb_eq. reflexivity. Qed.

Lemma starts_with_prefix s p : starts_with s p = true <-> Prefix p s.
Proof.
  revert s; induction p as [|c p IH]; intros s; simpl.
  - split; auto. intros _. exists s. reflexivity.
  - destruct s as [|d s].
    + split; [discriminate|]. intros [r Hr]. discriminate.
    + rewrite andb_true_iff, N.eqb_eq, IH. split.
      * intros [-> [r ->]]. exists r. reflexivity.
      * intros [r Hr]. simpl in Hr. inversion Hr; subst. split; auto. exists r. reflexivity.
Qed.

Lemma mem_In c s : mem c s = true <-> In c s.
Proof.
  induction s as [|d s IH]; simpl.
  - split; [discriminate|tauto].
  - rewrite orb_true_iff, N.eqb_eq, IH. split; intros [H|H]; auto.
Qed.

Lemma after_first_spec c s s' :
  after_first c s = Some s' -> exists pre, s = pre ++ c :: s' /\ ~ In c pre.
Proof.
  revert s'; induction s as [|d s IH]; simpl; intros s' H; [discriminate|].
  destruct (N.eqb c d) eqn:E.
  - apply N.eqb_eq in E. subst. inversion H; subst. exists []. simpl. auto.
  - apply IH in H as [pre [-> Hn]]. exists (d :: pre). split; [reflexivity|].
    simpl. intros [Hd|Hd]; [|tauto]. subst. rewrite N.eqb_refl in E. discriminate.
Qed.

Lemma after_first_none c s : after_first c s = None <-> ~ In c s.
Proof.
  induction s as [|d s IH]; simpl; [tauto|].
  destruct (N.eqb c d) eqn:E.
  - apply N.eqb_eq in E. subst. split; [discriminate|]. intros H. exfalso. apply H. auto.
  - rewrite IH. split; intros H; [|tauto]. intros [Hd|Hd]; [|tauto].
    subst. rewrite N.eqb_refl in E. discriminate.
Qed.

Lemma Subseq_app_l l pre s : Subseq l s -> Subseq l (pre ++ s).
Proof. induction pre; simpl; auto using Subseq_skip. Qed.

Lemma Subseq_In c l s : Subseq (c :: l) s -> In c s.
Proof.
  remember (c :: l) as cl. intros H. induction H; try discriminate.
  - right. auto.
  - inversion Heqcl; subst. left. reflexivity.
Qed.

Lemma Subseq_tail c l s : Subseq (c :: l) s -> Subseq l s.
Proof.
  remember (c :: l) as cl. intros H. revert c l Heqcl.
  induction H; intros; try discriminate.
  - apply Subseq_skip. eapply IHSubseq; eauto.
  - inversion Heqcl; subst. apply Subseq_skip. assumption.
Qed.

(* Greedy leftmost matching loses nothing. *)
Lemma Subseq_greedy c l s :
  Subseq (c :: l) s -> exists s', after_first c s = Some s' /\ Subseq l s'.
Proof.
  remember (c :: l) as cl. intros H. revert c l Heqcl.
  induction H as [s|l0 d s H IH|c0 l0 s H IH]; intros c l Heq; try discriminate.
  - subst. destruct (IH c l eq_refl) as [s' [Ha Hs]].
    simpl. destruct (N.eqb c d) eqn:E.
    + exists s. split; [reflexivity|].
      apply after_first_spec in Ha as [pre [-> _]].
      apply Subseq_app_l. apply Subseq_skip. assumption.
    + exists s'. auto.
  - inversion Heq; subst. simpl. rewrite N.eqb_refl. exists s. auto.
Qed.

Lemma str_leb_refl a : str_leb a a = true.
Proof. induction a as [|x a IH]; simpl; auto. rewrite N.ltb_irrefl, N.eqb_refl. exact IH. Qed.
