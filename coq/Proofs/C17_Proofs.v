(* C17 proofs: position arithmetic of a consistent leaf sequence, lines, definition ranges,
   name enumeration.  See notes/C17.md for the theorem list. *)
From Coq Require Import Sorting.Sorted Sorting.Permutation.
From JV Require Import Base.Str Proofs.Str_Proofs Model.C17_Positions.
Local Open Scope N_scope.

(* ---------------------------------------------------------------- split_lines *)
Lemma split_lines_nonempty s : split_lines s <> [].
Proof.
  destruct s as [|c r]; simpl; [discriminate|].
  destruct (is_break c (hd_opt r)); [discriminate|].
  destruct (split_lines r); discriminate.
Qed.

Lemma split_lines_cons c r :
  split_lines (c :: r) =
  if is_break c (hd_opt r) then [c] :: split_lines r
  else (c :: hd [] (split_lines r)) :: tl (split_lines r).
Proof.
  simpl. destruct (is_break c (hd_opt r)); [reflexivity|].
  pose proof (split_lines_nonempty r). destruct (split_lines r); [congruence|reflexivity].
Qed.

Lemma hd_tl_split s : split_lines s = hd [] (split_lines s) :: tl (split_lines s).
Proof. pose proof (split_lines_nonempty s). destruct (split_lines s); [congruence|reflexivity]. Qed.

Lemma join_split s : concat (split_lines s) = s.
Proof.
  induction s as [|c r IH]; [reflexivity|].
  rewrite split_lines_cons. destruct (is_break c (hd_opt r)).
  - simpl. rewrite IH. reflexivity.
  - rewrite (hd_tl_split r) in IH. simpl in *. rewrite IH. reflexivity.
Qed.

(* ---------------------------------------------------------------- adv *)
Definition nxt (r : str) (nx : option N) : option N := match r with [] => nx | d :: _ => Some d end.

Lemma adv_cons p c r nx : adv p (c :: r) nx = adv (step p c (nxt r nx)) r nx.
Proof. reflexivity. Qed.

Lemma nxt_app r s nx : nxt (r ++ s) nx = nxt r (nxt s nx).
Proof. destruct r; reflexivity. Qed.

Lemma adv_app p s1 s2 nx : adv p (s1 ++ s2) nx = adv (adv p s1 (nxt s2 nx)) s2 nx.
Proof.
  revert p; induction s1 as [|c r IH]; intros p; [reflexivity|].
  simpl app. rewrite !adv_cons, IH, nxt_app. reflexivity.
Qed.

Lemma hd_opt_nxt s : hd_opt s = nxt s None.
Proof. destruct s; reflexivity. Qed.

Lemma step_line_le p c nx : fst p <= fst (step p c nx).
Proof. unfold step. destruct (is_break c nx); simpl; lia. Qed.

Lemma adv_line_le s : forall p nx, fst p <= fst (adv p s nx).
Proof.
  induction s as [|c r IH]; intros p nx; simpl; [lia|].
  etransitivity; [apply (step_line_le p c)|apply IH].
Qed.

(* ---------------------------------------------------------------- the core arithmetic *)
(* After advancing over [pre] (followed by [post]) from (l0, |cur|) where [cur] is the part
   of the current line already emitted, the reported (line, column) addresses, in the lines
   of the text, exactly the rest of the line that starts [post]. *)
Lemma locate pre : forall post l0 cur p Ls,
  p = adv (l0, N.of_nat (length cur)) pre (hd_opt post) ->
  Ls = split_lines (pre ++ post) ->
  (l0 <= fst p) /\
  skipn (N.to_nat (snd p)) (nth (N.to_nat (fst p - l0)) ((cur ++ hd [] Ls) :: tl Ls) [])
  = first_line post /\
  firstn (N.to_nat (snd p)) (nth (N.to_nat (fst p - l0)) ((cur ++ hd [] Ls) :: tl Ls) [])
  ++ first_line post
  = nth (N.to_nat (fst p - l0)) ((cur ++ hd [] Ls) :: tl Ls) [] /\
  (N.to_nat (fst p - l0) < length ((cur ++ hd [] Ls) :: tl Ls))%nat /\
  (N.to_nat (snd p) <= length (nth (N.to_nat (fst p - l0)) ((cur ++ hd [] Ls) :: tl Ls) []))%nat.
Proof.
  induction pre as [|c r IH]; intros post l0 cur p Ls Hp HLs.
  - simpl in Hp, HLs. subst p Ls. cbn [fst snd]. rewrite N.sub_diag. cbn [N.to_nat nth].
    rewrite Nat2N.id. split; [lia|]. split; [|split; [|split]].
    + rewrite skipn_app, skipn_all, Nat.sub_diag. reflexivity.
    + rewrite firstn_app, Nat.sub_diag, firstn_all. simpl. rewrite app_nil_r. reflexivity.
    + simpl. lia.
    + rewrite app_length. lia.
  - change ((c :: r) ++ post) with (c :: (r ++ post)) in HLs.
    rewrite adv_cons in Hp. rewrite split_lines_cons in HLs.
    assert (Hn : nxt r (hd_opt post) = hd_opt (r ++ post)) by (destruct r; reflexivity).
    rewrite Hn in Hp. unfold step in Hp. cbn [fst snd] in Hp.
    destruct (is_break c (hd_opt (r ++ post))) eqn:Eb.
    + specialize (IH post (l0 + 1) [] p (split_lines (r ++ post)) Hp eq_refl).
      cbn [app] in IH. rewrite <- hd_tl_split in IH.
      destruct IH as (Hle & Hs & Hf & Hlen & Hc).
      assert (E : N.to_nat (fst p - l0) = S (N.to_nat (fst p - (l0 + 1)))) by lia.
      subst Ls. rewrite E. cbn [hd tl nth].
      split; [lia|]. split; [exact Hs|]. split; [exact Hf|]. split; [simpl; lia|exact Hc].
    + replace (N.of_nat (length cur) + 1) with (N.of_nat (length (cur ++ [c]))) in Hp
        by (rewrite app_length; simpl; lia).
      specialize (IH post l0 (cur ++ [c]) p (split_lines (r ++ post)) Hp eq_refl).
      subst Ls. cbn [hd tl]. rewrite <- app_assoc in IH. exact IH.
Qed.

(* position of an offset, from the origin *)
Lemma locate_origin pre post p :
  p = adv origin pre (hd_opt post) ->
  let lines := split_lines (pre ++ post) in
  1 <= fst p /\
  skipn (N.to_nat (snd p)) (line_at lines (fst p)) = first_line post /\
  firstn (N.to_nat (snd p)) (line_at lines (fst p)) ++ first_line post = line_at lines (fst p) /\
  (N.to_nat (fst p - 1) < length lines)%nat /\
  (N.to_nat (snd p) <= length (line_at lines (fst p)))%nat.
Proof.
  intros Hp lines.
  pose proof (locate pre post 1 [] p lines Hp eq_refl) as H.
  cbn [app] in H. unfold lines in *. rewrite <- hd_tl_split in H. exact H.
Qed.

(* the first line of a text does not depend on what follows it, up to its own length *)
Lemma first_line_app v : forall post,
  firstn (length v) (first_line (v ++ post)) = first_line v.
Proof.
  unfold first_line.
  induction v as [|c v IH]; intros post; [reflexivity|].
  simpl app. rewrite !split_lines_cons.
  destruct v as [|d v'].
  - simpl app. cbn [hd_opt]. unfold is_break at 2. cbn [is_lf]. rewrite andb_true_r.
    destruct (is_break c (hd_opt post)) eqn:E1.
    + cbn [hd]. destruct ((c =? 10) || (c =? 13)); reflexivity.
    + cbn [hd length firstn]. unfold is_break in E1.
      destruct (c =? 10); [discriminate|]. cbn [orb] in *.
      destruct (c =? 13); reflexivity.
  - change (hd_opt ((d :: v') ++ post)) with (hd_opt (d :: v')).
    destruct (is_break c (hd_opt (d :: v'))).
    + reflexivity.
    + cbn [hd length firstn]. f_equal. apply (IH post).
Qed.

Lemma first_line_no_break v : no_break v = true -> first_line v = v.
Proof.
  unfold first_line. induction v as [|c v IH]; intros H; [reflexivity|].
  simpl in H. apply andb_true_iff in H as [Hc Hv].
  rewrite split_lines_cons. unfold is_break.
  unfold no_break_char in Hc. apply negb_true_iff in Hc. apply orb_false_iff in Hc as [H1 H2].
  rewrite H1, H2. simpl. rewrite (IH Hv). reflexivity.
Qed.

(* ---------------------------------------------------------------- consistent trees *)
Lemma first_char_code r : first_char r = hd_opt (code_of r).
Proof.
  induction r as [|l r IH]; [reflexivity|].
  simpl. unfold code_of in *. destruct (leaf_code l); [exact IH|reflexivity].
Qed.

Lemma value_next_code l r : value_next l r = hd_opt (lvalue l ++ code_of r).
Proof. unfold value_next. destruct (lvalue l); [apply first_char_code|reflexivity]. Qed.

Lemma code_of_app a b : code_of (a ++ b) = code_of a ++ code_of b.
Proof. unfold code_of. apply flat_map_app. Qed.

Lemma code_of_cons l r : code_of (l :: r) = lprefix l ++ lvalue l ++ code_of r.
Proof. unfold code_of, leaf_code. simpl. rewrite app_assoc. reflexivity. Qed.

Lemma pos_eqb_eq a b : pos_eqb a b = true <-> a = b.
Proof.
  destruct a, b. unfold pos_eqb. simpl. rewrite andb_true_iff, !N.eqb_eq.
  split; [intros [-> ->]; reflexivity|intros H; inversion H; auto].
Qed.

Lemma nxt_hd_opt s nx : nxt s nx = match hd_opt s with Some d => Some d | None => nx end.
Proof. destruct s; reflexivity. Qed.

Lemma hd_opt_app a b : hd_opt (a ++ b) = nxt a (hd_opt b).
Proof. destruct a; reflexivity. Qed.

Lemma hd_opt_nxt_gen v r : hd_opt (v ++ r) = nxt v (hd_opt r).
Proof. apply hd_opt_app. Qed.

Lemma is_empty_false v : is_empty v = false <-> v <> [].
Proof. destruct v; simpl; split; intros; congruence. Qed.

(* the invariant about [adv]: in a consistent leaf list every recorded start of a non-empty
   leaf is the position reached after all preceding text plus the leaf's own prefix *)
Lemma consistent_from_start A : forall p l B,
  consistent_from p (A ++ l :: B) = true ->
  (lvalue l <> [] ->
   lstart l = adv p (code_of A ++ lprefix l) (hd_opt (lvalue l ++ code_of B))) /\
  consistent_from (adv p ((code_of A ++ lprefix l) ++ lvalue l) (hd_opt (code_of B))) B = true.
Proof.
  induction A as [|a A IH]; intros p l B H.
  - simpl in H. apply andb_true_iff in H as [H1 H2].
    rewrite value_next_code in H1, H2. rewrite first_char_code in H2.
    cbn [code_of flat_map app]. split.
    + intros Hne. apply is_empty_false in Hne. rewrite Hne in H1. simpl in H1.
      apply pos_eqb_eq in H1. auto.
    + rewrite adv_app. rewrite <- hd_opt_nxt_gen. exact H2.
  - simpl app in H. simpl in H. apply andb_true_iff in H as [_ H2].
    apply IH in H2 as [H2 H3].
    split.
    + intros Hne. rewrite (H2 Hne). rewrite code_of_cons. rewrite value_next_code, first_char_code.
      rewrite <- !app_assoc.
      rewrite (adv_app p (lprefix a)), (adv_app _ (lvalue a)).
      rewrite <- !hd_opt_app. rewrite code_of_app, code_of_cons.
      rewrite <- !app_assoc. reflexivity.
    + rewrite <- H3. f_equal. rewrite code_of_cons. rewrite value_next_code, first_char_code.
      rewrite <- !app_assoc.
      rewrite (adv_app p (lprefix a)), (adv_app _ (lvalue a)).
      rewrite <- !hd_opt_app. rewrite code_of_app, code_of_cons.
      rewrite <- !app_assoc. reflexivity.
Qed.

(* ---------------------------------------------------------------- theorem: text at position *)
Lemma get_code_split t A l B :
  leaves t = A ++ l :: B ->
  get_code t = (code_of A ++ lprefix l) ++ (lvalue l ++ code_of B).
Proof.
  intros H. unfold get_code. rewrite H, code_of_app, code_of_cons, <- !app_assoc. reflexivity.
Qed.

Lemma consistent_start t A l B :
  consistent t = true -> leaves t = A ++ l :: B -> lvalue l <> [] ->
  lstart l = adv origin (code_of A ++ lprefix l) (hd_opt (lvalue l ++ code_of B)).
Proof.
  unfold consistent. intros Hc Hl Hne. rewrite Hl in Hc.
  apply consistent_from_start in Hc as [H _]. exact (H Hne).
Qed.

Theorem leaf_text_at_pos t A l B :
  consistent t = true -> leaves t = A ++ l :: B ->
  slice_at (split_lines (get_code t)) (lstart l) (length (lvalue l)) = first_line (lvalue l).
Proof.
  intros Hc Hl. destruct (lvalue l) as [|c v] eqn:Ev; [reflexivity|]. rewrite <- Ev.
  assert (Hne : lvalue l <> []) by (rewrite Ev; discriminate).
  pose proof (consistent_start t A l B Hc Hl Hne) as Hs.
  rewrite (get_code_split t A l B Hl).
  destruct (locate_origin _ _ _ Hs) as (_ & H & _).
  unfold slice_at. rewrite H. apply first_line_app.
Qed.

Theorem leaf_text_exact t A l B :
  consistent t = true -> leaves t = A ++ l :: B -> no_break (lvalue l) = true ->
  slice_at (split_lines (get_code t)) (lstart l) (length (lvalue l)) = lvalue l.
Proof.
  intros Hc Hl Hn. rewrite (leaf_text_at_pos t A l B Hc Hl). apply first_line_no_break, Hn.
Qed.

(* ---------------------------------------------------------------- get_line_code *)
Lemma concat_firstn1_skipn {A} n (l : list (list A)) : concat (firstn 1 (skipn n l)) = nth n l [].
Proof.
  revert l; induction n as [|n IH]; intros [|x l]; simpl; auto.
  - apply app_nil_r.
  - apply IH.
Qed.

Theorem line_code_is_line lines l : get_line_code lines l 0 0 = line_at lines l.
Proof.
  unfold get_line_code, line_at.
  replace (N.to_nat (l - 1 + 0 + 1 - (l - 1 - 0))) with 1%nat by lia.
  replace (l - 1 - 0) with (l - 1) by lia.
  apply concat_firstn1_skipn.
Qed.

Lemma first_line_prefix v post : exists rest, first_line (v ++ post) = first_line v ++ rest.
Proof.
  exists (skipn (length v) (first_line (v ++ post))).
  rewrite <- (first_line_app v post). symmetry. apply firstn_skipn.
Qed.

Theorem line_code_contains_name t A l B :
  consistent t = true -> leaves t = A ++ l :: B -> lvalue l <> [] ->
  let lines := split_lines (get_code t) in
  1 <= fst (lstart l) /\ (N.to_nat (fst (lstart l) - 1) < length lines)%nat /\
  exists a b, get_line_code lines (fst (lstart l)) 0 0 = a ++ first_line (lvalue l) ++ b /\
              length a = N.to_nat (snd (lstart l)).
Proof.
  intros Hc Hl Hne lines. pose proof (consistent_start t A l B Hc Hl Hne) as Hs.
  unfold lines. rewrite (get_code_split t A l B Hl).
  destruct (locate_origin _ _ _ Hs) as (H1 & _ & H3 & H4 & H5).
  split; [exact H1|]. split; [exact H4|].
  rewrite line_code_is_line.
  destruct (first_line_prefix (lvalue l) (code_of B)) as [rest Hr].
  eexists. exists rest. rewrite <- Hr. split; [symmetry; exact H3|].
  rewrite firstn_length. lia.
Qed.

(* ---------------------------------------------------------------- order on positions *)
Ltac pos_unfold :=
  unfold pos_leb, pos_ltb, pos_eqb in *; cbn [fst snd] in *;
  repeat rewrite ?orb_true_iff, ?andb_true_iff, ?orb_false_iff, ?andb_false_iff,
    ?N.ltb_lt, ?N.eqb_eq, ?N.leb_le, ?N.ltb_ge, ?N.eqb_neq, ?N.leb_gt in *.

Lemma pos_leb_refl a : pos_leb a a = true.
Proof. destruct a. pos_unfold. lia. Qed.
Lemma pos_leb_trans a b c : pos_leb a b = true -> pos_leb b c = true -> pos_leb a c = true.
Proof. destruct a, b, c. pos_unfold. lia. Qed.
Lemma pos_ltb_leb a b : pos_ltb a b = true -> pos_leb a b = true.
Proof. destruct a, b. pos_unfold. lia. Qed.
Lemma pos_lt_le_trans a b c : pos_ltb a b = true -> pos_leb b c = true -> pos_ltb a c = true.
Proof. destruct a, b, c. pos_unfold. lia. Qed.
Lemma pos_leb_total a b : pos_leb a b = false -> pos_leb b a = true.
Proof. destruct a, b. pos_unfold. lia. Qed.
Lemma pos_leb_antisym a b : pos_leb a b = true -> pos_leb b a = true -> a = b.
Proof. destruct a, b. pos_unfold. intros. f_equal; lia. Qed.
Lemma pos_ltb_irrefl a : pos_ltb a a = false.
Proof. destruct a. pos_unfold. lia. Qed.

Lemma step_mono p c nx : pos_leb p (step p c nx) = true.
Proof. destruct p. unfold step. destruct (is_break c nx); pos_unfold; lia. Qed.

Lemma adv_mono s : forall p nx, pos_leb p (adv p s nx) = true.
Proof.
  induction s as [|c r IH]; intros p nx; simpl; [apply pos_leb_refl|].
  eapply pos_leb_trans; [apply step_mono|apply IH].
Qed.

Lemma adv_no_break s : forall p nx, no_break s = true ->
  adv p s nx = (fst p, snd p + N.of_nat (length s)).
Proof.
  induction s as [|c r IH]; intros [l k] nx H.
  - simpl. f_equal. lia.
  - simpl in H. apply andb_true_iff in H as [Hc Hr].
    rewrite adv_cons. unfold step, is_break.
    unfold no_break_char in Hc. apply negb_true_iff, orb_false_iff in Hc as [H1 H2].
    rewrite H1, H2. cbn [orb andb fst snd]. rewrite (IH _ _ Hr). cbn [fst snd length].
    f_equal. lia.
Qed.

Definition name_end (x : leaf) : pos := (fst (lstart x), snd (lstart x) + N.of_nat (length (lvalue x))).

(* order of recorded starts in a consistent leaf list *)
Lemma consistent_from_order p A x M y B :
  consistent_from p (A ++ x :: M ++ y :: B) = true -> lvalue x <> [] -> lvalue y <> [] ->
  pos_leb (lstart x) (lstart y) = true /\
  (no_break (lvalue x) = true -> pos_leb (name_end x) (lstart y) = true).
Proof.
  intros H Hx Hy. apply consistent_from_start in H as [Hsx H].
  apply consistent_from_start in H as [Hsy _].
  specialize (Hsx Hx). specialize (Hsy Hy).
  assert (EP : adv p ((code_of A ++ lprefix x) ++ lvalue x) (hd_opt (code_of (M ++ y :: B)))
               = adv (lstart x) (lvalue x) (hd_opt (code_of (M ++ y :: B))))
    by (rewrite adv_app, <- hd_opt_app, <- Hsx; reflexivity).
  rewrite EP in Hsy.
  split.
  - rewrite Hsy. eapply pos_leb_trans; apply adv_mono.
  - intros Hn. rewrite Hsy. rewrite (adv_no_break _ _ _ Hn). apply adv_mono.
Qed.

Lemma leaf_end_ge l : pos_leb (lstart l) (leaf_end l) = true.
Proof. apply adv_mono. Qed.

Lemma leaf_end_name x : no_break (lvalue x) = true -> leaf_end x = name_end x.
Proof. intros H. unfold leaf_end, advance. apply adv_no_break, H. Qed.

Lemma name_end_ge x : pos_leb (lstart x) (name_end x) = true.
Proof. destruct x as [k p v [l c]]. unfold name_end. pos_unfold. simpl. lia. Qed.

(* within D1 ++ x :: D2: everything before x starts no later, everything from x on ends no earlier *)
Lemma before_le p A D1 x D2 B y :
  consistent_from p (A ++ (D1 ++ x :: D2) ++ B) = true -> In y (D1 ++ [x]) ->
  lvalue x <> [] -> lvalue y <> [] ->
  pos_leb (lstart y) (lstart x) = true.
Proof.
  intros H Hy Hnx Hny. apply in_app_or in Hy as [Hy|[->|[]]]; [|apply pos_leb_refl].
  apply in_split in Hy as (M1 & M2 & ->).
  replace (A ++ ((M1 ++ y :: M2) ++ x :: D2) ++ B) with ((A ++ M1) ++ y :: M2 ++ x :: (D2 ++ B)) in H
    by (repeat (rewrite <- ?app_assoc; simpl); reflexivity).
  apply consistent_from_order in H as [H _]; auto.
Qed.

Lemma after_ge p A D1 x D2 B y :
  consistent_from p (A ++ (D1 ++ x :: D2) ++ B) = true -> no_break (lvalue x) = true ->
  lvalue x <> [] -> lvalue y <> [] ->
  In y (x :: D2) -> pos_leb (name_end x) (leaf_end y) = true.
Proof.
  intros H Hn Hnx Hny [<-|Hy].
  - rewrite (leaf_end_name _ Hn). apply pos_leb_refl.
  - apply in_split in Hy as (M1 & M2 & ->).
    replace (A ++ (D1 ++ x :: M1 ++ y :: M2) ++ B) with ((A ++ D1) ++ x :: M1 ++ y :: (M2 ++ B)) in H
      by (repeat (rewrite <- ?app_assoc; simpl); reflexivity).
    apply consistent_from_order in H as [_ H]; auto.
    eapply pos_leb_trans; [apply (H Hn)|apply leaf_end_ge].
Qed.

(* ---------------------------------------------------------------- definition ranges *)
Lemma flat_map_split {A B} (f : A -> list B) ch i c :
  nth_error ch i = Some c ->
  exists X Y, flat_map f ch = X ++ f c ++ Y.
Proof.
  intros H. apply nth_error_split in H as (l1 & l2 & -> & _).
  exists (flat_map f l1), (flat_map f l2). rewrite flat_map_app. reflexivity.
Qed.

Lemma subtree_leaves path : forall t d,
  subtree t path = Some d -> exists A B, leaves t = A ++ leaves d ++ B.
Proof.
  induction path as [|i p IH]; intros t d H.
  - inversion H; subst. exists (@nil leaf), (@nil leaf). rewrite app_nil_r. reflexivity.
  - destruct t as [l|ch]; [discriminate|]. simpl in H.
    destruct (nth_error ch i) as [c|] eqn:E; [|discriminate].
    apply IH in H as (A & B & HAB).
    destruct (flat_map_split leaves ch i c E) as (X & Y & HXY).
    exists (X ++ A), (B ++ Y). simpl. rewrite HXY, HAB, <- !app_assoc. reflexivity.
Qed.

Lemma is_name_not_newline x : is_name x = true -> is_newline x = false.
Proof. unfold is_name, is_newline. destruct (lk x); auto; discriminate. Qed.

Lemma hd_error_app_cons {A} (D1 : list A) x D2 :
  exists y, hd_error (D1 ++ x :: D2) = Some y /\ In y (D1 ++ [x]).
Proof.
  destruct D1 as [|a D1]; simpl; eauto.
Qed.

(* the leaf whose end is reported lies at or after the name *)
Lemma def_end_leaf D1 x D2 (fc : bool) :
  is_name x = true ->
  exists y, In y (x :: D2) /\
    (if fc then
       match rev (D1 ++ x :: D2) with
       | last :: prev :: _ => Some (if is_newline last then leaf_end prev else leaf_end last)
       | [last] => Some (leaf_end last)
       | [] => None
       end
     else option_map leaf_end (hd_error (rev (D1 ++ x :: D2)))) = Some (leaf_end y).
Proof.
  intros Hx. rewrite rev_app_distr. simpl rev. rewrite <- app_assoc. simpl app.
  destruct (rev D2) as [|z rD2] eqn:E.
  - simpl app. exists x. split; [left; reflexivity|].
    destruct fc; [|reflexivity].
    destruct (rev D1); [reflexivity|]. rewrite (is_name_not_newline _ Hx). reflexivity.
  - assert (Hz : In z D2) by (apply in_rev; rewrite E; left; reflexivity).
    simpl app. destruct fc; [|exists z; split; [right; exact Hz|reflexivity]].
    destruct rD2 as [|w rD2].
    + simpl app. destruct (is_newline z).
      * exists x. split; [left; reflexivity|reflexivity].
      * exists z. split; [right; exact Hz|reflexivity].
    + simpl app. destruct (is_newline z).
      * exists w. split; [|reflexivity]. right. apply in_rev. rewrite E. right. left. reflexivity.
      * exists z. split; [right; exact Hz|reflexivity].
Qed.

Lemma solid_In d y : solid d = true -> In y (leaves d) -> lvalue y <> [].
Proof.
  unfold solid. rewrite forallb_forall. intros H Hy. specialize (H _ Hy).
  apply negb_true_iff, is_empty_false in H. exact H.
Qed.

Theorem def_range_encloses t path d x fc :
  consistent t = true -> subtree t path = Some d -> solid d = true -> In x (leaves d) ->
  is_name x = true -> no_break (lvalue x) = true ->
  exists rng, def_range t (Some path) x fc = Some rng /\
              encloses rng (lstart x) (length (lvalue x)) = true.
Proof.
  intros Hc Hs Hsolid Hin Hname Hnb.
  destruct (subtree_leaves _ _ _ Hs) as (A & B & HAB).
  pose proof (solid_In d x Hsolid Hin) as Hnx.
  assert (Hall : forall y, In y (leaves d) -> lvalue y <> []) by (intros; eapply solid_In; eauto).
  apply in_split in Hin as (D1 & D2 & HD).
  unfold consistent in Hc. rewrite HAB, HD in Hc.
  unfold def_range. rewrite Hs. unfold node_start, def_end, node_end. rewrite HD in *.
  destruct (hd_error_app_cons D1 x D2) as (y0 & Hy0 & Hin0). rewrite Hy0. cbn [option_map].
  destruct (def_end_leaf D1 x D2 fc Hname) as (y1 & Hin1 & Hy1). rewrite Hy1.
  eexists. split; [reflexivity|].
  unfold encloses. cbn [fst snd]. apply andb_true_iff. split.
  - eapply before_le; eauto. apply Hall.
    apply in_app_or in Hin0 as [H|[<-|[]]]; apply in_or_app; [left; exact H|right; left; reflexivity].
  - eapply after_ge; eauto. apply Hall. apply in_or_app. right. exact Hin1.
Qed.

Theorem def_range_none_encloses t x fc :
  no_break (lvalue x) = true ->
  exists rng, def_range t None x fc = Some rng /\
              encloses rng (lstart x) (length (lvalue x)) = true.
Proof.
  intros Hnb. eexists. split; [reflexivity|].
  unfold encloses. cbn [fst snd]. rewrite (leaf_end_name _ Hnb).
  rewrite !pos_leb_refl. reflexivity.
Qed.

(* ---------------------------------------------------------------- name enumeration *)
Lemma filter_partition_perm {A} (f : A -> bool) l :
  Permutation l (filter f l ++ filter (fun y => negb (f y)) l).
Proof.
  induction l as [|x l IH]; simpl; [constructor|].
  destruct (f x); simpl.
  - constructor. exact IH.
  - apply Permutation_cons_app. exact IH.
Qed.

Lemma filter_length_le {A} (f : A -> bool) l : (length (filter f l) <= length l)%nat.
Proof. induction l as [|x l IH]; simpl; [lia|]. destruct (f x); simpl; lia. Qed.

Lemma group_fuel_perm fuel : forall l, Permutation (group_fuel fuel l) l.
Proof.
  induction fuel as [|f IH]; intros l; simpl; [apply Permutation_refl|].
  destruct l as [|x r]; [constructor|].
  simpl. constructor.
  eapply Permutation_trans; [|apply Permutation_sym, (filter_partition_perm (same_value x))].
  apply Permutation_app_head. apply IH.
Qed.

Lemma Permutation_filter {A} (f : A -> bool) l l' :
  Permutation l l' -> Permutation (filter f l) (filter f l').
Proof.
  induction 1; simpl.
  - constructor.
  - destruct (f x); [constructor|]; assumption.
  - destruct (f x), (f y); try apply perm_swap; apply Permutation_refl.
  - eapply Permutation_trans; eassumption.
Qed.

Lemma filter_filter {A} (f g : A -> bool) l :
  filter f (filter g l) = filter (fun x => g x && f x) l.
Proof.
  induction l as [|x l IH]; simpl; [reflexivity|].
  destruct (g x); simpl; [destruct (f x)|]; rewrite ?IH; reflexivity.
Qed.

Lemma filter_ext' {A} (f g : A -> bool) l : (forall x, f x = g x) -> filter f l = filter g l.
Proof. intros H. induction l as [|x l IH]; simpl; [reflexivity|]. rewrite H, IH. reflexivity. Qed.

Lemma used_names_perm t : Permutation (used_names t) (names_of t).
Proof. apply group_fuel_perm. Qed.

Lemma get_module_names_perm t a d r :
  Permutation (get_module_names t a d r) (filter (selected a d r) (names_of t)).
Proof.
  unfold get_module_names, selected, scope_filter. destruct a.
  - simpl. apply Permutation_filter, used_names_perm.
  - simpl. rewrite filter_filter. apply Permutation_filter, used_names_perm.
Qed.

Definition le_start (a b : leaf) : Prop := pos_leb (lstart a) (lstart b) = true.
Definition lt_start (a b : leaf) : Prop := pos_ltb (lstart a) (lstart b) = true.

Lemma insert_perm x l : Permutation (insert_by_start x l) (x :: l).
Proof.
  induction l as [|y r IH]; simpl; [apply Permutation_refl|].
  destruct (pos_leb (lstart x) (lstart y)); [apply Permutation_refl|].
  eapply Permutation_trans; [apply perm_skip, IH|apply perm_swap].
Qed.

Lemma sort_perm l : Permutation (sort_by_start l) l.
Proof.
  induction l as [|x l IH]; simpl; [constructor|].
  eapply Permutation_trans; [apply insert_perm|constructor; exact IH].
Qed.

Lemma insert_sorted x l : StronglySorted le_start l -> StronglySorted le_start (insert_by_start x l).
Proof.
  induction 1 as [|y r Hs IH Hf]; simpl.
  - constructor; constructor.
  - destruct (pos_leb (lstart x) (lstart y)) eqn:E.
    + constructor; [constructor; assumption|].
      constructor; [exact E|].
      eapply Forall_impl; [|exact Hf]. intros z Hz. unfold le_start in *.
      eapply pos_leb_trans; eassumption.
    + constructor; [exact IH|].
      assert (Hp : Permutation (insert_by_start x r) (x :: r)) by apply insert_perm.
      eapply Permutation_Forall; [apply Permutation_sym, Hp|].
      constructor; [apply pos_leb_total, E|exact Hf].
Qed.

Lemma sort_sorted l : StronglySorted le_start (sort_by_start l).
Proof. induction l as [|x l IH]; simpl; [constructor|apply insert_sorted, IH]. Qed.

(* a <=-sorted permutation of a strictly sorted list is that list *)
Lemma sorted_perm_unique : forall l2 l1,
  StronglySorted le_start l1 -> StronglySorted lt_start l2 -> Permutation l1 l2 -> l1 = l2.
Proof.
  induction l2 as [|y l2 IH]; intros l1 H1 H2 HP.
  - apply Permutation_sym, Permutation_nil in HP. exact HP.
  - destruct l1 as [|x l1]; [apply Permutation_nil in HP; discriminate|].
    inversion H1 as [|? ? H1s H1f]; subst. inversion H2 as [|? ? H2s H2f]; subst.
    assert (Hxy : x = y).
    { assert (Hx : In x (y :: l2)) by (eapply Permutation_in; [exact HP|left; reflexivity]).
      assert (Hy : In y (x :: l1)) by (eapply Permutation_in; [apply Permutation_sym, HP|left; reflexivity]).
      destruct Hx as [Hx|Hx]; [auto|]. destruct Hy as [Hy|Hy]; [auto|].
      rewrite Forall_forall in H1f, H2f.
      specialize (H1f _ Hy). specialize (H2f _ Hx). unfold le_start, lt_start in *.
      pose proof (pos_lt_le_trans _ _ _ H2f H1f) as C. rewrite pos_ltb_irrefl in C. discriminate. }
    subst y. f_equal. apply IH; auto. eapply Permutation_cons_inv; exact HP.
Qed.

Lemma StronglySorted_filter {A} (R : A -> A -> Prop) (f : A -> bool) l :
  StronglySorted R l -> StronglySorted R (filter f l).
Proof.
  induction 1 as [|x l Hs IH Hf]; simpl; [constructor|].
  destruct (f x); [|exact IH]. constructor; [exact IH|].
  rewrite Forall_forall in *. intros y Hy. apply filter_In in Hy as [Hy _]. auto.
Qed.

Lemma name_end_gt x : (length (lvalue x) =? 0)%nat = false -> pos_ltb (lstart x) (name_end x) = true.
Proof.
  intros H. apply Nat.eqb_neq in H. destruct x as [k p v [l c]]. unfold name_end. simpl in *.
  pos_unfold. lia.
Qed.

Lemma names_strictly_sorted_from ls : forall p,
  consistent_from p ls = true ->
  forallb (fun l => negb (is_name l) || (no_break (lvalue l) && negb (Nat.eqb (length (lvalue l)) 0))) ls = true ->
  StronglySorted lt_start (filter is_name ls).
Proof.
  induction ls as [|x r IH]; intros p Hc Hw; simpl; [constructor|].
  simpl in Hw. apply andb_true_iff in Hw as [Hx Hr].
  assert (Hc' := Hc). simpl in Hc'. apply andb_true_iff in Hc' as [_ Hc'].
  destruct (is_name x) eqn:En; [|eapply IH; eassumption].
  constructor; [eapply IH; eassumption|].
  simpl in Hx. apply andb_true_iff in Hx as [Hnb Hne]. apply negb_true_iff in Hne.
  rewrite Forall_forall. intros y Hy'. assert (Hy := Hy'). apply filter_In in Hy as [Hy _].
  assert (Hyn : lvalue y <> []).
  { rewrite forallb_forall in Hr. specialize (Hr _ Hy). apply filter_In in Hy' as [_ Hy'].
    rewrite Hy' in Hr. simpl in Hr. apply andb_true_iff in Hr as [_ Hr].
    apply negb_true_iff, Nat.eqb_neq in Hr. intros E. rewrite E in Hr. apply Hr. reflexivity. }
  assert (Hxn : lvalue x <> []).
  { apply Nat.eqb_neq in Hne. intros E. rewrite E in Hne. apply Hne. reflexivity. }
  apply in_split in Hy as (M & B & ->).
  apply (consistent_from_order p [] x M y B) in Hc as [_ Hc]; auto.
  unfold lt_start. eapply pos_lt_le_trans; [apply name_end_gt, Hne|apply Hc, Hnb].
Qed.

Lemma names_strictly_sorted t :
  consistent t = true -> names_wf t = true -> StronglySorted lt_start (names_of t).
Proof. intros Hc Hw. eapply names_strictly_sorted_from; eassumption. Qed.

Theorem script_names_perm t a d r :
  Permutation (script_names t a d r) (filter (selected a d r) (names_of t)) /\
  StronglySorted le_start (script_names t a d r).
Proof.
  split; [|apply sort_sorted].
  eapply Permutation_trans; [apply sort_perm|apply get_module_names_perm].
Qed.

Theorem script_names_eq t a d r :
  consistent t = true -> names_wf t = true ->
  script_names t a d r = filter (selected a d r) (names_of t).
Proof.
  intros Hc Hw. destruct (script_names_perm t a d r) as [HP HS].
  apply sorted_perm_unique; auto.
  apply StronglySorted_filter, names_strictly_sorted; assumption.
Qed.

Theorem names_once_each t :
  consistent t = true -> names_wf t = true ->
  script_names t true true true = names_of t.
Proof.
  intros Hc Hw. rewrite (script_names_eq t true true true Hc Hw).
  assert (E : forall l, In l (names_of t) -> selected true true true l = true).
  { intros l _. unfold selected, scope_filter, def_ref_filter. simpl. destruct (l_isdef l); reflexivity. }
  clear Hc Hw. induction (names_of t) as [|x l IH]; simpl; [reflexivity|].
  rewrite (E x) by (left; reflexivity). f_equal. apply IH. intros; apply E; right; assumption.
Qed.

Theorem names_definitions_only t :
  consistent t = true -> names_wf t = true ->
  script_names t true true false = filter l_isdef (names_of t) /\
  script_names t true false true = filter (fun l => negb (l_isdef l)) (names_of t).
Proof.
  intros Hc Hw. rewrite !(script_names_eq t _ _ _ Hc Hw). split; apply filter_ext'; intros x;
  unfold selected, scope_filter, def_ref_filter; simpl; destruct (l_isdef x); reflexivity.
Qed.

(* distinct positions: no token is reported twice *)
Theorem names_nodup_positions t :
  consistent t = true -> names_wf t = true -> NoDup (map lstart (names_of t)).
Proof.
  intros Hc Hw. pose proof (names_strictly_sorted t Hc Hw) as H.
  induction H as [|x l Hs IH Hf]; simpl; constructor; [|exact IH].
  intros Hin. apply in_map_iff in Hin as (y & Hy & Hin).
  rewrite Forall_forall in Hf. specialize (Hf _ Hin). unfold lt_start in Hf.
  rewrite Hy, pos_ltb_irrefl in Hf. discriminate.
Qed.

(* ---------------------------------------------------------------- shape of the lines *)
Definition terminated (l : str) : Prop :=
  exists body, no_break body = true /\ (l = body ++ [10] \/ l = body ++ [13] \/ l = body ++ [13; 10]).

Lemma not_break_char c nx :
  is_break c nx = false -> no_break_char c = true \/ (c = 13 /\ is_lf nx = true).
Proof.
  unfold is_break, no_break_char. intros H. apply orb_false_iff in H as [H1 H2]. rewrite H1.
  destruct (c =? 13) eqn:E; [|left; reflexivity].
  right. apply N.eqb_eq in E. simpl in H2. apply negb_false_iff in H2. auto.
Qed.

Lemma is_break_char c nx : is_break c nx = true -> c = 10 \/ c = 13.
Proof.
  unfold is_break. intros H. apply orb_true_iff in H as [H|H].
  - left. apply N.eqb_eq, H.
  - right. apply andb_true_iff in H as [H _]. apply N.eqb_eq, H.
Qed.

Theorem split_lines_shape s :
  exists init last, split_lines s = init ++ [last] /\ no_break last = true /\ Forall terminated init.
Proof.
  induction s as [|c r IH].
  - exists [], []. simpl. auto.
  - destruct IH as (init & last & E & Hl & Hf). rewrite split_lines_cons.
    destruct (is_break c (hd_opt r)) eqn:Eb.
    + exists ([c] :: init), last. rewrite E. split; [reflexivity|]. split; [exact Hl|].
      constructor; [|exact Hf]. exists []. split; [reflexivity|].
      apply is_break_char in Eb as [->| ->]; simpl; auto.
    + pose proof (join_split r) as Hj. rewrite E in Hj.
      apply not_break_char in Eb. rewrite E.
      destruct init as [|l0 init'].
      * exists [], (c :: last). simpl. split; [reflexivity|]. split; [|constructor].
        destruct Eb as [Eb|[-> Eb]]; [rewrite Eb; exact Hl|].
        simpl in Hj. rewrite app_nil_r in Hj. subst r.
        destruct last as [|d last]; [discriminate|]. simpl in Eb, Hl.
        apply N.eqb_eq in Eb. subst d. discriminate.
      * exists ((c :: l0) :: init'), last. simpl. split; [reflexivity|]. split; [exact Hl|].
        pose proof (Forall_inv Hf) as Ht. pose proof (Forall_inv_tail Hf) as Hf'. constructor; [|exact Hf'].
        destruct Ht as (body & Hb & Ht).
        destruct Eb as [Eb|[-> Eb]].
        -- exists (c :: body). simpl. rewrite Eb, Hb. split; [reflexivity|].
           destruct Ht as [->|[->| ->]]; auto.
        -- simpl in Hj. destruct body as [|b body].
           ++ exists []. split; [reflexivity|]. right. right.
              destruct Ht as [->|[->| ->]]; simpl in Hj; subst r; simpl in Eb; try discriminate.
              reflexivity.
           ++ exfalso. simpl in Hb. apply andb_true_iff in Hb as [Hb _].
              assert (hd_opt r = Some b) by (destruct Ht as [->|[->| ->]]; simpl in Hj; subst r; reflexivity).
              rewrite H in Eb. simpl in Eb. apply N.eqb_eq in Eb. subst b. discriminate.
Qed.

(* one line per line break, plus the last one *)
Fixpoint count_breaks (s : str) : nat :=
  match s with
  | [] => O
  | c :: r => (if is_break c (hd_opt r) then 1 else 0) + count_breaks r
  end.

Theorem split_lines_count s : length (split_lines s) = S (count_breaks s).
Proof.
  induction s as [|c r IH]; [reflexivity|].
  rewrite split_lines_cons. simpl count_breaks.
  destruct (is_break c (hd_opt r)); simpl; rewrite <- ?IH; [reflexivity|].
  rewrite (hd_tl_split r) at 2. reflexivity.
Qed.

(* ---------------------------------------------------------------- parso's algorithm *)
Lemma last_char_cons c l : l <> [] -> last_char (c :: l) = last_char l.
Proof.
  intros H. unfold last_char. simpl. destruct (rev l) eqn:E; [|reflexivity].
  exfalso. apply H. rewrite <- (rev_involutive l), E. reflexivity.
Qed.

Lemma py_splitlines_cons c r :
  py_splitlines (c :: r) =
  if py_is_break c (hd_opt r) then [c] :: py_splitlines r
  else match py_splitlines r with l :: ls => (c :: l) :: ls | [] => [[c]] end.
Proof. reflexivity. Qed.

Lemma py_splitlines_nil r : py_splitlines r = [] -> r = [].
Proof.
  destruct r as [|c r]; [reflexivity|]. rewrite py_splitlines_cons.
  destruct (py_is_break c (hd_opt r)); [discriminate|]. destruct (py_splitlines r); discriminate.
Qed.

Lemma py_splitlines_nonempty r : Forall (fun l => l <> []) (py_splitlines r).
Proof.
  induction r as [|c r IH]; [constructor|]. rewrite py_splitlines_cons.
  destruct (py_is_break c (hd_opt r)).
  - constructor; [discriminate|exact IH].
  - destruct (py_splitlines r) as [|l ls]; constructor; try discriminate; try constructor.
    inversion IH; assumption.
Qed.

Lemma merge_nil l : merge_non_breaks l = [] -> l = [].
Proof.
  destruct l as [|x r]; [reflexivity|]. simpl.
  destruct (last_char x) as [c|]; [|discriminate].
  destruct (non_line_break c); [|discriminate]. destruct (merge_non_breaks r); discriminate.
Qed.

Lemma merge_cons_char c l ls : l <> [] ->
  merge_non_breaks ((c :: l) :: ls) =
  (c :: hd [] (merge_non_breaks (l :: ls))) :: tl (merge_non_breaks (l :: ls)).
Proof.
  intros H. simpl. rewrite (last_char_cons c l H).
  destruct (last_char l) as [d|]; [|reflexivity].
  destruct (non_line_break d); [|reflexivity].
  destruct (merge_non_breaks ls); reflexivity.
Qed.

Lemma merge_single c rest :
  merge_non_breaks ([c] :: rest) =
  if non_line_break c
  then match merge_non_breaks rest with y :: r'' => (c :: y) :: r'' | [] => [[c]] end
  else [c] :: merge_non_breaks rest.
Proof. reflexivity. Qed.

Definition trailer (s : str) : list str := if ends_with_newline s then [[]] else [].

Lemma trailer_cons c r : r <> [] -> trailer (c :: r) = trailer r.
Proof. intros H. unfold trailer, ends_with_newline. rewrite (last_char_cons c r H). reflexivity. Qed.

Lemma non_line_break_not_newline c : non_line_break c = true -> (c =? 10) || (c =? 13) = false.
Proof.
  unfold non_line_break. intros H.
  destruct (c =? 10) eqn:E1; [apply N.eqb_eq in E1; subst; discriminate|].
  destruct (c =? 13) eqn:E2; [apply N.eqb_eq in E2; subst; discriminate|]. reflexivity.
Qed.

Lemma split_lines_parso_aux s :
  split_lines s = merge_non_breaks (py_splitlines s) ++ trailer s.
Proof.
  induction s as [|c r IH]; [reflexivity|].
  rewrite split_lines_cons, py_splitlines_cons. unfold py_is_break.
  destruct (is_break c (hd_opt r)) eqn:Eb.
  - cbn [orb]. rewrite merge_single.
    assert (Hn : non_line_break c = false) by (apply is_break_char in Eb as [->| ->]; reflexivity).
    rewrite Hn, IH. simpl. f_equal. f_equal.
    destruct r as [|d r'].
    + unfold trailer, ends_with_newline, last_char. simpl.
      apply is_break_char in Eb as [->| ->]; reflexivity.
    + symmetry. apply trailer_cons. discriminate.
  - cbn [orb]. destruct (non_line_break c) eqn:En.
    + rewrite merge_single, En.
      destruct (merge_non_breaks (py_splitlines r)) as [|y r''] eqn:EX.
      * apply merge_nil, py_splitlines_nil in EX. subst r. simpl.
        unfold trailer, ends_with_newline, last_char. simpl.
        rewrite (non_line_break_not_newline c En). reflexivity.
      * rewrite IH. simpl. rewrite trailer_cons; [reflexivity|].
        intros ->. discriminate.
    + destruct (py_splitlines r) as [|l ls] eqn:EP; rewrite ?EP in IH.
      * apply py_splitlines_nil in EP. subst r. rewrite merge_single, En. simpl.
        unfold trailer, ends_with_newline, last_char. simpl.
        unfold is_break in Eb. simpl in Eb. rewrite andb_true_r in Eb. rewrite Eb. reflexivity.
      * assert (Hl : l <> []).
        { pose proof (py_splitlines_nonempty r) as H. rewrite EP in H. inversion H; assumption. }
        rewrite (merge_cons_char c l ls Hl). rewrite IH. unfold str in *.
        remember (merge_non_breaks (l :: ls)) as M eqn:EM.
        destruct M as [|h t]; [symmetry in EM; apply merge_nil in EM; discriminate|].
        rewrite <- ?EM. cbn [hd tl app]. rewrite trailer_cons; [reflexivity|]. intros ->. discriminate.
Qed.

Theorem split_lines_parso_eq s : split_lines_parso s = split_lines s.
Proof.
  rewrite split_lines_parso_aux. unfold split_lines_parso, trailer.
  destruct (ends_with_newline s); [reflexivity|rewrite app_nil_r; reflexivity].
Qed.

(* ---------------------------------------------------------------- BOM: the hypothesis fails *)
Definition bom_tree : tree :=
  Node [Node [Node [Leaf (L (KName true true) [65279] [120] 1 0); Leaf (L KOther [32] [61] 1 2);
                    Leaf (L KOther [32] [49] 1 4)];
              Leaf (L KNewline (@nil N) [10] 1 5)];
        Leaf (L KOther (@nil N) (@nil N) 2 0)].

Lemma bom_refuted :
  exists t A l B,
    leaves t = A ++ l :: B /\ is_name l = true /\ consistent t = false /\
    slice_at (split_lines (get_code t)) (lstart l) (length (lvalue l)) <> lvalue l.
Proof.
  exists bom_tree, [], (L (KName true true) [65279] [120] 1 0),
    [L KOther [32] [61] 1 2; L KOther [32] [49] 1 4; L KNewline (@nil N) [10] 1 5; L KOther (@nil N) (@nil N) 2 0].
  split; [reflexivity|]. split; [reflexivity|]. split; [vm_compute; reflexivity|].
  vm_compute. discriminate.
Qed.

(* ---------------------------------------------------------------- a real tree for the examples *)
(* the parso tree of "def f(a):\r\n\tx = a + \\\r\n  1\r\x0c\xe9 = '''s\nt'''\ny = f" *)
Definition ex_tree : tree :=
  Node [Node [Leaf (L KOther (@nil N) [100;101;102] 1 0); Leaf (L (KName true true) [32] [102] 1 4);
    Node [Leaf (L KOther (@nil N) [40] 1 5); Node [Leaf (L (KName true false) (@nil N) [97] 1 6)];
          Leaf (L KOther (@nil N) [41] 1 7)];
    Leaf (L KOther (@nil N) [58] 1 8);
    Node [Leaf (L KNewline (@nil N) [13;10] 1 9);
      Node [Node [Leaf (L (KName true false) [9] [120] 2 1); Leaf (L KOther [32] [61] 2 3);
                  Node [Leaf (L (KName false false) [32] [97] 2 5); Leaf (L KOther [32] [43] 2 7);
                        Leaf (L KOther [32;92;13;10;32;32] [49] 3 2)]];
            Leaf (L KNewline (@nil N) [13] 3 3)];
      Node [Node [Leaf (L (KName true false) [12] [233] 4 1); Leaf (L KOther [32] [61] 4 3);
                  Leaf (L KOther [32] [39;39;39;115;10;116;39;39;39] 4 5)];
            Leaf (L KNewline (@nil N) [10] 5 4)]]];
   Node [Leaf (L (KName true true) (@nil N) [121] 6 0); Leaf (L KOther [32] [61] 6 2);
         Leaf (L (KName false true) [32] [102] 6 4)];
   Leaf (L KOther (@nil N) (@nil N) 6 5)].

